"""C13 - deletion is complete: old handles raise, no value computed from the deleted object survives (bounded).

Oracle (from the statement only).  After a history that ends in a deletion trigger:
  * the definitions after the deletion are computed on the definition-level model (c07_spec.Spec: remove the
    defined item; a deleted space disappears from every base list; derived members follow from CPython's C3) and a
    fresh model R is rebuilt from them *without executing any deletion*;
  * every handle taken at any earlier point (static spaces / cells / derived copies / ItemSpaces, their child
    spaces and cells / nodes) whose object does not exist according to those definitions (itself deleted, contained
    in a deleted space, derived from a removed base member, instance of / member of an instance of something
    deleted) must raise DeletedObjectError on every public property and on the curated public calls;
  * every other handle either does the same (it was discarded) or is alive, and then it is the very object found
    at its path by container look-ups from the live model (no orphan that still acts), and an alive ItemSpace
    evaluates as the one of R;
  * containers, base lists, derived flags (public description) equal those of R; nothing reachable through the
    containers of the live model (`spaces`, `named_spaces`, `itemspaces`, `cells`, recursively through the
    instances) is a deleted object, is an object that does not exist according to the definitions (an ItemSpace
    built on a deleted base is derived from the deleted object) or has a deleted space in its base list; no node
    of `model.tracegraph` and no entry of the preds / succs / precedents listings belongs to such an object;
  * every value held anywhere in the live model equals the value R computes for the same cells and key (a value
    R cannot compute must not be held); the whole model then evaluates like R;
  * re-creating an object under the deleted name does not revive the old handles.
A failing history goes on through the remaining checks so that each symptom is reported (one record per tag set).
Template `select` (first, so that it always completes) is about a host formula selecting ANOTHER space as the base
of its instances ('base' / 'bases' key); its failures carry `base-key` / `bases-key` and `selected:*` tags.
"""
from common import *
from c07_spec import *
from modelx.core.errors import DeletedObjectError

# ------------------------------------------------------------------------------------------ templates


def T_main():
    sp = Spec(refs={"g": lit(100)}, spaces={
        "B": S_(cells={"foo": C_("lambda x: x + 1"), "bar": C_("lambda x: foo(x) * 2"), "br": C_("lambda: r + g")},
                refs={"r": lit(3)},
                spaces={"BC": S_(cells={"h": C_("lambda: 5")})}),
        "B2": S_(cells={"foo": C_("lambda x: x + 2"), "baz": C_("lambda: 7")}),
        "Sub": S_(bases=[("B",), ("B2",)], cells={"own": C_("lambda x: foo(x) + bar(x) + r")}),
        "Sub2": S_(bases=[("Sub",)], cells={"s2": C_("lambda: own(1) + baz()")}),
        "P": S_(formula={"params": "i"},
                cells={"pp": C_("lambda x: x + i"), "pq": C_("lambda: pr + i + g")},
                refs={"pr": lit(1)},
                spaces={"PC": S_(cells={"pc": C_("lambda: i * 2")})}),
        "PS": S_(bases=[("P",)], formula={"params": "i"}, cells={"ps": C_("lambda: pp(1) + 1000")}),
        "O": S_(cells={"oq": C_("lambda: i + 7")}, spaces={"OC": S_(cells={"oc": C_("lambda: i")})}),
        "Q": S_(formula={"params": "i", "base": ("O",)}),
        "T": S_(cells={"t1": C_("lambda x: sfoo(x) + 1"), "t2": C_("lambda x: bsp.bar(x)"),
                       "t3": C_("lambda x: _model.Sub.own(x)"), "t4": C_("lambda: _model.P[1].pp(1)"),
                       "t5": C_("lambda: _model.B.BC.h() + tr"), "t6": C_("lambda: g + _model.Q[1].oq()"),
                       "t7": C_("lambda: _model.Sub2.s2()")},
                refs={"sfoo": obj(("B", "foo")), "bsp": obj(("B",)), "tr": lit(2)}),
    })
    items = [("P", (1,)), ("P", (2,)), ("P", (1,), (3,)), ("PS", (1,)), ("Q", (1,))]
    preops = [
        ("eval",),
        ("set_cformula", ("Sub", "foo"), "lambda x: x + 10"),        # override a derived cells
        ("set_input", ("B", "foo"), 5, 50),
        ("new_cells", ("B",), "nw", "lambda: 1"),
        ("set_ref", ("B",), "r", lit(4)),
        ("set_cformula", ("P", "pp"), "lambda x: x + i + 1"),         # discards instances, handles kept
    ]
    return "main", sp, items, preops


def T_diamond():
    sp = Spec(refs={"g": lit(1)}, spaces={
        "A": S_(cells={"a": C_("lambda x: x"), "k": C_("lambda: ra")}, refs={"ra": lit(1)}),
        "L": S_(bases=[("A",)], cells={"l": C_("lambda: a(1) + 1")}),
        "R_": S_(bases=[("A",)], cells={"a": C_("lambda x: x * 3"), "rr": C_("lambda: 2")}),
        "D": S_(bases=[("L",), ("R_",)], formula={"params": "n, w=1"}, cells={"d": C_("lambda: a(2) + l() + rr()")},
                spaces={"X": S_(formula={"params": "k"}, cells={"x": C_("lambda: n + k")},
                                spaces={"Y": S_(cells={"y": C_("lambda: n * k")})})}),
        "U": S_(cells={"u": C_("lambda: dsp.d() + dsp.X.Y.y()"), "v": C_("lambda: da(1)")},
                refs={"dsp": obj(("D", )), "da": obj(("D", "a"))}),
    })
    items = [("D", (1,)), ("D", (1,), "X", (2,)), ("D", "X", (5,)), ("D", (2, 3))]
    preops = [
        ("eval",),
        ("set_cformula", ("D", "a"), "lambda x: x + 100"),
        ("set_input", ("A", "a"), 1, 11),
        ("add_bases", ("U",), ("A",)),
        ("new_space", ("D", "X"), "Z", (), None),
    ]
    return "diamond", sp, items, preops


def T_nested():
    """bases that are NESTED spaces: child / grandchild / parametrised child of X are bases of spaces outside X
    (top level, derived-of-derived, nested elsewhere, next to a surviving base defining the same name) which do
    not inherit from X itself, and of a sibling inside X.  Deleting X (or X.C, X.C.G, X.N) removes those bases, so
    every member derived through them, every value computed from them and every node must go."""
    sp = Spec(refs={"g": lit(10)}, spaces={
        "X": S_(cells={"xa": C_("lambda x: x + g")}, refs={"xr": lit(2)},
                spaces={
                    "C": S_(cells={"c1": C_("lambda x: x + cr"), "c2": C_("lambda: c1(1) * 2")}, refs={"cr": lit(5)},
                            spaces={"G": S_(cells={"gg": C_("lambda x: x * 9")}, refs={"gr": lit(1)})}),
                    "C2": S_(bases=[("X", "C")], cells={"c3": C_("lambda: c2() + 1")}),
                    "N": S_(formula={"params": "i"}, cells={"n1": C_("lambda x: x + i")}),
                }),
        "Y": S_(cells={"y1": C_("lambda: 7"), "gg": C_("lambda x: x + 100")}),
        "P": S_(bases=[("X", "C")], cells={"own": C_("lambda x: c1(x) + cr + 1")}),
        "P2": S_(bases=[("P",)], cells={"p2": C_("lambda: own(1) + c2()")}),
        "Q": S_(bases=[("X", "C", "G"), ("Y",)], cells={"q": C_("lambda x: gg(x) + y1()"), "qr": C_("lambda: gr")}),
        "PN": S_(bases=[("X", "N")], formula={"params": "i"}, cells={"pn": C_("lambda: n1(1) + 1000")}),
        "Z": S_(spaces={"ZP": S_(bases=[("X", "C")], cells={"zp": C_("lambda: c2() + 3")})}),
        "T": S_(cells={"t1": C_("lambda x: pc1(x) + 1"), "t2": C_("lambda x: psp.c1(x)"),
                       "t3": C_("lambda x: _model.P.own(x)"), "t4": C_("lambda: _model.P2.p2()"),
                       "t5": C_("lambda: _model.Q.q(1)"), "t6": C_("lambda: _model.PN[1].pn()"),
                       "t7": C_("lambda: _model.Z.ZP.zp() + _model.X.C2.c3()"), "t8": C_("lambda: _model.P.cr + tr")},
                refs={"pc1": obj(("P", "c1")), "psp": obj(("P",)), "tr": lit(2)}),
    })
    items = [("X", "N", (1,)), ("PN", (1,)), ("PN", (2,))]
    preops = [
        ("eval",),
        ("set_cformula", ("P", "c2"), "lambda: c1(2) * 3"),          # override a cells derived from the nested base
        ("set_input", ("X", "C", "c1"), 5, 50),
        ("new_cells", ("X", "C"), "nw", "lambda: 1"),
        ("set_ref", ("X", "C"), "cr", lit(6)),
        ("add_bases", ("T",), ("X", "C", "G")),                      # one more outside sub of the grandchild
    ]
    return "nested", sp, items, preops


# hosts of T_select: name -> (tag of the key spelling, tags of the selected space, path of the selected space,
#                            name of the ref that provides it | None)
SELECT_HOSTS = {}


def T_select():
    """a parametrised space (host) whose formula selects ANOTHER space as the base of its instances, through the
    'base' key (hosts ..1) and through the 'bases' key (hosts ..2).  Selected: a plain top-level space without
    child spaces (NB), a parametrised top-level space with a child (PB), a plain / a parametrised space nested in
    a tree TR (deleted as a whole by `del m.TR`), a space DV derived from NB and from TR.TN (it survives their
    deletion but loses the derived members), a plain space with a child named through a model-level ref (NC via
    gsel), NB named through a ref of the host (HR.sel).  T reads through the instances by subscription, by a call
    on a space ref, by attribute paths into child spaces of an instance and through an item of an instance."""
    SELECT_HOSTS.clear()
    hosts = {}

    def host(name, sel, key, kinds, expr=None, refs=None):
        f = {"params": "i", "base": tuple(sel)}
        if key == "bases":
            f["base_key"] = "bases"
        if expr:
            f["base_expr"] = expr
        hosts[name] = S_(formula=f, refs=refs)
        SELECT_HOSTS[name] = (key + "-key", tuple("selected:" + k for k in kinds), tuple(sel), expr)
    for sfx, key in (("1", "base"), ("2", "bases")):
        host("HN" + sfx, ("NB",), key, ["plain"])
        host("HP" + sfx, ("PB",), key, ["parametrised"])
        host("HTN" + sfx, ("TR", "TN"), key, ["plain", "nested"])
        host("HTP" + sfx, ("TR", "TP"), key, ["parametrised", "nested"])
        host("HD" + sfx, ("DV",), key, ["derived"])
    host("HR", ("NB",), "base", ["plain", "via-space-ref"], expr="sel", refs={"sel": obj(("NB",))})
    host("HC", ("NC",), "bases", ["plain", "with-child", "via-model-ref"], expr="gsel")
    spaces = {
        "NB": S_(cells={"foo": C_("lambda x: x * 10 + g"), "nr": C_("lambda: r + foo(1)")}, refs={"r": lit(3)}),
        "NC": S_(cells={"cf": C_("lambda x: x + 5")}, spaces={"K": S_(cells={"kc": C_("lambda: i * 2")})}),
        "PB": S_(formula={"params": "i"}, cells={"pf": C_("lambda x: x + i")},
                 spaces={"PK": S_(cells={"pk": C_("lambda: i + 1")})}),
        "TR": S_(cells={"tc": C_("lambda: 1")}, spaces={
            "TN": S_(cells={"tn": C_("lambda x: x + 7"), "ti": C_("lambda: i + g")}),
            "TP": S_(formula={"params": "i"}, cells={"tp": C_("lambda: i * 3")}),
        }),
        "DV": S_(bases=[("NB",), ("TR", "TN")], cells={"dv": C_("lambda x: foo(x) + tn(x) + 1")}),
    }
    spaces.update(hosts)
    spaces["T"] = S_(
        cells={"t1": C_("lambda x: _model.HN1[1].foo(x) + 1"), "t2": C_("lambda: hn(2).nr() + tr"),
               "t3": C_("lambda: _model.HC[1].K.kc() + _model.HC[1].cf(1)"),
               "t4": C_("lambda: _model.HP1[1].pf(1) + _model.HP2[1].PK.pk()"), "t5": C_("lambda: _model.HP2[1][2].pf(1)"),
               "t6": C_("lambda x: _model.HTN1[1].tn(x) + _model.HTN2[1].ti()"),
               "t7": C_("lambda: _model.HTP1[1].tp() + htp(1).tp()"),
               "t8": C_("lambda x: _model.HD1[1].dv(x) + _model.HD2[1].foo(x)"),
               "t9": C_("lambda: _model.HR[1].foo(1) + _model.HN2[1].nr()"), "tt": C_("lambda: t1(2) * 2 + t3()")},
        refs={"hn": obj(("HN2",)), "htp": obj(("HTP2",)), "tr": lit(2)})
    sp = Spec(refs={"g": lit(100), "gsel": obj(("NC",))}, spaces=spaces)
    items = [("HN1", (1,)), ("HN2", (1,)), ("HN2", (2,)), ("HP1", (1,)), ("HP2", (1,)), ("HP2", (1,), (2,)),
             ("HTN1", (1,)), ("HTN2", (1,)), ("HTP1", (1,)), ("HTP2", (1,)), ("HD1", (1,)), ("HD2", (1,)),
             ("HR", (1,)), ("HC", (1,))]
    preops = [
        ("eval",),
        ("set_cformula", ("DV", "foo"), "lambda x: x + 10"),          # override a cells derived from a selected space
        ("set_input", ("NB", "foo"), 5, 50),
        ("new_cells", ("NB",), "nw", "lambda: 1"),
        ("set_ref", ("NB",), "r", lit(4)),
        ("set_cformula", ("PB", "pf"), "lambda x: x + i + 1"),         # discards instances, handles kept
    ]
    return "select", sp, items, preops


def select_tags(kind, spec_before, trig, path=None):
    """feature tags of a failing case of T_select: key spelling and kind of the selected space of the host the
    failing object lives in, else of every host whose selected space the trigger touches"""
    if kind != "select":
        return []
    if not SELECT_HOSTS:
        T_select()
    if path and path[0] in SELECT_HOSTS:
        hs = [path[0]]
    else:
        k = trig[0]
        hs = []
        for h, (_kt, _st, sel, expr) in SELECT_HOSTS.items():
            try:
                line = spec_before.mro(sel) if spec_before.has_space(sel) else [sel]
            except Exception:
                line = [sel]
            if k == "del_space":
                hit = any(q[:len(trig[1])] == tuple(trig[1]) for q in line)
            elif k in ("del_cells", "del_ref"):
                hit = tuple(trig[1]) in line or (k == "del_ref" and trig[2] == expr and tuple(trig[1]) in ((), (h,)))
            elif k == "remove_bases":
                hit = tuple(trig[1]) in line
            elif k in ("set_sformula", "clear_items", "clear_space", "clear_at", "del_item"):
                hit = tuple(trig[1]) == (h,) or (tuple(trig[1]) in line and k != "clear_space")
            else:
                hit = False
            if hit:
                hs.append(h)
    out = []
    for h in hs:
        kt, st, _sel, _expr = SELECT_HOSTS[h]
        out.append(kt)
        out.extend(st)
    return sorted(set(out))


TEMPLATES = [T_select, T_main, T_diamond, T_nested]      # T_select first: its short histories always complete
NPROC = 6            # shared machine
STAGE_FAILS = 3                # distinct tag sets reported per check stage of one history (handles, containers, ...)

# ------------------------------------------------------------------------------------------ observation


def touch_all(m, items):
    evaluate(m)
    for p in items:
        try:
            eval_space(get(m, p))
        except DeletedObjectError:
            raise
        except Exception:
            pass
    # a second pass so that cells reading instances see them
    evaluate(m)


def harvest(m, H):
    """add every object reachable now: {(path, id): (path, kind, handle)}; path elements: str | args tuple"""
    def cells_of(s, path, dyn):
        for n in list(s.cells):
            c = s.cells[n]
            H.setdefault((path + (n,), id(c)), (path + (n,), "item-cells" if dyn else "cells", c))
            try:
                keys = list(c)
            except Exception:
                keys = []
            for k in keys[:2]:
                kk = k if isinstance(k, tuple) else (k,)
                nd = c.node(*kk)
                H.setdefault((path + (n, ("node",) + kk), id(nd)), (path + (n,), "node", nd))

    def sp(s, path, dyn):
        H.setdefault((path, id(s)), (path, ("item-space" if isinstance(path[-1], tuple) else "item-child") if dyn
                                     else "space", s))
        cells_of(s, path, dyn)
        for n in list(s.named_spaces):
            sp(s.named_spaces[n], path + (n,), dyn)
        for key, it in list(s.itemspaces.items()):
            sp(it, path + ((tuple(key) if isinstance(key, tuple) else (key,)),), True)
    for n in list(m.spaces):
        sp(m.spaces[n], (n,), False)


def lookup_noncreating(m, path):
    """the object now found at `path` using container look-ups only (never creates an instance); None if absent"""
    o = m
    for e in path:
        try:
            if isinstance(e, tuple):
                its = o.itemspaces
                o = its[e] if e in its else its[e[0]]
            elif o is m:
                o = m.spaces[e]
            elif e in o.named_spaces:
                o = o.named_spaces[e]
            else:
                o = o.cells[e]
        except (KeyError, AttributeError, IndexError):
            return None
    return o


def listed_wrong(m, spec):
    """walk the containers of the live model (spaces, named_spaces, itemspaces, cells, recursively) and the base
    lists of what they list; yields (path, kind, why) for an entry that is a deleted object ("lists-deleted"),
    that does not exist according to the definitions ("lists-nonexistent"), or whose base list names a deleted
    space ("base-list")"""
    def sp(s, path, dyn):
        kind = ("item-space" if isinstance(path[-1], tuple) else "item-child") if dyn else "space"
        if is_dead(s):
            yield path, kind, "lists-deleted"
            return
        if static_image(spec, path) is None:
            yield path, kind, "lists-nonexistent"
        if any(is_dead(b) for b in s.bases):
            yield path, kind, "base-list"
        for n in list(s.cells):
            c = s.cells[n]
            ck = "item-cells" if dyn else "cells"
            if is_dead(c):
                yield path + (n,), ck, "lists-deleted"
            elif static_image(spec, path + (n,)) is None:
                yield path + (n,), ck, "lists-nonexistent"
        for n in list(s.named_spaces):
            yield from sp(s.named_spaces[n], path + (n,), dyn)
        for key, it in list(s.itemspaces.items()):
            yield from sp(it, path + ((tuple(key) if isinstance(key, tuple) else (key,)),), True)
    for n in list(m.spaces):
        yield from sp(m.spaces[n], (n,), False)


def static_image(spec, path):
    """the static object a (possibly dynamic) path is an instance/member of, per the definitions; None if none"""
    cur = ()
    for e in path:
        if isinstance(e, tuple):
            if not spec.has_space(cur):
                return None
            f = spec.space(cur)["formula"]
            if f is None:
                return None
            if isinstance(f, dict) and f.get("base") is not None:
                cur = tuple(f["base"])
        else:
            cur = cur + (e,)
    return cur if spec.exists(cur) else None


def args_for(c_params):
    return GRID.get(c_params, [()])[0]


def probe_dead(h, kind, nparams=None, had_formula=False, member=None):
    """a handle whose `.name` raises: every public property and the curated calls must raise DeletedObjectError.
    returns list of (probe, outcome) that did not"""
    bad = []
    t = type(h)
    for p in dir(t):
        if p.startswith("_"):
            continue
        if isinstance(getattr(t, p), property):
            try:
                getattr(h, p)
                bad.append((p, "returned"))
            except DeletedObjectError:
                pass
            except Exception as e:
                bad.append((p, type(e).__name__))
    calls = []
    if kind in ("cells", "item-cells"):
        a = args_for(nparams or 0)
        calls = [("call", lambda: h(*a)), ("len", lambda: len(h)), ("iter", lambda: list(h)),
                 ("node", lambda: h.node(*a)), ("clear", lambda: h.clear()), ("preds", lambda: h.preds(*a)),
                 ("succs", lambda: h.succs(*a)), ("is_input", lambda: h.is_input(*a)),
                 ("contains", lambda: a in h), ("match", lambda: h.match(*a))]
        if nparams:
            calls.append(("getitem", lambda: h[a if len(a) > 1 else a[0]]))
            calls.append(("setitem", lambda: h.__setitem__(a if len(a) > 1 else a[0], 1)))
        if kind == "cells":
            calls.append(("set_formula", lambda: h.set_formula("lambda: 0")))
            calls.append(("rename", lambda: h.rename("zz9")))
    else:
        calls = [("dir", lambda: dir(h)), ("clear_all", lambda: h.clear_all()), ("node", lambda: h.node()),
                 ("cells-prop", lambda: list(h.cells)), ("spaces-prop", lambda: list(h.spaces)),
                 ("refs-prop", lambda: list(h.refs))]
        if member:
            calls.append(("getattr-member", lambda: getattr(h, member)))
        if had_formula:
            calls.append(("getitem", lambda: h[1]))
            calls.append(("call", lambda: h(1)))
        if kind == "space":
            calls += [("new_cells", lambda: h.new_cells("zz9")), ("new_space", lambda: h.new_space("Zz9")),
                      ("setattr", lambda: setattr(h, "zz8", 1)), ("add_bases", lambda: h.add_bases(h)),
                      ("rename", lambda: h.rename("Zz7")), ("set_formula", lambda: h.set_formula("lambda q: None"))]
    for nm, f in calls:
        try:
            f()
            bad.append((nm, "returned"))
        except DeletedObjectError:
            pass
        except Exception as e:
            bad.append((nm, type(e).__name__))
    return bad


def node_serves(nd):
    try:
        if nd.has_value():
            return "has_value() is True"
    except DeletedObjectError:
        return None
    try:
        v = nd.value
        return "value returned %r" % (v,)
    except Exception:
        return None


# ------------------------------------------------------------------------------------------ triggers

def triggers(spec, items):
    T = []
    for p, ss in spec.walk():
        for n in ss["cells"]:
            T.append(("del_cells", p, n))
        for n in ss["refs"]:
            T.append(("del_ref", p, n))
        T.append(("del_space", p))
        for b in ss["bases"]:
            T.append(("remove_bases", p, b))
        if isinstance(ss["formula"], dict):
            T.append(("set_sformula", p, None))
            T.append(("set_sformula", p, dict(ss["formula"], params=ss["formula"]["params"] + ", zz=0")))
            T.append(("clear_items", p))
            T.append(("clear_space", p))
    for gn in spec.refs:
        T.append(("del_ref", (), gn))
    T.append(("clear_model",))
    for it in items:
        if len(it) == 2 and spec.has_space(it[:1]) and isinstance(spec.space(it[:1])["formula"], dict):
            try:
                key = tuple(bind(spec.space(it[:1])["formula"]["params"], it[1]).values())
            except TypeError:
                continue
            T.append(("clear_at", it[:1], key))
            T.append(("del_item", it[:1], key))
    T.append(("close",))
    return T


def trigger_class(op):
    k = op[0]
    if k in ("del_cells", "del_ref", "del_space"):
        return "direct"
    if k == "remove_bases":
        return "base-relation"
    if k == "close":
        return "model-closed"
    return "itemspace-discard"


def relation(spec_before, spec_after, op, path, kind):
    """how the dead-required handle relates to the deleted thing (a feature of the case, for the tags)"""
    dyn = any(isinstance(e, tuple) for e in path)
    static = tuple(e for e in path if not isinstance(e, tuple))
    if op[0] in ("del_cells", "del_ref"):
        target = tuple(op[1]) + (op[2],)
    elif op[0] == "del_space":
        target = tuple(op[1])
    else:
        target = None
    if dyn:
        root = []
        for e in path:
            if isinstance(e, tuple):
                break
            root.append(e)
        if target is not None and tuple(root)[:len(target)] == target:
            return "instance-of-deleted-parent"
        img = static_image(spec_before, path)
        if target is not None and img is not None and img[:len(target)] == target:
            return "instance-of-deleted-base" if tuple(root) != img[:len(root)] else "instance-member"
        return "instance-of-derived"
    if target is not None and static == target:
        return "self"
    if target is not None and static[:len(target)] == target:
        return "contained"
    return "derived"


# ------------------------------------------------------------------------------------------ one case

def code_history(spec0, items, hist):
    L = [SCRIPT_HEAD, code_build(spec0, "m", "M")]
    L.append("def touch():\n    for f in [%s]:\n        try:\n            s = f()\n            for c in s.cells.values():\n"
             "                try: c(*([0] * len(c.parameters)))\n                except DeletedObjectError: raise\n"
             "                except Exception: pass\n        except DeletedObjectError: raise\n        except Exception: pass"
             % ", ".join(["lambda: " + code_path("m", (p,)) for p in spec0.spaces] +
                         ["lambda: " + code_path("m", p) for p, _ in spec0.walk() if len(p) > 1] +
                         ["lambda: " + code_path("m", it) for it in items]))
    L.append("touch(); touch()")
    return L


def run_case(tname, pre, trig):
    key = ("del", tname, tuple(map(repr, pre)), repr(trig))
    return guarded(lambda: _run_case(tname, pre, trig), key, (tname[2:], trig[0], trigger_class(trig)),
                   "history %s" % "; ".join([code_op(e) for e in pre if e[0] != "eval"] + [repr(trig)]))


def _run_case(tname, pre, trig):
    tmpl = {t.__name__: t for t in TEMPLATES}[tname]
    kind, spec0, items, _ = tmpl()
    key = ("del", kind, tuple(map(repr, pre)), repr(trig))
    rec = {"key": key, "nontrivial": False, "notes": []}
    reset()
    m = build(spec0, "M")
    spec = spec0.copy()
    H = {}
    harvest(m, H)
    touch_all(m, items)
    harvest(m, H)
    script = code_history(spec0, items, pre)
    for op in pre:
        try:
            if op[0] != "eval":
                live_apply(m, op)
                spec.apply(op)
                script.append(code_op(op, "m"))
        except DeletedObjectError:
            raise
        except Exception as e:
            rec["notes"].append("pre-op refused, case dropped: %s -> %s" % (code_op(op), type(e).__name__))
            return rec
        touch_all(m, items)
        script.append("touch(); touch()")
        harvest(m, H)
    spec_before = spec.copy()
    tclass = trigger_class(trig)

    seen_tags = set()
    cap = [STAGE_FAILS]

    def stage():
        cap[0] = len(seen_tags) + STAGE_FAILS

    def fail(tags, what, tail, path=None):
        """record a violation; the case goes on so that the other symptoms of the same history are reported too
        (one record per distinct tag set, at most MAX_FAILS_PER_CASE)"""
        f = dict(tags=tuple([kind, trig[0], tclass] + list(tags) + select_tags(kind, spec_before, trig, path)),
                 what="after %s: %s" % (code_op(trig, "m") if trig[0] != "close" else "m.close()", what), case=key,
                 script="\n".join(script + tail) + "\n")
        rec["nontrivial"] = True
        tk = tuple(sorted(set(f["tags"])))
        if tk in seen_tags or len(seen_tags) >= cap[0]:
            return rec
        seen_tags.add(tk)
        if "fail" not in rec:
            rec["fail"] = f
        else:
            rec.setdefault("more_fails", []).append(f)
        return rec

    # ---- the trigger
    if trig[0] == "close":
        m.close()
        rec["nontrivial"] = True
        if "M" in mx.get_models():
            return fail(["listing"], "closed model still listed by get_models()", ["m.close()",
                        "sys.exit(1 if 'M' in mx.get_models() else 0)"])
        return rec
    try:
        live_apply(m, trig)
    except DeletedObjectError:
        raise
    except Exception as e:
        rec["notes"].append("trigger refused, case dropped: %s -> %s" % (code_op(trig), type(e).__name__))
        return rec
    spec.apply(trig)
    if trig[0] in ("del_cells", "del_space"):
        # a ref to the deleted object dangles even if a derived member of the same name appears in its place
        gone = tuple(trig[1]) + ((trig[2],) if trig[0] == "del_cells" else ())
        spec._retarget(gone, ("<deleted>",))
    trig_line = code_op(trig, "m")

    def handle_script(path, extra):
        return ["h = " + code_path("m", path), trig_line] + extra

    # ---- 1. handles
    required_dead = 0
    for (hp, _id), (path, hk, h) in H.items():
        if hk == "node":
            cpath = path
            img = static_image(spec, cpath)
            if img is None:
                required_dead += 1
                s = node_serves(h)
                if s:
                    fail(["node", "serves"], "node of %s: %s" % (code_path("m", cpath), s), [
                        "c = " + code_path("m", cpath), "n = c.node(*list(c)[0:1]) if c.parameters else c.node()",
                        trig_line, "r = val(lambda: n.value)", "print(r)", "sys.exit(1 if r[0] == 'v' else 0)"],
                        path=cpath)
            continue
        img = static_image(spec, path)
        dead = is_dead(h)
        if img is None:
            required_dead += 1
            rel_ = relation(spec_before, spec, trig, path, hk)
            if not dead:
                fail([hk, "alive", rel_], "handle %s (%s, %s) does not raise DeletedObjectError"
                     % (code_path("m", path), hk, rel_),
                     handle_script(path, ["r = val(lambda: h.name)", "print(r)",
                                          "sys.exit(0 if r == ('deleted',) else 1)"]), path=path)
                continue
        if dead:
            nparams = None
            had_formula = False
            member = None
            simg = static_image(spec_before, path)
            if hk in ("cells", "item-cells") and simg is not None:
                try:
                    src = spec_before.all_cells(simg[:-1])[simg[-1]][1]["src"]
                    nparams = len(inspect.signature(eval(src)).parameters)
                except Exception:
                    nparams = 0
            elif simg is not None and spec_before.has_space(simg):
                had_formula = spec_before.space(simg)["formula"] is not None
                cs = list(spec_before.all_cells(simg))
                member = cs[0] if cs else None
            bad = probe_dead(h, hk, nparams, had_formula, member)
            if bad:
                fail([hk, "partial", bad[0][0]], "dead handle %s still answers: %r" % (code_path("m", path), bad[:4]),
                     handle_script(path, ["r = val(lambda: h.name)", "print(r)"]), path=path)
        else:
            now = lookup_noncreating(m, path)
            if now is not h:
                fail([hk, "orphan"], "handle %s is alive but is not the object found at its path (%r)"
                     % (code_path("m", path), now),
                     handle_script(path, ["r = val(lambda: h.name)", "print(r)"]), path=path)
    rec["nontrivial"] = rec["nontrivial"] or required_dead > 0 or tclass == "itemspace-discard"

    # ---- 2. containers / base lists against the model rebuilt from the definitions
    skip = dangling_spaces(spec)          # spaces that now hold a ref to a deleted object: using them may raise
    strip_dangling(spec)
    r = build(spec, "R", dangling="omit")
    try:
        try:
            _after_checks(m, r, spec, H, skip, trig, trig_line, fail, handle_script, rec, stage)
        except Exception as e:
            # a violation was already recorded for this history and the orphaned state it left makes a later
            # query fail: keep the recorded symptoms (an exception on a so far clean history propagates)
            if "fail" not in rec:
                raise
            rec["notes"].append("later checks of a failing case stopped by %s" % type(e).__name__)
    finally:
        r.close()
    return rec


def listed_script(path, why, trig_line):
    """replay lines: handle `h` and its container `p` are taken before the trigger; afterwards, is `h` still listed
    by `p` (why = lists-*), or does the base list of the still listed `h` name a deleted space (why = base-list)"""
    L = ["h = " + code_path("m", path), "p = " + code_path("m", path[:-1]), trig_line]
    if len(path) == 1:
        L.append("r = val(lambda: any(x is h for x in p.spaces.values()))")
    elif isinstance(path[-1], tuple):
        L.append("r = val(lambda: any(x is h for x in p.itemspaces.values()))")
    else:
        L.append("r = val(lambda: any(x is h for x in list(p.cells.values()) + list(p.named_spaces.values())))")
    if why == "base-list":
        L.append("r = val(lambda: r == ('v', True) and any(val(lambda: b.name) == ('deleted',) for b in h.bases))")
    return L + ["print(r)", "sys.exit(1 if r == ('v', True) else 0)"]


def _after_checks(m, r, spec, H, skip, trig, trig_line, fail, handle_script, rec, stage):
    stage()
    d = diff(describe(m, True), describe(r, True))
    if d:
        fail(["containers"], "public description differs from the model rebuilt from the definitions "
             "(left = live): %s" % d, [trig_line, "# compare with a model rebuilt from the definitions:",
                                       code_build(spec, "r", "R"), "print(%r)" % d, "sys.exit(1)"])
    for lp, lk, why in listed_wrong(m, spec):
        fail(["container", why, lk], "%s is still listed by the containers of the model (%s)"
             % (code_path("m", lp), why),
             listed_script(lp, why, trig_line), path=lp)
    # ---- 3. dependency listings
    stage()
    where = {id(h): path for (_hp, _id), (path, hk, h) in H.items() if hk != "node"}
    for nd in list(m.tracegraph.nodes):
        if is_dead(nd[0].interface):
            fail(["tracegraph"], "tracegraph still holds a node of a deleted object: %r" % (nd[1],),
                 [trig_line, "dead = [n for n in m.tracegraph.nodes if not n[0].interface._is_valid()]",
                  "print(dead)", "sys.exit(1 if dead else 0)"])
            continue
        np_ = where.get(id(nd[0].interface))
        if np_ is not None and static_image(spec, np_) is None:
            fail(["tracegraph", "nonexistent"], "tracegraph still holds a node of %s, which does not "
                 "exist any more according to the definitions" % code_path("m", np_),
                 handle_script(np_, ["bad = [n for n in m.tracegraph.nodes if n[0].interface is h]", "print(bad)",
                                     "sys.exit(1 if bad else 0)"]), path=np_)
    stage()
    for cp, vals in held(m).items():
        c = get(m, cp)
        for k in list(vals)[:3]:
            kk = k if isinstance(k, tuple) else (k,)
            for lst in (c.preds(*kk), c.succs(*kk), c.precedents(*kk)):
                for nd in lst:
                    try:
                        gone = is_dead(nd.obj)
                    except DeletedObjectError:
                        gone = True
                    if gone:
                        fail(["listing"], "preds/succs/precedents of %s%r lists a deleted object"
                             % (code_path("m", cp), kk), [trig_line], path=cp)
                        continue
                    np_ = where.get(id(nd.obj))
                    if np_ is not None and static_image(spec, np_) is None:
                        fail(["listing", "nonexistent"], "preds/succs/precedents of %s%r lists %s, which "
                             "does not exist any more according to the definitions"
                             % (code_path("m", cp), kk, code_path("m", np_)),
                             handle_script(np_, ["c = " + code_path("m", cp),
                                                 "r = val(lambda: [n for n in c.preds(*%r) + c.succs(*%r) + "
                                                 "c.precedents(*%r) if n.obj is h])" % (kk, kk, kk), "print(r)",
                                                 "sys.exit(1 if r[0] == 'v' and r[1] else 0)"]), path=np_)
    # ---- 4. held values
    stage()
    hm = held(m)
    for cp, vals in hm.items():
        rc = get(r, cp)
        for k, v in vals.items():
            kk = k if isinstance(k, tuple) else (k,)
            try:
                want = ("v", norm(rc(*kk)))
            except Exception:
                want = ("exc",)
            if want != ("v", v):
                fail(["held-value", "static"], "%s holds %r at %r; rebuilt from the definitions it is %r"
                     % (code_path("m", cp), v, kk, want),
                     ["c = " + code_path("m", cp), trig_line, "print(dict(c))",
                      "# rebuilt from the definitions:", code_build(spec, "r", "R"),
                      "want = val(lambda: %s(*%r))" % (code_path("r", cp), kk), "print(want)",
                      "sys.exit(1 if %r in dict(c) and ('v', dict(c)[%r]) != want else 0)" % (k, k)], path=cp)
    # alive instances: as in R
    stage()
    for (hp, _id), (path, hk, h) in H.items():
        if hk != "item-space" or is_dead(h) or static_image(spec, path) is None:
            continue                   # (an alive instance of something that no longer exists: reported in 1.)
        try:
            ro = get(r, path)
        except Exception:
            ro = None
        got = eval_space(h)
        want = eval_space(ro) if ro is not None else None
        if got != want:
            fail(["held-value", "instance"], "surviving %s evaluates to %r; rebuilt from the definitions: %r"
                 % (code_path("m", path), got, want), handle_script(path, []), path=path)
    # ---- 5. the model keeps working and agrees with R everywhere
    em = {k: v for k, v in evaluate(m).items() if k[:-1] not in skip}
    er = {k: v for k, v in evaluate(r).items() if k[:-1] not in skip}
    if em != er:
        for k in sorted(set(em) | set(er)):
            if em.get(k) != er.get(k):
                fail(["post-eval"], "%s evaluates to %r; rebuilt from the definitions: %r"
                     % (code_path("m", k), em.get(k), er.get(k)),
                     [trig_line, "touch()", code_build(spec, "r", "R"),
                      "a = val(lambda: %s(*([0] * len(%s.parameters))))" % (code_path("m", k), code_path("m", k)),
                      "b = val(lambda: %s(*([0] * len(%s.parameters))))" % (code_path("r", k), code_path("r", k)),
                      "print(a, b)", "sys.exit(0 if a == b else 1)"], path=k)
                break

    # ---- 6. re-creating the name does not revive old handles
    stage()
    redo = None
    if trig[0] == "del_cells":
        redo = ("new_cells", trig[1], trig[2], "lambda: 0")
    elif trig[0] == "del_space":
        redo = ("new_space", trig[1][:-1], trig[1][-1], (), None)
    elif trig[0] == "del_ref":
        redo = ("set_ref", trig[1], trig[2], lit(0))
    if redo is not None:
        dead_before = [(path, hk, h) for (_hp, _id), (path, hk, h) in H.items() if hk != "node" and is_dead(h)]
        try:
            live_apply(m, redo)
        except DeletedObjectError:
            raise
        except Exception as e:
            rec["notes"].append("re-creation refused: %s -> %s" % (code_op(redo), type(e).__name__))
            return
        for path, hk, h in dead_before:
            if not is_dead(h):
                fail([hk, "revived"], "after re-creating the name, old handle %s is alive again"
                     % code_path("m", path),
                     handle_script(path, [code_op(redo, "m"), "r = val(lambda: h.name)", "print(r)",
                                          "sys.exit(0 if r == ('deleted',) else 1)"]), path=path)


def case_triggers(tname, pre, thin=False):
    """the deletion triggers applicable after the history `pre`; thin: without the instance-discarding triggers
    applied to the hosts of T_select themselves (parameter formula delete/change, clear_*, del item)"""
    tmpl = {t.__name__: t for t in TEMPLATES}[tname]
    _, spec0, items, _ = tmpl()
    sp = spec0.copy()
    for op in pre:
        if op[0] != "eval":
            sp.apply(op)
    T = triggers(sp, items)
    if thin:
        T = [t for t in T if not (trigger_class(t) == "itemspace-discard" and len(t) > 1 and t[1]
                                  and t[1][0] in SELECT_HOSTS)]
    return T


def worker(job):
    tname, pre, lo, hi, thin = job
    return [run_case(tname, list(pre), t) for t in case_triggers(tname, pre, thin)[lo:hi]]


def chunked(tname, pre, thin=False):
    n = len(case_triggers(tname, pre, thin))
    return [(tname, pre, lo, lo + 8, thin) for lo in range(0, n, 8)]


def run(res, tier, seed):
    maxpre = 2 if tier == "quick" else 3
    res.bound = ("4 model templates (<= 22 spaces, nesting <= 3: multiple inheritance incl. a diamond and derived-of-"
                 "derived, parametrised spaces with child spaces, parametrised child, item of item, derived "
                 "parametrised space, formula choosing another base, dependents reading by name / cells ref / space "
                 "ref / attribute path / through an instance; nested child / grandchild / parametrised child spaces "
                 "of a space as bases of spaces outside it: top level, derived-of-derived, nested elsewhere, next to "
                 "a surviving base with the same name, and of a sibling inside it; template `select`: 12 parametrised "
                 "hosts whose formula selects ANOTHER space as the base of their instances through the 'base' key and "
                 "through the 'bases' key - selected = plain top-level space without children / parametrised top-level "
                 "space with a child / plain and parametrised space nested in a tree / space derived from two of "
                 "them / plain space with a child named through a model-level ref / plain space named through a ref "
                 "of the host - instances (and an item of an instance) created and evaluated before the deletion, a "
                 "third space reading through them by subscription, by a call on a space ref and by attribute paths "
                 "into their child spaces); histories = every sequence of <= %d preparatory steps (quick: "
                 "length-2 prefixes in one order only; template `select`: <= %d steps, and in the quick tier the "
                 "triggers that discard the instances of a host itself only after the empty history) "
                 "out of 5-6 (evaluate everything, override a derived cells, input, new base cells, ref change, base "
                 "edit that discards instances; each followed by full evaluation and a harvest of handles to every "
                 "reachable object and node) ending in every deletion trigger applicable: del of every defined cells / "
                 "ref / space, every remove_bases, parameter formula delete/change, clear_items / clear_all / "
                 "clear_at / del item, model clear_all, model close" % (maxpre, 1 if tier == "quick" else 2))
    res.rule = ("exhaustive product prefix x trigger (template `select` first, then breadth first).  non-trivial = at "
                "least one earlier handle denotes an object that "
                "no longer exists according to the definitions after the trigger (or the trigger discards instances); "
                "distinct = distinct (template, prefix, trigger); a failing history reports each distinct symptom "
                "(tag set) once, at most %d per check stage" % STAGE_FAILS)
    jobs = []
    for t in TEMPLATES:
        _, spec0, items, preops = t()
        sel = t is T_select
        for n in range(0, (maxpre - 1 if sel else maxpre) + 1):
            for pre in itertools.permutations(preops, n):
                if tier == "quick" and n == 2 and preops.index(pre[0]) > preops.index(pre[1]):
                    continue            # quick: unordered pairs only
                jobs.extend(chunked(t.__name__, pre, thin=sel and tier == "quick" and n > 0))
    jobs.sort(key=lambda j: len(j[1]))          # breadth first: short histories of every template before long ones
    complete = run_jobs(res, jobs, worker, nproc=NPROC)
    if complete and tier != "quick":
        rj = []
        for t in TEMPLATES:
            _, spec0, items, preops = t()
            for k in range(30):
                rng = random.Random(seed * 7919 + k)
                pre = tuple(rng.choice(preops) for _ in range(4))
                rj.extend(chunked(t.__name__, pre))
        complete = run_jobs(res, rj, worker, nproc=NPROC) and complete
    res.exhaustive = bool(complete)


if __name__ == "__main__":
    main("C13", run)
