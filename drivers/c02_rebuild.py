"""describe(m): the definitions of a model (no values except assigned ones); rebuild(mx, d): a new model created
directly from such a description.  Used by the C02 driver as the second reference ("a model rebuilt from the
definitions only") and embedded verbatim in its replay scripts."""


def describe(m):
    from modelx.core.base import Interface

    def ref_value(v):
        if isinstance(v, Interface):
            return ("obj", v.fullname.split(".", 1)[1] if v._is_valid() and "." in v.fullname else None)
        return ("val", v)

    def space(s):
        d = {"bases": [b.fullname.split(".", 1)[1] for b in s._direct_bases],
             "formula": s.formula.source if s.formula is not None else None,
             "refs": {}, "cells": {}, "spaces": {}}
        for n in s._own_refs:
            impl = s._impl.own_refs[n]
            if not impl.is_derived():
                d["refs"][n] = (ref_value(impl.interface), impl.refmode)
        for n, c in s.cells.items():
            inputs = [(k, c[k]) for k in list(c)
                      if c.is_input(*(k if isinstance(k, tuple) else (k,)))] if c.is_cached else []
            if c._is_defined() or inputs:
                d["cells"][n] = {"defined": c._is_defined(), "formula": c.formula.source, "cached": c.is_cached,
                                 "allow_none": c.allow_none, "inputs": inputs}
        for n, ch in s.named_spaces.items():
            d["spaces"][n] = space(ch)
        return d

    d = {"refs": {}, "spaces": {}}
    for n in m._impl.global_refs:
        if n != "__builtins__":
            d["refs"][n] = ref_value(m._impl.global_refs[n].interface)
    for n, s in m.spaces.items():
        d["spaces"][n] = space(s)
    return d


def rebuild(mx, d, name="R"):
    m = mx.new_model(name)
    later = []                                  # references bound to objects: set when everything exists

    def lookup(path):
        o = m
        for part in path.split("."):
            o = getattr(o, part)
        return o

    for n, (kind, v) in d["refs"].items():
        if kind == "val":
            setattr(m, n, v)
        else:
            later.append((None, n, v, None))

    # 1. the space tree without bases, 2. bases (bases before subs), 3. members
    def make(parent, n, sd, path):
        s = parent.new_space(n, formula=sd["formula"])
        for cn, cd in sd["spaces"].items():
            make(s, cn, cd, path + "." + cn)

    for n, sd in d["spaces"].items():
        make(m, n, sd, n)

    todo = []

    def collect(sd, path):
        todo.append((path, sd))
        for cn, cd in sd["spaces"].items():
            collect(cd, path + "." + cn)

    for n, sd in d["spaces"].items():
        collect(sd, n)

    # members first (in the defining spaces), then inheritance links, so that derived members come from add_bases
    for path, sd in todo:
        s = lookup(path)
        for rn, ((kind, v), refmode) in sd["refs"].items():
            if kind == "val":
                s.set_ref(rn, v, refmode or "auto")
            else:
                later.append((path, rn, v, refmode))
        for cn, cd in sd["cells"].items():
            if cd["defined"]:
                c = s.new_cells(cn, formula=cd["formula"], is_cached=cd["cached"])
                if cd["allow_none"] is not None:
                    c.allow_none = cd["allow_none"]
    done = set()
    pending = [(p, sd) for p, sd in todo if sd["bases"]]
    while pending:
        progress = False
        for item in list(pending):
            path, sd = item
            if all((b not in dict(todo) or not dict(todo)[b]["bases"] or b in done) for b in sd["bases"]):
                lookup(path).add_bases(*[lookup(b) for b in sd["bases"]])
                done.add(path)
                pending.remove(item)
                progress = True
        if not progress:
            raise RuntimeError("cyclic bases in description")
    for path, rn, target, refmode in later:
        if target is None:
            raise RuntimeError("reference to a deleted object")
        owner = m if path is None else lookup(path)
        if path is None:
            setattr(m, rn, lookup(target))
        else:
            owner.set_ref(rn, lookup(target), refmode or "auto")
    # assigned values (also of derived cells)
    for path, sd in todo:
        s = lookup(path)
        for cn, cd in sd["cells"].items():
            for k, v in cd["inputs"]:
                s.cells[cn][k] = v
    return m
