"""C02 - no stale value survives any edit (bounded stand-in).

Oracle (the statement, nothing more): a *live* model goes through a history of edits interleaved with
evaluations; at every evaluation point each value it returns is compared with the value returned for the same
query by a *replay* model to which only the edits of the history so far were applied, with no evaluation in
between (built from scratch for every edit prefix).  An exception counts as an outcome (compared by type name).

Enumeration: a fixed vocabulary of small "worlds" (2-5 spaces, see c02_worlds.py).  Every world lists its
queries (each tagged with the kind of dependency path it exercises: by name / by attribute path, to a reference
of the space / of the model / derived / of a child or parent space, through a cached caller, through an uncached
intermediate, from a caller in another space, inside ItemSpaces ...) and its edit operations (each tagged with
the kind of edit).  For every world the driver enumerates all edit sequences up to the bound x evaluation
patterns (per gap between edits: nothing / all queries forward / all queries in reverse order / one single
query).  Domain: an edit sequence is used when the replay model accepts every edit and no query of the replay
model ends in DeletedObjectError (a reference left bound to a deleted object poisons the whole namespace of the
referring space; such models are left out, see the report).

Failure tags = path tags of the failing query + kinds of the culprit edits, i.e. the edits made since the query
was last seen correct that changed its correct answer (when several qualify, the history is minimised by
deleting edits and evaluations, a bounded number of times per task).  Edits that only set the scene are not in
the tags.  Edit kinds are refined from the state ("creates" / "changes" / "shadows a model-level reference",
"callee currently uncached") by probes evaluated on finished replay models; probes never decide pass/fail.

History ingredient "a value was assigned earlier": besides the plain enumeration, every 3-edit history whose first
edit assigns a value (to any cells of the world) is run with the evaluation patterns that compute the element only
after the later edits (so a value computed at a key that once held an assigned value is then exposed to every
further edit).  When a failing history needs such a scene-setting assignment (the query is answered correctly
without it), the failure carries the tag history:value-assigned-earlier.

History ingredient "a cached flag was switched earlier": the worlds contain the edit kind "switch the cached flag of
a cells" (on and off; world cached-flag: callees reading references by name / by attribute path, called from cached
cells of the same and of other spaces).  Such a switch never changes a correct answer, so it is never a culprit by
the rule above; when a failing history needs it (without the switch the query is answered correctly), its tags
(edit:cached-flag-on|off ...) and history:cached-flag-switched-earlier are added to the failure's tags.
"""
import os, sys, time, itertools, random, multiprocessing

from common import *          # mx, Result, reset, main
import c02_worlds as W
import c02_handled              # noqa: F401  appends the world "caught-failure" to W.WORLDS

N = "n"; F = "f"; R = "r"       # evaluation specs for one gap; an int = that single query


# ------------------------------------------------------------------------------------------------ running
class Runner:
    """Executes histories of one world; memoises the replay (edits-only) reference per edit prefix."""

    def __init__(self, world):
        self.w = world
        self.bcode = [compile(s, "<build>", "exec") for s in world.build]
        self.ecode = [compile(e.line, "<edit>", "exec") for e in world.edits]
        self.qcode = [compile(q.expr, "<query>", "eval") for q in world.queries]
        self.nq = len(world.queries)
        self.pcode = [compile(e.probe, "<probe>", "eval") if e.probe else None for e in world.edits]
        self.refmemo = {}
        self.dyn = {}           # edit prefix -> state-dependent tags of its last edit
        self.qcodep = [compile(q.probe, "<qprobe>", "eval") if q.probe else None for q in world.queries]
        self.qdyn = {}          # edit prefix -> per query state-dependent tags
        self.builds = 0
        self.build_error = None

    def fresh(self):
        reset()
        mx.use_formula_error(False)
        m = mx.new_model("M")
        env = {"m": m, "mx": mx}
        env.update(W.PROBE_ENV)
        for c in self.bcode:
            exec(c, env)
        self.builds += 1
        return env

    def outcome(self, env, qi):
        try:
            return ("v", repr(eval(self.qcode[qi], env)))
        except Exception as e:
            return ("x", type(e).__name__)

    def reference(self, seq):
        """Outcomes of all queries on a model that got only the edits `seq` (None: an edit was rejected)."""
        seq = tuple(seq)
        if seq in self.refmemo:
            return self.refmemo[seq]
        if seq and self.reference(seq[:-1]) is None:
            self.refmemo[seq] = None
            return None
        try:
            env = self.fresh()
        except Exception as e:          # the world itself cannot be built on this tree: nothing to compare
            self.build_error = "%s: %s" % (type(e).__name__, str(e)[:200])
            self.refmemo[seq] = None
            return None
        ok = True
        for ei in seq:
            try:
                exec(self.ecode[ei], env)
            except Exception:
                ok = False
                break
        r = tuple(self.outcome(env, qi) for qi in range(self.nq)) if ok else None
        if r is not None and any(o == ("x", "DeletedObjectError") for o in r):
            r = None        # a reference is left bound to a deleted object: outside the domain (see run())
            ok = False
        self.refmemo[seq] = r
        if ok:      # state-dependent tags of the queries and of every possible next edit (read off the finished
            #           model: definitions only)
            qd = []
            for pc in self.qcodep:
                try:
                    qd.append(tuple(eval(pc, env)) if pc is not None else ())
                except Exception:
                    qd.append(())
            self.qdyn[seq] = qd
            for ei, pc in enumerate(self.pcode):
                if pc is not None:
                    try:
                        self.dyn[seq + (ei,)] = tuple(eval(pc, env))
                    except Exception:
                        self.dyn[seq + (ei,)] = ()
        return r

    def edit_tags(self, seq, pos):
        return tuple(self.w.edits[seq[pos]].tags) + tuple(self.dyn.get(tuple(seq[:pos + 1]), ()))

    def order(self, spec):
        if spec == N:
            return ()
        if spec == F:
            return range(self.nq)
        if spec == R:
            return range(self.nq - 1, -1, -1)
        return (spec,)

    def live(self, seq, pattern, final=F):
        """Run the live history.  pattern[i] = evaluation spec of the gap before edit i; after the last edit all
        queries are evaluated (forward).  Returns (mismatches, nontrivial, edit_errors):
        mismatches = [(gap, qi, live_outcome, ref_outcome, window_start_gap)] of the FIRST failing gap."""
        try:
            env = self.fresh()
        except Exception as e:
            self.build_error = "%s: %s" % (type(e).__name__, str(e)[:200])
            return [], False, []
        k = len(seq)
        last_ok = {}            # qi -> (gap, ref outcome) of its last matching evaluation
        first_eval_gap = None
        nontrivial = False
        edit_errors = []
        for gap in range(k + 1):
            spec = pattern[gap] if gap < k else final
            ref = None
            bad = []
            for qi in self.order(spec):
                if ref is None:
                    ref = self.reference(seq[:gap])
                if first_eval_gap is None:
                    first_eval_gap = gap
                o = self.outcome(env, qi)
                if qi in last_ok and last_ok[qi][1] != ref[qi] and last_ok[qi][1][0] == "v":
                    nontrivial = True       # a held value whose correct answer changed since
                if o != ref[qi]:
                    start = last_ok[qi][0] if qi in last_ok else first_eval_gap
                    bad.append((gap, qi, o, ref[qi], start))
                else:
                    last_ok[qi] = (gap, ref[qi])
            if bad:
                return bad, nontrivial, edit_errors
            if gap < k:
                try:
                    exec(self.ecode[seq[gap]], env)
                except Exception as e:      # the replay model accepted this edit
                    edit_errors.append((gap, type(e).__name__))
        return [], nontrivial, edit_errors

    # -------------------------------------------------------------------------------- failure handling
    def fails_on(self, seq, pattern, qi):
        bad, _, _ = self.live(seq, pattern)
        return any(b[1] == qi for b in bad)

    def shrink(self, seq, pattern, gap, qi):
        """Delete edits / evaluations while query qi still disagrees with the replay model."""
        seq = list(seq[:gap]); pat = list(pattern[:gap])
        if not self.fails_on(seq, pat, qi):
            return tuple(seq), tuple(pat)
        # 1. evaluate only what is needed: try N, then the single failing query, per gap
        for i in range(len(pat)):
            for cand in (N, qi):
                if pat[i] == cand:
                    break
                trial = pat[:i] + [cand] + pat[i + 1:]
                if self.fails_on(seq, trial, qi):
                    pat = trial
                    break
        # 2. delete edits (the gap before the deleted edit is merged into the next one: keep the richer spec)
        i = 0
        while i < len(seq):
            tseq = seq[:i] + seq[i + 1:]
            if self.reference(tseq) is not None:
                done = False
                for tpat in self._merged(pat, i):
                    if self.fails_on(tseq, tpat, qi):
                        seq, pat = tseq, tpat
                        done = True
                        break
                if done:
                    continue
            i += 1
        return tuple(seq), tuple(pat)

    def needs_assignment(self, seq, pattern, qi, start, final_spec=F):
        """True when some value assignment made before the query was last seen correct (a scene-setting edit) is
        necessary for the failure: without it the query agrees with the replay model.  Refines tags only."""
        seq, pat = list(seq), list(pattern)

        def fails(tseq, tpat):
            tpat = list(tpat) + [final_spec]
            bad, _, _ = self.live_upto(tseq, tpat)
            return any(b[1] == qi for b in bad)
        if not fails(seq, pat):
            return False
        for pos in range(min(start, len(seq))):
            if ASSIGN_TAG not in self.w.edits[seq[pos]].tags:
                continue
            tseq = seq[:pos] + seq[pos + 1:]
            if self.reference(tseq) is None:
                continue
            if not any(fails(tseq, tpat) for tpat in self._merged(pat, pos)):
                return True
        return False

    def scene_needed(self, seq, pattern, qi, positions, final_spec=F):
        """The positions among `positions` (edits that did not change the query's correct answer) whose deletion
        makes the failure of query qi disappear: the failure needs them.  Refines tags only."""
        seq, pat = list(seq), list(pattern)

        def fails(tseq, tpat):
            tpat = list(tpat) + [final_spec]
            bad, _, _ = self.live_upto(tseq, tpat)
            return any(b[1] == qi for b in bad)
        if not fails(seq, pat):
            return ()
        out = []
        for pos in positions:
            tseq = seq[:pos] + seq[pos + 1:]
            if self.reference(tseq) is None or self.reference(tseq)[qi] != self.reference(seq)[qi]:
                continue
            if not any(fails(tseq, tpat) for tpat in self._merged(pat, pos)):
                out.append(pos)
        return tuple(out)

    def live_upto(self, seq, pattern):
        """live() of the history `seq` whose final evaluation round is pattern[len(seq)] instead of all queries."""
        seq = tuple(seq)
        bad, nontrivial, eerr = self.live(seq, tuple(pattern[:len(seq)]), final=pattern[len(seq)])
        return bad, nontrivial, eerr

    @staticmethod
    def _merged(pat, i):
        a = pat[i]
        rest_after = pat[i + 1:]
        if rest_after:
            b = rest_after[0]
            for keep in dict.fromkeys((a if a != N else b, b)):
                yield pat[:i] + [keep] + rest_after[1:]
        else:
            yield pat[:i]           # the evaluations of this gap move to the final (all) evaluation

    def script(self, seq, pattern, qi, final_spec=F):
        hist = []
        for gap, ei in enumerate(seq):
            for q in self.order(pattern[gap]):
                hist.append(("eval", self.w.queries[q].expr))
            hist.append(("edit", self.w.edits[ei].line))
        for q in self.order(final_spec):        # what the failing evaluation round evaluated before the query
            if q == qi:
                break
            hist.append(("eval", self.w.queries[q].expr))
        return SCRIPT % {"build": repr(list(self.w.build)), "hist": repr(hist),
                         "query": repr(self.w.queries[qi].expr), "world": self.w.name}

    def describe(self, seq, pattern):
        out = []
        for gap, ei in enumerate(seq):
            sp = pattern[gap]
            out.append("eval[%s]" % (sp if isinstance(sp, str) else self.w.queries[sp].expr))
            out.append(self.w.edits[ei].line)
        return out


SCRIPT = '''# C02 replay (world %(world)s): exit 1 iff the live model's answer differs from the answer of a model
# that got only the edits (no evaluation in between).
import sys, warnings
warnings.filterwarnings("ignore")
import modelx as mx
mx.use_formula_error(False)
BUILD = %(build)s
HIST = %(hist)s
QUERY = %(query)s

def out(env, expr):
    try:
        return ("value", repr(eval(expr, env)))
    except Exception as e:
        return ("raised", type(e).__name__)

def play(with_evals):
    m = mx.new_model("M"); env = {"m": m, "mx": mx}
    for ln in BUILD:
        exec(ln, env)
    for kind, ln in HIST:
        if kind == "edit":
            try:
                exec(ln, env)
            except Exception as e:
                print("   edit raised", type(e).__name__, "(with_evals=%%s):" %% with_evals, ln)
        elif with_evals:
            out(env, ln)
    r = out(env, QUERY); m.close(); return r

live = play(True); ref = play(False)
print(QUERY, "-> live:", live, " edits-only replay:", ref)
sys.exit(1 if live != ref else 0)
'''


# ------------------------------------------------------------------------------------------------ enumeration
def patterns(k, nq, level):
    """Evaluation patterns for k edits (specs of gaps 0..k-1).  level 0 = core, 1 = + reverse/partial, 2 = all."""
    if k == 1:
        out = [(F,), (R,)]
        if level >= 1:
            out += [(q,) for q in range(nq)]
        return out
    if k == 2:
        out = [(F, F), (F, N), (N, F)]
        if level >= 1:
            out += [(R, R), (R, N), (N, R), (F, R), (R, F)]
        if level >= 2:
            out += [(q, N) for q in range(nq)]
        return out
    if k == 3:
        out = [(F, F, F), (F, N, N), (N, F, N), (F, N, F)]
        if level >= 1:
            out += [(R, R, R)]
        return out
    # k >= 4: sampled histories
    return [(F,) * k, (F,) + (N,) * (k - 1)]


def tier_plan(tier):
    # (k, pattern level, sample size per first edit or None for exhaustive, mode)
    # mode "assigned": only histories whose first edit assigns a value, with assigned_patterns()
    # (the rows run in this order: a run cut by the budget loses the sampled long histories first)
    if tier == "quick":
        return [(1, 1, None, None), (2, 0, None, None), (3, 0, None, "assigned"), (3, 0, 4, None)]
    return [(1, 2, None, None), (2, 2, None, None), (3, 1, None, "assigned"), (3, 1, None, None),
            (4, 0, 200, "assigned"), (4, 0, 100, None), (5, 0, 50, None)]


ASSIGN_TAG = "edit:value-assign"
FLAG_TAG = "edit:cached-flag"


def assigned_patterns(k, level):
    """Evaluation patterns of the histories that start with a value assignment: the element is computed only after
    the edits that follow the assignment (level 0), also read while it holds the assigned value (level 1)."""
    out = [(N,) * (k - 1) + (F,)]
    if level >= 1:
        out += [(N, F) + (N,) * (k - 3) + (F,)]         # (F, N, .., F) is a pattern of the plain enumeration
    if k >= 4:
        out += [(N, N, F) + (N,) * (k - 3)]
    return out


SHRINKS_PER_TASK = 12
SCENE_CHECKS_PER_TASK = 40


def work(task):
    """One task = one world x one first edit: every sequence of the plan that starts with that edit."""
    wi, first, tier, seed, deadline, row = task
    t_start = time.process_time()
    world = W.WORLDS[wi]
    rn = Runner(world)
    ne = len(world.edits)
    rng = random.Random("%s/%s/%s/%s" % (seed, world.name, first, row))
    cases = []          # (key, nontrivial)
    fails = {}          # tags -> [count, [(what, script, case) ...up to 2]]
    expired = False
    shrunk = {}
    scene_checked = {}
    sample_case = []

    def one(seq, pat):
        bad, nontrivial, eerr = rn.live(seq, pat)
        key = "%s|%s|%s" % (world.name, ",".join(map(str, seq)), ",".join(map(str, pat)))
        cases.append((key, nontrivial))
        if nontrivial and not bad and len(seq) >= len(sample_case) // 2:
            sample_case[:] = rn.describe(seq, pat)
        for gap, qi, o, r, start in bad:
            sseq, spat = tuple(seq[:gap]), tuple(pat[:gap])
            fspec = pat[gap] if gap < len(seq) else F

            def tagset(sseq, start):
                tags = set(world.queries[qi].tags)
                tags.update(rn.qdyn.get(tuple(sseq[:start]), {qi: ()})[qi])
                # the edits since the query was last seen correct that changed its correct answer
                refs = [rn.reference(sseq[:t]) for t in range(start, len(sseq) + 1)]
                changing = [start + t for t in range(len(refs) - 1)
                            if refs[t] is not None and refs[t + 1] is not None and refs[t][qi] != refs[t + 1][qi]]
                used[:] = list(changing or range(start, len(sseq)))
                for pos in used:
                    tags.update(rn.edit_tags(sseq, pos))
                if any(g < gap for g, _ in eerr):
                    tags.add("edit-raised-in-live-model-only")
                return tags, len(changing)

            used = []           # positions of the edits whose tags are in the tag set
            tags, nchanging = tagset(sseq, start)
            if nchanging != 1 and gap - start != 1:
                # several candidate culprits: minimise the history (once per tag set and query)
                mk = (tuple(sorted(tags)), qi)
                if mk not in shrunk and len(shrunk) < SHRINKS_PER_TASK:
                    shrunk[mk] = True
                    sseq, spat = rn.shrink(seq, pat, gap, qi)
                    fspec = F
                    start = next((i for i, s in enumerate(spat) if s != N), 0)
                    again = [b for b in rn.live(sseq, spat)[0] if b[1] == qi]
                    if again:
                        o, r = again[0][2], again[0][3]
                    tags, _ = tagset(sseq, start)
            if len(scene_checked) < SCENE_CHECKS_PER_TASK or (tuple(sseq), tuple(spat), qi) in scene_checked:
                sk = (tuple(sseq), tuple(spat), qi)
                if sk not in scene_checked:
                    scene_checked[sk] = rn.needs_assignment(sseq, spat, qi, start, fspec)
                if scene_checked[sk]:
                    tags.add("history:value-assigned-earlier")
            # a switch of a cached flag that did not change the query's answer but without which it is answered
            # correctly: its tags join the tag set
            flips = [pos for pos in range(len(sseq)) if pos not in used
                     and any(t.startswith(FLAG_TAG) for t in world.edits[sseq[pos]].tags)]
            fk = ("flag", tuple(sseq), tuple(spat), qi)
            if flips and (len(scene_checked) < SCENE_CHECKS_PER_TASK or fk in scene_checked):
                if fk not in scene_checked:
                    scene_checked[fk] = rn.scene_needed(sseq, spat, qi, flips, fspec)
                for pos in scene_checked[fk]:
                    tags.update(rn.edit_tags(sseq, pos))
                    tags.add("history:cached-flag-switched-earlier")
            tags = tuple(sorted(tags))
            ent = fails.setdefault(tags, [0, []])
            ent[0] += 1
            if len(ent[1]) < 2:
                what = ("world %s: after %s the query %s gives %s; a model that got only the edits gives %s"
                        % (world.name, rn.describe(sseq, spat), world.queries[qi].expr, o, r))
                ent[1].append((what, rn.script(sseq, spat, qi, fspec), key))

    for k, level, sample, mode in [tier_plan(tier)[row]]:
        pats = patterns(k, rn.nq, level) if mode is None else assigned_patterns(k, level)
        if sample is None:
            seqs = ((first,) + rest for rest in itertools.product(range(ne), repeat=k - 1))
        else:
            seqs = ((first,) + tuple(rng.randrange(ne) for _ in range(k - 1)) for _ in range(sample * 8))
        done = 0
        for seq in seqs:
            if time.time() > deadline:
                expired = True
                break
            if rn.reference(seq) is None:
                continue
            for pat in pats:
                one(seq, pat)
            done += 1
            if sample is not None and done >= sample:
                break
        if expired:
            break
    return wi, first, cases, fails, expired, (rn.builds, time.process_time() - t_start, len(shrunk),
                                              [world.name] + sample_case + ["eval[f]"], rn.build_error)


def run(res, tier, seed):
    worlds = W.WORLDS
    res.bound = ("%d worlds of 2-5 spaces (<= %d queries, <= %d edit operations each; vocabulary in c02_worlds.py); "
                 "histories of <= 3 edits interleaved with <= 3 evaluation rounds exhaustively"
                 % (len(worlds), max(len(w.queries) for w in worlds), max(len(w.edits) for w in worlds))
                 + (" (3-edit histories sampled in the quick tier, except those that start with a value assignment: "
                    "exhaustive, the element computed only after the later edits)" if tier == "quick"
                    else ", plus seeded samples of 4- and 5-edit histories; the 3-edit histories that start with a value "
                         "assignment also with the element computed only after the later edits, 4-edit ones sampled"))
    res.rule = ("per world: every edit sequence accepted by the edits-only replay model (and leaving no reference bound "
                "to a deleted object) x evaluation patterns "
                "(per gap: none / all queries forward / all reverse / one query); one evaluation = one live history, "
                "every value it returns at every evaluation point compared with the replay model of that edit prefix; "
                "non-trivial = some query was evaluated to a value before an edit and evaluated again after it, and the "
                "replay model's answer to it changed in between (a held value depended on the edited thing); "
                "distinct = distinct (world, edit sequence, evaluation pattern)")
    deadline = res.t0 + res.budget_s * (0.8 if tier == "quick" else 0.85)
    tasks = [(wi, first, tier, seed, deadline, row) for row, prow in enumerate(tier_plan(tier))
             for wi, w in enumerate(worlds) for first in range(len(w.edits))
             if prow[3] is None or ASSIGN_TAG in w.edits[first].tags]
    nproc = max(1, min(12, (os.cpu_count() or 2) - 2))
    if os.environ.get("VERIF_DRIVER_PROCS"):           # shared machine: cap the worker processes
        nproc = max(1, int(os.environ["VERIF_DRIVER_PROCS"]))
    exhaustive = True
    builds = 0; cpu = 0.0; maxcpu = 0.0; nshrunk = 0
    ctx = multiprocessing.get_context("fork")
    with ctx.Pool(nproc) as pool:
        for wi, first, cases, fails, expired, nb in pool.imap(work, tasks, chunksize=1):
            builds += nb[0]; cpu += nb[1]; maxcpu = max(maxcpu, nb[1]); nshrunk += nb[2]
            for key, nontrivial in cases:
                res.count(key, nontrivial)
            for tags, (count, examples) in sorted(fails.items()):
                for what, script, key in examples:
                    res.fail(tags, what, script=script, case=key)
                res.failure_counts[tags] = res.failure_counts.get(tags, 0) + count - len(examples)
            if expired:
                exhaustive = False
            if nb[4]:
                exhaustive = False
                note = "world %s could not be built: %s" % (worlds[wi].name, nb[4])
                if note not in res.notes:
                    res.notes.append(note)
            if first == 1 and len(nb[3]) > 2:
                res.sample(nb[3], cap=6)
    res.exhaustive = exhaustive
    res.notes.append("model builds (live + replay): %d; %d worker processes; worker cpu %.0f s (largest task %.1f s); "
                     "%d failing histories minimised" % (builds, nproc, cpu, maxcpu, nshrunk))
    res.notes.append("worlds: " + "; ".join("%s (%d queries, %d edits)" % (w.name, len(w.queries), len(w.edits))
                                             for w in worlds))


if __name__ == "__main__":
    main("C02", run)
