"""C11 - rejected edits change nothing; the inheritance relation stays well-formed (bounded stand-in).

Oracle (from the statement only).  For every candidate operation, at every point of a short history:
  * if the operation raises: the public description of the whole model (spaces, direct bases and linearisation,
    parameter formulas, cells with source / flags / inputs / derived flag, refs with value / mode / derived flag)
    is exactly what it was before, the description can still be produced, every cells (static ones and those of
    the instances in use) evaluates like in a model rebuilt from the unchanged definitions, and the model can still
    be edited (one more valid edit, evaluated and compared again);
  * if the operation is accepted: the direct-base graph over all spaces is acyclic and CPython's own C3
    (type(name, bases, {})) finds a linearisation for every space, every `bases` listing is duplicate-free and does
    not contain the space itself, and every space / cells name in the model is an identifier that does not start
    with an underscore and is not a reserved word.
The driver never assumes that a given candidate *must* be rejected (that is C12's business), except for the name
clause just stated.
"""
import keyword
from common import *
from c07_spec import *
from modelx.core.errors import DeletedObjectError

# ------------------------------------------------------------------------------------------ template


def T_main():
    sp = Spec(refs={"g": lit(100)}, spaces={
        "B": S_(cells={"foo": C_("lambda x: x"), "fb": C_("lambda x: foo(x) + r")}, refs={"r": lit(3)},
                spaces={"C": S_(cells={"h": C_("lambda: 1")}), "C2": S_()}),
        "A": S_(cells={"a": C_("lambda: 1")}),
        "Sub": S_(bases=[("B",)], formula={"params": "i"},
                  cells={"own": C_("lambda x: foo(x) + r + i"), "u": C_("lambda x: x + 1", is_cached=False)}),
        "X": S_(bases=[("A",), ("B",)]),
        "Y": S_(bases=[("B",), ("A",)]),
        "N": S_(cells={"n0": C_("lambda: 5"), "nn": C_("lambda x: None if x else 1", allow_none=True),
                       "setter": C_("lambda x: _model.B.foo.__setitem__(x, 99)")}),
        "CL1": S_(cells={"z": C_("lambda: 1")}),
        "CL2": S_(refs={"z": lit(2)}, cells={"k": C_("lambda: z")}),
        "RB": S_(cells={"bc": C_("lambda: rr() + 1")}, refs={"rr": obj(("A", "a"), "relative")}),
        "E": S_(cells={"e": C_("lambda x: x * 2")}),
        "Z0": S_(),
    })
    items = [("Sub", (1,)), ("Sub", (2,))]
    preops = [
        ("eval",),
        ("set_input", ("B", "foo"), 1, 5),
        ("set_cformula", ("Sub", "foo"), "lambda x: x + 10"),
        ("set_ref", ("B",), "r", lit(4)),
        ("add_bases", ("E",), ("A",)),
        ("new_cells", ("A",), "a2", "lambda: a() + 1"),
    ]
    return "main", sp, items, preops


BAD_NAMES = [("1x", "not-identifier"), ("_hid", "underscore"), ("a b", "not-identifier"), ("", "empty"),
             ("class", "keyword")]
BAD_SRC = [("def zz(x): return (", "syntax"), ("lambda x: (", "syntax"), ("x = 1", "not-a-function")]


def candidates():
    """(reason, operation, detail tags, code) - code is executed with `m` (the model) and `mx` in scope"""
    C = []

    def add(reason, op, code, *detail):
        C.append((reason, op, tuple(detail), code))
    for n, why in BAD_NAMES:
        add("invalid-name", "new_space", "m.new_space(%r)" % n, why, "in-model")
        add("invalid-name", "new_space", "m.B.new_space(%r)" % n, why, "in-space")
        add("invalid-name", "new_cells", "m.B.new_cells(%r, formula='lambda: 0')" % n, why)
        add("invalid-name", "rename_cells", "m.A.a.rename(%r)" % n, why)
        add("invalid-name", "rename_cells", "m.B.foo.rename(%r)" % n, why, "has-subs")
        add("invalid-name", "rename_space", "m.A.rename(%r)" % n, why, "top")
        add("invalid-name", "rename_space", "m.B.C.rename(%r)" % n, why, "nested")
        add("invalid-name", "rename_space", "m.Z0.rename(%r)" % n, why, "empty-space")
        add("invalid-name", "rename_model", "m.rename(%r)" % n, why)
        add("invalid-name", "set_ref", "m.B.set_ref(%r, 1, 'auto')" % n, why)
        add("invalid-name", "setattr", "setattr(m.B, %r, 1)" % n, why)
        add("invalid-name", "copy_space", "m.A.copy(m, %r)" % n, why)
        add("invalid-name", "copy_cells", "m.A.a.copy(m.Z0, %r)" % n, why)
        add("invalid-name", "new_model", "mx.new_model(%r)" % n, why)
    add("invalid-name", "new_cells", "m.B.new_cells(formula='def _hid(): return 1')", "underscore", "name-from-formula")
    add("invalid-name", "new_cells", "m.B.new_cells(name='_hid', formula='def ok(): return 1')", "underscore", "name-and-def")
    # clashing names
    for n, what in [("foo", "cells"), ("r", "ref"), ("C", "space"), ("g", "global-ref")]:
        add("clash", "new_cells", "m.B.new_cells(%r, formula='lambda: 0')" % n, "with-" + what)
        add("clash", "new_space", "m.B.new_space(%r)" % n, "with-" + what)
    add("clash", "new_cells", "m.Sub.new_cells('foo', formula='lambda: 0')", "with-derived-cells")
    add("clash", "new_cells", "m.Sub.new_cells('r', formula='lambda: 0')", "with-derived-ref")
    add("clash", "new_cells", "m.B.new_cells(formula='def foo(x): return 0')", "with-cells", "name-from-formula")
    add("clash", "new_cells", "m.B.new_cells(formula='def r(): return 0')", "with-ref", "name-from-formula")
    add("clash", "new_cells", "m.B.new_cells('own', formula='lambda: 0')", "with-sub-cells")
    add("clash", "new_cells", "m.CL2.new_cells('z', formula='lambda: 0')", "with-ref")
    add("clash", "new_space", "m.new_space('B')", "with-space", "in-model")
    add("clash", "new_space", "m.new_space('g')", "with-global-ref", "in-model")
    add("clash", "new_space", "m.B.new_space('own')", "with-sub-cells")
    add("clash", "new_space", "m.new_space('B', bases=m.A)", "with-space", "with-bases")
    add("clash", "rename_cells", "m.Sub.own.rename('u')", "with-cells")
    add("clash", "rename_cells", "m.Sub.own.rename('foo')", "with-derived-cells")
    add("clash", "rename_cells", "m.B.foo.rename('r')", "with-ref")
    add("clash", "rename_cells", "m.B.foo.rename('fb')", "with-cells", "has-subs")
    add("clash", "rename_cells", "m.B.foo.rename('own')", "with-sub-cells")
    add("clash", "rename_cells", "m.B.foo.rename('C')", "with-space")
    add("clash", "rename_space", "m.A.rename('B')", "with-space")
    add("clash", "rename_space", "m.B.C.rename('C2')", "with-space", "nested")
    add("clash", "rename_space", "m.B.C.rename('foo')", "with-cells", "nested")
    add("clash", "rename_space", "m.B.C.rename('r')", "with-ref", "nested")
    add("clash", "rename_space", "m.A.rename('g')", "with-global-ref")
    add("clash", "setattr", "setattr(m.B, 'foo', 5)", "with-nonscalar-cells")
    add("clash", "setattr", "setattr(m.B, 'C', 5)", "with-space")
    add("clash", "setattr", "setattr(m.B, 'own', 1)", "with-sub-cells")
    add("clash", "setattr", "setattr(m, 'B', 5)", "with-space", "in-model")
    add("clash", "add_bases", "m.CL1.add_bases(m.CL2)", "cells-vs-ref")
    add("clash", "add_bases", "m.CL2.add_bases(m.CL1)", "ref-vs-cells")
    add("clash", "new_space", "m.new_space('ZZ', bases=[m.CL1, m.CL2])", "cells-vs-ref", "with-bases")
    add("clash", "copy_cells", "m.B.foo.copy(m.Sub, 'own')", "with-cells")
    add("clash", "copy_cells", "m.B.foo.copy(m.Sub)", "with-derived-cells")
    add("clash", "copy_space", "m.A.copy(m, 'B')", "with-space")
    add("clash", "rename_model", "mx.new_model('Other'); m.rename('Other')", "with-model")
    # cyclic inheritance
    add("cyclic", "add_bases", "m.A.add_bases(m.A)", "self")
    add("cyclic", "add_bases", "m.B.add_bases(m.Sub)", "direct")
    add("cyclic", "add_bases", "m.A.add_bases(m.X)", "direct")
    add("cyclic", "add_bases", "m.B.add_bases(m.E, m.Y)", "second-of-two")
    add("cyclic", "add_bases", "m.Z0.add_bases(m.A); m.A.add_bases(m.Z0)", "two-steps")
    # no linearisation
    add("no-mro", "add_bases", "m.X.add_bases(m.Y)")
    add("no-mro", "add_bases", "m.Z0.add_bases(m.B, m.Sub)", "base-before-sub")
    add("no-mro", "add_bases", "m.Z0.add_bases(m.X); m.Z0.add_bases(m.Y)", "two-steps")
    add("no-mro", "new_space", "m.new_space('ZZ', bases=[m.X, m.Y])")
    add("no-mro", "new_space", "m.new_space('ZZ', bases=[m.B, m.Sub])", "base-before-sub")
    add("no-mro", "new_space", "m.B.new_space('ZZ', bases=[m.X, m.Y])", "nested")
    add("no-mro", "add_bases", "m.A.add_bases(m.B)", "in-a-sub")          # X(A,B), Y(B,A): A(B) breaks X
    # deleting derived / absent members
    add("delete-derived", "del_cells", "del m.Sub.foo", "cells")
    add("delete-derived", "del_cells", "del m.Sub.cells['foo']", "cells", "via-view")
    add("delete-derived", "del_cells", "del m.X.a", "cells")
    add("delete-derived", "del_ref", "del m.Sub.r", "ref")
    add("delete-derived", "del_ref", "del m.Sub.g", "global-ref-in-space")
    add("delete-absent", "del", "del m.Sub.nope")
    add("delete-absent", "del", "del m.nope", "in-model")
    add("delete-absent", "del", "del m.B.spaces['nope']", "via-view")
    add("delete-derived", "del_cells", "del m.Sub[1].foo", "in-itemspace")
    add("delete-derived", "del_ref", "del m.Sub[1].i", "argument")
    # malformed formulas
    for src, why in BAD_SRC:
        add("malformed-formula", "new_cells", "m.B.new_cells('zz', formula=%r)" % src, why)
        add("malformed-formula", "new_cells", "m.Sub.new_cells('zz', formula=%r)" % src, why, "parametrised-space")
        add("malformed-formula", "set_formula", "m.B.foo.formula = %r" % src, why, "has-subs")
        add("malformed-formula", "set_formula", "m.A.a.set_formula(%r)" % src, why)
        add("malformed-formula", "set_formula", "m.Sub.foo.formula = %r" % src, why, "derived-cells")
        add("malformed-formula", "space_formula", "m.B.formula = %r" % src, why, "no-formula-yet")
        add("malformed-formula", "space_formula", "m.Sub.formula = %r" % src, why, "has-formula")
        add("malformed-formula", "new_space", "m.new_space('ZZ', formula=%r)" % src, why)
        add("malformed-formula", "new_space", "m.B.new_space('ZZ', formula=%r)" % src, why, "nested")
        add("malformed-formula", "Formula", "mx.core.formula.Formula(%r)" % src, why)
    add("malformed-formula", "new_cells", "m.B.new_cells('zz', formula=5)", "not-a-function")
    add("malformed-formula", "new_cells", "m.B.new_cells(formula='def zz(x): return (')", "syntax", "name-from-formula")
    add("malformed-formula", "set_formula", "m.B.foo.formula = 5", "not-a-function")
    # unassignable values
    add("unassignable", "setitem", "m.B.foo[1] = None", "none")
    add("unassignable", "setitem", "m.B.foo[3] = None", "none", "fresh-key")
    add("unassignable", "setitem", "m.Sub.foo[1] = None", "none", "derived-cells")
    add("unassignable", "setitem", "m.Sub[1].own[1] = None", "none", "in-itemspace")
    add("unassignable", "setattr", "m.N.n0 = None", "none", "scalar")
    add("unassignable", "setitem", "m.B.foo[1, 2] = 3", "arity")
    add("unassignable", "setitem", "m.N.n0[1] = 3", "arity", "scalar")
    add("unassignable", "setitem", "m.Sub.u[1] = 5", "uncached")
    add("unassignable", "setitem", "m.Sub[1].u[1] = 5", "uncached", "in-itemspace")
    add("unassignable", "setattr", "m.Sub[1].zz = 5", "itemspace-attr")
    add("unassignable", "in-formula", "m.N.setter(7)", "assignment-in-formula")
    add("unassignable", "in-formula", "m.N.setter(1)", "assignment-in-formula", "existing-key")
    add("unassignable", "set_property", "m.B.foo.set_property('nope', 1)", "unknown-property")
    add("unassignable", "set_property", "m.B.set_property('name', 'Q')", "read-only-property")
    add("unassignable", "setitem", "m.B.foo[[1]] = 2", "unhashable-key")
    # other refusals
    add("out-of-scope", "relref", "m.A.relref(rr=m.B.foo)", "has-subs")
    add("out-of-scope", "add_bases", "m.Z0.relref(rr=m.B.foo); m.E.add_bases(m.Z0)", "after-relref")
    add("out-of-scope", "add_bases", "m.E.add_bases(m.RB)")
    add("out-of-scope", "add_bases", "m.Sub.add_bases(m.RB)", "parametrised-space")
    add("out-of-scope", "new_space", "m.new_space('ZZ', bases=m.RB)")
    add("bad-argument", "add_bases", "m.A.add_bases(m.Sub[1])", "dynamic-base")
    add("bad-argument", "add_bases", "m.A.add_bases(5)", "not-a-space")
    add("bad-argument", "new_space", "m.new_space('ZZ', bases=m.Sub[1])", "dynamic-base")
    add("bad-argument", "new_space", "m.new_space('ZZ', bases=[m.A, 5])", "not-a-space")
    add("bad-argument", "remove_bases", "m.Sub.remove_bases(m.A)", "not-a-base")
    add("bad-argument", "remove_bases", "m.X.remove_bases(m.A, m.E)", "second-not-a-base")
    add("bad-argument", "rename_cells", "m.Sub.foo.rename('zz')", "derived-cells")
    add("bad-argument", "new_cells", "m.Sub[1].new_cells('zz')", "in-itemspace")
    add("bad-argument", "set_ref", "m.B.set_ref('zz', 5, 'bogus')", "refmode")
    add("bad-argument", "set_ref", "m.B.set_ref('cells', 5, 'auto')", "attribute-name")
    add("bad-argument", "clear_at", "m.B.foo.clear_at(1, 2)", "arity")
    return C


# ------------------------------------------------------------------------------------------ observation

SNAP_SRC = '''
def snap(m):
    """public description of every definition in the model"""
    def ref(impl):
        v = impl.interface
        return (repr(v) if not hasattr(v, "_impl") else (type(v).__name__, v.fullname if v._is_valid() else None),
                impl.refmode, impl.is_derived())
    def space(s):
        return {"bases": [b.fullname for b in s._direct_bases], "mro": [b.fullname for b in s.bases],
                "formula": s.formula.source if s.formula is not None else None,
                "cells": {n: (c.formula.source, tuple(c.parameters), c.allow_none, c.is_cached, c._is_derived(),
                              sorted((repr(k), repr(c._impl.data[k])) for k in c._impl.input_keys))
                          for n, c in s.cells.items()},
                "refs": {n: ref(s._impl.own_refs[n]) for n in s._own_refs},
                "spaces": {n: space(c) for n, c in s.named_spaces.items()}}
    return {"name": m.name,
            "refs": {n: ref(m._impl.global_refs[n]) for n in m._impl.global_refs if n != "__builtins__"},
            "spaces": {n: space(s) for n, s in m.spaces.items()}}
'''
exec(SNAP_SRC)


def touch_all(m, items):
    out = evaluate(m)
    for p in items:
        try:
            o = get(m, p)
            for k, v in eval_space(o).items():
                out[tuple(p) + k] = v
        except DeletedObjectError:
            raise
        except Exception:
            out[tuple(p)] = ("exc",)
    return out


def wellformed(m):
    """None or (tag, text): acyclicity + existence of a C3 linearisation (CPython) + listing sanity + names"""
    spaces = {}

    def rec(s):
        spaces[s.fullname] = s
        for c in s.named_spaces.values():
            rec(c)
    for s in m.spaces.values():
        rec(s)
    def okname(n):
        return isinstance(n, str) and n.isidentifier() and not n.startswith("_") and not keyword.iskeyword(n)
    for fn, s in spaces.items():
        if not okname(s.name):
            return "bad-space-name", "space named %r" % (s.name,)
        for cn, c in s.cells.items():
            if not okname(cn) or c.name != cn:
                return "bad-cells-name", "cells named %r (%r) in %s" % (cn, c.name, fn)
    direct = {fn: [b.fullname for b in s._direct_bases] for fn, s in spaces.items()}
    classes, stack = {}, set()

    def cls(fn):
        if fn in classes:
            return classes[fn]
        if fn in stack:
            raise ValueError("cycle through %s" % fn)
        stack.add(fn)
        bs = tuple(cls(b) for b in direct.get(fn, []))
        stack.discard(fn)
        classes[fn] = type(fn.replace(".", "_"), bs or (object,), {})
        return classes[fn]
    for fn in spaces:
        try:
            cls(fn)
        except ValueError as e:
            return "cyclic-bases", "base relation is cyclic: %s (direct bases %r)" % (e, direct)
        except TypeError as e:
            return "no-c3", "no C3 linearisation for %s with direct bases %r" % (fn, direct[fn])
    for fn, s in spaces.items():
        try:
            lst = [b.fullname for b in s.bases]
        except DeletedObjectError:
            raise
        except Exception as e:
            return "no-c3", "%s.bases raises %s: %s" % (fn, type(e).__name__, e)
        if len(set(lst)) != len(lst) or fn in lst:
            return "bases-listing", "%s.bases = %r" % (fn, lst)
        for b in direct[fn]:
            if b not in spaces:
                return "bases-listing", "%s has a direct base %s that is not in the model" % (fn, b)

    return None


# ------------------------------------------------------------------------------------------ one case

_R = {}


def reference_values(spec, items, follow=None):
    key = (repr(spec.refs), repr(spec.spaces), repr(follow))
    if key not in _R:
        sp = spec
        if follow is not None:
            sp = spec.copy()
            sp.apply(follow)
        r = build(sp, "R")
        try:
            _R[key] = touch_all(r, items)
        finally:
            r.close()
    return _R[key]


def make_script(spec0, items, pre, code, mode, setup=None):
    L = [SCRIPT_HEAD, SNAP_SRC, code_build(spec0, "m", "M")]
    L.append("def touch():\n    for f in [%s]:\n        try:\n            s = f()\n            for c in s.cells.values():\n"
             "                for a in ([()] if not c.parameters else [(0,), (2,)]):\n"
             "                    try: c(*a)\n                    except Exception: pass\n        except Exception: pass"
             % ", ".join(["lambda: " + code_path("m", p) for p, _ in spec0.walk()] +
                         ["lambda: " + code_path("m", it) for it in items]))
    L.append("touch()")
    for op in pre:
        if op[0] != "eval":
            L.append(code_op(op, "m"))
        L.append("touch()")
    if setup:
        L.extend(setup.split("; "))
        L.append("touch()")
    L.append("before = snap(m)")
    L.append("try:\n    " + code + "\n    raised = None\n"
             "except Exception as e:\n    raised = e")
    L.append("print('raised:', repr(raised))")
    if mode == "unchanged":
        L.append("try:\n    after = snap(mx.get_models().get('M', m))\nexcept Exception as e:\n"
                 "    print('description fails:', repr(e)); sys.exit(1 if raised is not None else 0)")
        L.append("print('unchanged:', after == before)")
        L.append("sys.exit(1 if raised is not None and after != before else 0)")
    else:
        L.append("print('accepted' if raised is None else 'rejected')")
        L.append("sys.exit(1 if raised is None else 0)")
    return "\n".join(L) + "\n"


def run_case(pre, cand, spec0, items):
    key = ("reject", tuple(map(repr, pre)), cand[3])
    return guarded(lambda: _run_case(pre, cand, spec0, items), key, (cand[0], cand[1]) + tuple(cand[2]),
                   "candidate %s" % cand[3])


def _run_case(pre, cand, spec0, items):
    reason, opname, detail, code = cand
    key = ("reject", tuple(map(repr, pre)), code)
    rec = {"key": key, "nontrivial": False, "notes": []}
    reset()
    m = build(spec0, "M")
    spec = spec0.copy()
    touch_all(m, items)
    for op in pre:
        try:
            if op[0] != "eval":
                live_apply(m, op)
                spec.apply(op)
        except DeletedObjectError:
            raise
        except Exception as e:
            rec["notes"].append("pre-op refused, case dropped: %s -> %s" % (code_op(op), type(e).__name__))
            return rec
        touch_all(m, items)
    setup = None
    if "; " in code:
        setup, code = code.rsplit("; ", 1)
        try:
            exec(setup, {"m": m, "mx": mx})
        except DeletedObjectError:
            raise
        except Exception as e:
            rec["notes"].append("setup step refused, case dropped: %s -> %s" % (setup, type(e).__name__))
            return rec
        values_before = touch_all(m, items)
    before = snap(m)
    before2 = describe_model(m)
    tags0 = [reason, opname] + list(detail)
    raised = None
    try:
        exec(code, {"m": m, "mx": mx})
    except Exception as e:
        raised = e
    live = mx.get_models().get("M")

    def fail(sym, what, mode):
        rec["fail"] = dict(tags=tuple(tags0 + list(sym)), what="%s  [%s]: %s" % (
            code, "raised %s" % type(raised).__name__ if raised is not None else "accepted", what), case=key,
            script=make_script(spec0, items, pre, code, mode, setup))
        rec["nontrivial"] = True
        return rec
    if raised is not None:
        rec["nontrivial"] = True
        if live is not m:
            return fail(["model-lost"], "the model is no longer registered under its name", "unchanged")
        try:
            after = snap(m)
            after2 = describe_model(m)
        except DeletedObjectError:
            raise
        except Exception as e:
            return fail(["rejected-but-changed", "description-fails"],
                        "the model can no longer be described: %s: %s" % (type(e).__name__, e), "unchanged")
        d = diff(before, after) or diff(before2, after2)
        if d:
            return fail(["rejected-but-changed"], "definitions differ after the rejected operation (left = before): %s" % d,
                        "unchanged")
        got = touch_all(m, items)
        want = reference_values(spec, items) if setup is None else values_before
        if got != want:
            k = [k for k in sorted(set(got) | set(want), key=repr) if got.get(k) != want.get(k)][0]
            return fail(["values-wrong"], "%s evaluates to %r, a model rebuilt from the unchanged definitions gives %r"
                        % (code_path("m", k), got.get(k), want.get(k)), "unchanged")
        if setup is not None:
            return rec
        # the model is still editable and consistent afterwards
        follow = ("new_cells", ("B",), "after_ok", "lambda: foo(1) + 1")
        try:
            live_apply(m, follow)
        except DeletedObjectError:
            raise
        except Exception as e:
            return fail(["later-edit-fails"], "a later valid edit (%s) raises %s: %s" % (code_op(follow), type(e).__name__, e),
                        "unchanged")
        got = touch_all(m, items)
        want = reference_values(spec, items, follow)
        if got != want:
            k = [k for k in sorted(set(got) | set(want), key=repr) if got.get(k) != want.get(k)][0]
            return fail(["values-wrong", "after-later-edit"], "after a later valid edit %s evaluates to %r, rebuilt: %r"
                        % (code_path("m", k), got.get(k), want.get(k)), "unchanged")
    else:
        if live is None:
            live = m if m.name in mx.get_models() else None
        mm = live if live is not None else m
        try:
            w = wellformed(mm)
        except DeletedObjectError:
            raise
        if w:
            rec["nontrivial"] = True
            return fail(["accepted", w[0]], w[1], "accepted")
        rec["nontrivial"] = opname in ("add_bases", "remove_bases", "new_space", "rename_space", "rename_cells",
                                       "new_cells", "copy_space", "copy_cells")
    return rec


def worker(job):
    pre, lo, hi = job
    kind, spec0, items, _ = T_main()
    cs = candidates()[lo:hi]
    return [run_case(list(pre), c, spec0, items) for c in cs]


def run(res, tier, seed):
    maxpre = 2 if tier == "quick" else 3
    kind, spec0, items, preops = T_main()
    cands = candidates()
    res.bound = ("one model of 12 spaces (single/multiple inheritance with two conflicting linearisation orders, nested "
                 "spaces, a parametrised derived space with instances in use, uncached / allow_none / scalar cells, a "
                 "relative ref pointing outside, name-clash partners) x %d candidate operations = every rejection reason "
                 "(invalid name x 5 spellings, clash with cells / ref / space / global / derived / sub member, cyclic, "
                 "no linearisation, delete derived / absent, malformed formula x 3, unassignable value, out-of-scope "
                 "relative ref, bad argument) x every operation that can trigger it, at every point of every history of "
                 "<= %d valid steps out of 6 (evaluate, input, override derived cells, ref change, add base, new cells)"
                 % (len(cands), maxpre))
    res.rule = ("exhaustive product history x candidate; each candidate runs on a fresh model with all values computed. "
                "non-trivial = the operation raised (first sentence of the statement) or it was an accepted structural "
                "edit (second sentence); distinct = distinct (history, candidate)")
    jobs = []
    n = len(cands)
    step = 12
    for k in range(0, maxpre + 1):
        for pre in itertools.permutations(preops, k):
            for lo in range(0, n, step):
                jobs.append((pre, lo, lo + step))
    complete = run_jobs(res, jobs, worker)
    res.exhaustive = bool(complete)


if __name__ == "__main__":
    main("C11", run)
