"""C05 - a failed evaluation leaves a consistent, retryable state (bounded stand-in driver).

Parts
  A  dependency DAGs (c05_gen) x failure point x exception kind x histories of <= 3 failure/repair edits
  N  the allow_none resolution matrix (cells / space / parent space / model) for a formula returning None
  H  DAGs in which callers handle (try/except) the failure of an element: the handled failure leaves no value,
     the callers complete, later evaluations are unaffected
  R  recursion-limit chains (cached, uncached, mixed, through ItemSpaces): shorter than the limit evaluate,
     far beyond the limit fail with DeepReferenceError, every outcome leaves a retryable state; a failure at
     every depth of a deep chain
  X  deep chains in a sub-process (the interpreter must not crash)

Oracles: the independent evaluator of c05_gen (no modelx involved) predicts the outcome of every top-level
call, the failing chain, the elements completed before the failure and the correct value of every element.
"""
import itertools, random, subprocess, tempfile, os
from common import *          # mx, Result, reset, sanity, sysimpl, main
from c05_gen import *
from c05_par import run_parallel

SMALL = 20
DEFAULT_LIMIT = mx.get_recursion()

OBS_HELP = '''
def val(cells, key=()):
    d = held(cells)
    return ("held", d[key]) if key in d else None
def wf_violation():
    from modelx.core import mxsys as s
    ex = s.executor
    bad = []
    if len(s.callstack): bad.append("callstack not empty")
    if s.callstack.counter: bad.append("callstack.counter != 0")
    if len(s.callstack.idxstack): bad.append("idxstack not empty")
    if ex.is_executing: bad.append("is_executing left True")
    if len(s.refstack): bad.append("refstack not empty")
    return bad
def attr_refs(cells, key):
    """names of the references recorded as read (by attribute path) by this value"""
    return sorted(n.obj.fullname for n in cells._impl.get_attrpreds(key, {}))
def in_refgraph(model, obj, key):
    """is (obj, key) recorded as the reader of some reference?"""
    return model._impl.refgraph.has_node((obj._impl, key))
def graph_violation(model):
    """nodes of the dependency graph must be exactly the held values (library's own Cells.check_sanity rule)"""
    g = model._impl.tracegraph
    bad = []
    seen = {}
    for n in g.nodes:
        if len(n) == 2:
            seen.setdefault(id(n[0]), (n[0], set()))[1].add(n[1])
    for oid, (obj, keys) in seen.items():
        if hasattr(obj, "data"):
            extra = keys - set(obj.data)
            if extra:
                bad.append("graph node without value: %s%s" % (obj.get_fullname(), sorted(extra, key=repr)))
        elif hasattr(obj, "param_spaces"):
            extra = keys - set(obj.param_spaces)
            if extra:
                bad.append("graph node without ItemSpace: %s%s" % (obj.get_fullname(), sorted(extra, key=repr)))
    # ... and every held value of a cached cells is a node of the graph
    todo = list(model.spaces.values())
    while todo:
        sp = todo.pop()
        todo.extend(sp.spaces.values()); todo.extend(sp.itemspaces.values())
        for c in sp.cells.values():
            impl = c._impl
            lost = set(impl.data) - seen.get(id(impl), (None, set()))[1]
            if lost:
                bad.append("value without graph node: %s%s" % (c.fullname, sorted(lost, key=repr)))
    return bad
'''


def force_clean():
    """After a reported violation: do not let a corrupted executor leak into the next case."""
    s = sysimpl()
    if len(s.callstack) or s.callstack.counter or len(s.callstack.idxstack) or s.executor.is_executing \
            or len(s.refstack):
        s.callstack.clear(); s.callstack.idxstack.clear(); s.callstack.counter = 0
        s.refstack.clear(); s.executor.is_executing = False


def guarded(rec, stmt, fail):
    """An edit after a failed evaluation must not raise."""
    try:
        rec.do(stmt)
        return True
    except Exception as e:
        rec.lines.pop()
        fail("chk-edit-after-failure", "edit `%s` after a failed evaluation raised %s: %s"
             % (stmt[:80], type(e).__name__, str(e)[:200]),
             "try:\n    %s\nexcept Exception:\n    sys.exit(1)\nsys.exit(0)" % stmt)
        return False


def obs_expr(spec, j):
    nd = spec.nodes[j]
    if nd.kind == "Z":
        return "(lambda it: ('held', it.v) if it is not None else None)(Zsp%d.itemspaces.get(1))" % j
    if nd.kind == "I":
        return "(lambda it: val(it.cells['c%d']) if it is not None else None)(Itm.itemspaces.get(1))" % j
    sp = {"Main": "Main", "Oth": "Oth", "Kid": "Kid"}[nd.home]
    return "val(%s.cells['c%d'], %r)" % (sp, j, (1,) if nd.param else ())


def when_tag(nd, f=None):
    f = f or nd.fail
    if not nd.deps:
        return "fail-in-leaf"
    if f.when == 0:
        return "fail-before-calls"
    if f.when >= len(nd.deps):
        return "fail-after-calls"
    return "fail-between-calls"


class Runner:
    """One history on one generated model."""

    def __init__(self, res, spec, errmode="formula-error", small_limit=False, base_tags=(), hist_key=()):
        self.res, self.spec = res, spec
        self.errmode = errmode
        self.rec = Rec()
        self.rec.do(OBS_HELP)
        build(spec, self.rec)
        self.tags = set(base_tags)
        self.hist = [hist_key]
        self.failures_seen = 0
        self.seen_kinds = set()           # kinds of the failures evaluated so far in this history
        self.since_repair = False
        self.aborted = False
        if small_limit:
            self.set_limit(SMALL)
        if errmode == "original":
            self.rec.do("mx.use_formula_error(False)")
        elif errmode == "handled":
            self.rec.do("mx.handle_formula_error(True)")

    def set_limit(self, small):
        if small:
            self.rec.do("mx.set_recursion(%d)" % small)
            self.spec.limit_small = small
        else:
            self.rec.do("mx.set_recursion(%d)" % DEFAULT_LIMIT)
            self.spec.limit_small = None

    # ---------------------------------------------------------------- edits
    def edit(self, stmt):
        """An edit of the definitions: must succeed whatever failed before it."""
        try:
            self.rec.do(stmt)
        except Exception as e:
            if self.failures_seen:
                self.rec.lines.pop()
                self.fail("chk-edit-after-failure", "edit `%s` after a failed evaluation raised %s: %s"
                          % (stmt[:80], type(e).__name__, str(e)[:200]),
                          "try:\n    %s\nexcept Exception:\n    sys.exit(1)\nsys.exit(0)" % stmt.replace("\n", "\n    "),
                          {"seen-exc-" + k for k in self.seen_kinds})
            else:
                self.res.notes.append("precondition: edit %r raised %s with no failure in the history (other "
                                      "property) - case dropped" % (stmt[:80], type(e).__name__))
            self.aborted = True

    def set_formula(self, j):
        self.edit("%s.formula = %r" % (self.spec.def_expr(j), self.spec.render(j)[0]))

    def inject(self, j, fail, mode):
        sp = self.spec
        self.hist.append(("inject", j, fail.key(), mode))
        if fail.kind == "depth" and sp.limit_small is None:
            self.set_limit(SMALL)        # (an earlier repair raised the limit)
        if mode == "edit":
            sp.nodes[j].fail = fail
            self.set_formula(j)
        elif mode == "flag":
            assert sp.nodes[j].fail is not None and sp.nodes[j].fail.cond
            sp.flags[j] = 1
            self.edit("%s.f%d = 1" % (sp.nodes[j].home, j))
        self._sync_inputs()

    def repair(self, j, how):
        sp = self.spec
        self.hist.append(("repair", j, how))
        if how == "formula":
            sp.nodes[j].fail = None
            self.set_formula(j)
        elif how == "flag":
            sp.flags[j] = 0
            self.edit("%s.f%d = 0" % (sp.nodes[j].home, j))
        elif how == "input":
            v = 1000 + j
            nd = sp.nodes[j]
            tgt = {"Main": "Main", "Oth": "Oth", "Kid": "Kid"}[nd.home] + ".c%d" % j
            self.edit("%s[%s] = %d" % (tgt, "1" if nd.param else "()", v))
            sp.inputs[j] = v
        elif how == "limit":
            self.set_limit(None)
        self._sync_inputs()
        self.since_repair = True

    def _sync_inputs(self):
        sp = self.spec
        for j in list(sp.inputs):
            nd = sp.nodes[j]
            cells = self.rec.ns[{"Main": "Main", "Oth": "Oth", "Kid": "Kid"}[nd.home]].cells["c%d" % j]
            try:
                still = cells.is_input(*((1,) if nd.param else ()))
            except ValueError:          # no value at all any more
                still = False
            if not still:
                del sp.inputs[j]

    # ---------------------------------------------------------------- checks
    def fail(self, check, what, snippet, extra_tags=()):
        self.aborted = True         # the state is not trustworthy any more: finish this call's checks, then stop
        tags = set(self.tags) | {check} | set(extra_tags)
        tags.add("after-earlier-failure" if self.failures_seen else "first-failure")
        if self.since_repair:
            tags.add("after-repair")
        self.res.fail(tags=tuple(tags), what=what, script=self.rec.script(snippet),
                      case=(self.spec.key(), tuple(self.hist)))

    def fresh_ok(self, where):
        """Every held value equals the value the definitions give (independent evaluator)."""
        sp = self.spec
        if self.aborted and where == "after-edit":
            return False
        heldv, deep, itm = observe(sp, self.rec)
        ok = True
        for j, v in heldv.items():
            pv = pure_value(sp, j)
            # (the recursion limit is a session option, not a definition: a value computed while the limit was
            #  higher stays correct after it is lowered, and the other way round)
            if pv != ("ok", v) and pure_value(sp, j, limit=None) != ("ok", v):
                ok = False
                if where == "after-edit" and not self.failures_seen:
                    # no failure happened yet: not this property's business (note it, drop the case)
                    self.res.notes.append("precondition: held value of c%d not fresh after an edit with no failure "
                                          "in the history (other property) - case dropped: %r" % (j, self.hist[-1]))
                    self.aborted = True
                    return False
                self.fail("chk-fresh", "%s: element %s holds %r but the definitions give %r"
                          % (where, sp.label(j), v, pv),
                          "sys.exit(1 if %s == ('held', %r) else 0)" % (obs_expr(sp, j), v))
        return ok

    def ref_name(self, full):
        parts = full.split(".")
        if parts[-1] == "v" and len(parts) > 2:
            return parts[1] + ".v"
        return parts[-1]

    def allowed_refs(self, j, seen=None):
        """-> (must, may): names of references the value of element j has read by attribute path"""
        sp = self.spec
        nd = sp.nodes[j]
        must, may = set(), set()
        prog = sp.render(j)[1]
        if any(st["op"] == "K" for st in prog):
            must.add("k%d" % j)
        if nd.fail is not None and nd.fail.cond:
            must.add("f%d" % j)
        may |= must
        for dep in nd.deps:
            td = sp.nodes[dep.d]
            if td.kind == "Z":
                (may if dep.handled else must).add("Zsp%d.v" % dep.d)
                may.add("Zsp%d.v" % dep.d)
            elif not td.cached:
                m2, y2 = self.allowed_refs(dep.d)
                may |= y2            # (whether reads of an uncached callee count for the caller is C09's subject)
        return must, may

    def refs_check(self):
        sp, ns = self.spec, self.rec.ns
        heldv, _, _ = observe(sp, self.rec)
        for j in heldv:
            nd = sp.nodes[j]
            if nd.kind not in "SPLDOK" or j in sp.inputs:
                continue
            space = {"Main": "Main", "Oth": "Oth", "Kid": "Kid"}[nd.home]
            key = (1,) if nd.param else ()
            actual = {self.ref_name(x) for x in ns["attr_refs"](ns[space].cells["c%d" % j], key)}
            must, may = self.allowed_refs(j)
            handled = any(d.handled for d in nd.deps)
            foreign = actual - may
            missing = set() if handled else must - actual
            # direct predecessors (only where every dependency is a plain cached cells, and none is handled)
            if not handled and all(sp.nodes[d.d].kind in "SPLDOK" for d in nd.deps):
                want = {sp.label(d.d) for d in nd.deps}
                try:
                    got = {(n.obj.fullname, tuple(n.args)) for n in ns[space].cells["c%d" % j].preds(*key)
                           if type(n).__name__ == "ItemNode" and n.obj.name not in ("deep", "deepu")}
                except Exception as e:      # e.g. the held value is not a node of the dependency graph
                    got = "preds() raised %s" % type(e).__name__
                if got != want:
                    self.fail("chk-preds", "%s: recorded predecessors %r, its formula called %r"
                              % (sp.label(j), got if isinstance(got, str) else sorted(got), sorted(want)),
                              "try:\n    got = {(n.obj.fullname, tuple(n.args)) for n in %s.cells['c%d'].preds(*%r) "
                              "if n.obj.name not in ('deep', 'deepu')}\nexcept Exception:\n    got = None\n"
                              "sys.exit(1 if got != %r else 0)" % (space, j, key, want))
            if foreign or missing:
                self.fail("chk-refs", "%s: references recorded as read are %r; its formula read %r%s"
                          % (sp.label(j), sorted(actual), sorted(must),
                             " (may also count %r)" % sorted(may - must) if may - must else ""),
                          "got = {x.split('.')[-1] if not x.endswith('.v') else x.split('.')[1] + '.v' for x in "
                          "attr_refs(%s.cells['c%d'], %r)}\nsys.exit(1 if (got - %r or %r - got) else 0)"
                          % (space, j, key, may, set() if handled else must),
                          {"foreign-ref"} if foreign else {"missing-ref"})

    def state_checks(self):
        self.refs_check()
        bad = self.rec.ns["wf_violation"]()
        if bad:
            self.fail("chk-not-executing", "after the call: " + "; ".join(bad), "sys.exit(1 if wf_violation() else 0)")
        gb = self.rec.ns["graph_violation"](self.rec.ns["m"])
        if gb:
            self.fail("chk-graph", "after the call: " + "; ".join(gb[:3]), "sys.exit(1 if graph_violation(m) else 0)")

    def query(self, q, style="call"):
        """One top-level evaluation with all the checks of the statement."""
        res, sp, rec = self.res, self.spec, self.rec
        pre_held, pre_deep, itm = observe(sp, rec)
        sim = Sim(sp, pre_held, pre_deep, itm, sp.limit_small)
        exp = sim.top(q)
        pre_ref = set()
        if exp[0] == "err":
            for j in range(sp.n):
                oe = self.obj_expr(j) if sp.nodes[j].cached else None
                if oe and rec.ev("in_refgraph(m, %s, %r)" % (oe, sp.label(j)[1])):
                    pre_ref.add(j)      # (left there by an earlier edit: not this call's doing)
        self.hist.append(("call", q, style))
        nontrivial = exp[0] == "err" or self.failures_seen > 0
        key = (sp.key(), self.errmode, tuple(self.hist))
        with res.case(key, nontrivial=nontrivial):
            r = rec.call(sp.top_expr(q, style))
            if exp[0] == "ok":
                if r[0] != "ok":
                    self.fail("chk-retry-outcome",
                              "%s must evaluate to %r but raised %s: %s" % (sp.label(q), exp[1], type(r[1]).__name__,
                                                                          str(r[1])[:300]),
                              "sys.exit(1 if _r[0] == 'err' else 0)")
                elif r[1] != exp[1]:
                    self.fail("chk-value", "%s returned %r, the definitions give %r" % (sp.label(q), r[1], exp[1]),
                              "sys.exit(1 if _r != ('ok', %r) else 0)" % (exp[1],))
            else:
                e = exp[1]
                ftags = {"exc-" + e.kind, "pkind-" + sp.nodes[e.origin].kind}
                self.check_error(q, r, e, ftags)
                self.failures_seen += 1
                self.seen_kinds.add(e.kind)
                post_held, post_deep, _ = observe(sp, rec)
                cut = getattr(e, "open_ended", None)
                chain_nodes = e.chain if cut is None else e.chain[:cut]
                lab2j = {sp.label(j): j for j in range(sp.n)}
                for lab, _ln in chain_nodes:
                    j = lab2j.get(lab)
                    if j is not None and j in post_held and sp.nodes[j].cached:
                        self.fail("chk-chain-value",
                                  "%s was executing when %s escaped but now holds %r"
                                  % (lab, EXC_CLASS[e.kind], post_held[j]),
                                  "sys.exit(1 if %s is not None else 0)" % obs_expr(sp, j), ftags)
                    if j is not None and sp.nodes[j].cached and j not in pre_ref:
                        oe = self.obj_expr(j)
                        if oe and rec.ev("in_refgraph(m, %s, %r)" % (oe, sp.label(j)[1])):
                            self.fail("chk-graph", "%s failed but is still recorded as a reader of references" % (lab,),
                                      "sys.exit(1 if in_refgraph(m, %s, %r) else 0)" % (oe, sp.label(j)[1]), ftags)
                if cut is not None and post_deep != pre_deep:
                    self.fail("chk-chain-value", "recursion helper acquired values %r during a DeepReferenceError"
                              % sorted(post_deep - pre_deep), "sys.exit(1 if len(Main.deep) else 0)", ftags)
            # elements completed during the call keep correct values
            post_held, _, _ = observe(sp, rec)
            for j in sim.completed:
                if sp.nodes[j].cached and post_held.get(j, "<none>") != sim.held[j]:
                    self.fail("chk-completed", "%s completed with %r during the call but now holds %r"
                              % (sp.label(j), sim.held[j], post_held.get(j, "<none>")),
                              "sys.exit(1 if %s != ('held', %r) else 0)" % (obs_expr(sp, j), sim.held[j]),
                              {"call-failed"} if exp[0] == "err" else ())
            self.fresh_ok("after-call")
            self.state_checks()
        return exp, r

    def obj_expr(self, j):
        """expression of the element's object that does not evaluate anything (None if it does not exist)"""
        nd = self.spec.nodes[j]
        if nd.kind == "Z":
            return "Zsp%d" % j
        if nd.kind == "I":
            if self.rec.ev("Itm.itemspaces.get(1)") is None:
                return None
            return "Itm.itemspaces[1].cells['c%d']" % j
        return "%s.cells['c%d']" % ({"Main": "Main", "Oth": "Oth", "Kid": "Kid"}[nd.home], j)

    def check_error(self, q, r, e, ftags):
        sp = self.spec
        cls = EXC_CLASS[e.kind]
        err = mx.get_error()
        if cls is None:                      # whatever modelx raises for it
            cls = type(err).__name__ if isinstance(err, Exception) else "Exception"
        snippet_err = "sys.exit(1 if type(mx.get_error()).__name__ != %r else 0)" % cls
        if self.errmode == "handled":
            # (a failing top-level ItemSpace item has nothing to return: not asserted)
            if r != ("ok", None) and sp.nodes[q].kind != "Z":
                self.fail("chk-raises", "handle_formula_error(True): the call must print the error and return None, got %r"
                          % (r,), "sys.exit(1 if _r != ('ok', None) else 0)", ftags)
        elif r[0] != "err":
            self.fail("chk-raises", "%s must fail with %s but returned %r" % (sp.top_expr(q), cls, r[1]),
                      "sys.exit(1 if _r[0] == 'ok' else 0)", ftags)
            return
        elif self.errmode == "original":
            if r[1] is not err or type(r[1]).__name__ != cls:
                self.fail("chk-raises", "use_formula_error(False): raised %r, original is %s, get_error() is %r"
                          % (r[1], cls, err),
                          "sys.exit(1 if (_r[1] is not mx.get_error() or type(_r[1]).__name__ != %r) else 0)" % cls, ftags)
        else:
            if type(r[1]).__name__ != "FormulaError":
                self.fail("chk-raises", "raised %s (%s) instead of FormulaError carrying %s"
                          % (type(r[1]).__name__, str(r[1])[:200], cls),
                          "sys.exit(1 if type(_r[1]).__name__ != 'FormulaError' else 0)", ftags)
        if type(err).__name__ != cls:
            self.fail("chk-original", "get_error() is %r, the formula raised %s" % (err, cls), snippet_err, ftags)
        elif e.kind == "boom":
            raised = self.rec.ns["RAISED"]
            ond = sp.nodes[e.origin]
            via_helper = ond.lam or ond.fail.site in ("comp", "gen", "helper")
            if err.args != (e.origin,) or (via_helper and err is not raised[-1]):
                self.fail("chk-original", "get_error() is %r, not the exception object raised in %s"
                          % (err, sp.label(e.origin)),
                          "sys.exit(1 if mx.get_error().args != (%d,) else 0)" % e.origin, ftags)

    def final_probe(self, order, style="call"):
        """After the history: every space still accepts a new cells, and every element evaluates as defined."""
        if not self.failures_seen or self.aborted:
            return
        self.hist.append(("probe-edits",))
        for h in self.spec.homes():
            self.edit('%s.new_cells("probe", formula="lambda: 0")' % h)
            if self.aborted:
                return
        if not self.fresh_ok("after-edit"):
            return
        for q in order:
            self.query(q, style)
            if self.aborted:
                return
        self.end_of_step()

    def end_of_step(self):
        s = sanity()
        if s:
            self.fail("chk-sanity", "library self-check failed: " + s,
                      "from modelx.core import mxsys\ntry:\n    mxsys._check_sanity()\nexcept AssertionError:\n    sys.exit(1)\nsys.exit(0)")

    def close(self):
        mx.set_recursion(DEFAULT_LIMIT)
        force_clean()


# ====================================================================== part A: DAG x failure point x kind x history

def dags(n):
    pairs = [(i, j) for j in range(n) for i in range(j)]
    for mask in range(1 << len(pairs)):
        deps = [[] for _ in range(n)]
        for b, (i, j) in enumerate(pairs):
            if mask >> b & 1:
                deps[j].append(i)
        yield mask, deps


KIND_POOL = "SSSPPUVLDOKIZ"
STYLES = ["plain", "plain", "plain", "comp", "gen", "lam", "sub"]
SITES = {"zde": ["direct", "comp", "gen", "nested", "helper"], "boom": ["direct", "comp", "gen", "nested", "helper"],
         "none": ["direct"], "depth": ["direct"], "kbi": ["direct"], "stop": ["direct"], "badret": ["direct"],
         "badrefs": ["direct"]}
MAIN_KINDS = ["zde", "boom", "none", "depth"]


def legal_kind(kind, fkind, mode):
    """Node kind that can carry this failure (see module doc of c05_gen for the exclusions)."""
    if fkind == "none" and kind in "UV":       # an uncached cells may return None
        kind = "S"
    if fkind == "none" and kind == "Z" and mode == "flag":
        kind = "S"
    if mode == "flag" and kind in "UV":        # (flag reads by uncached cells are C09's subject)
        kind = "P"
    if kind == "L" and (fkind in ("kbi", "stop") or (fkind == "none" and mode == "flag")):
        kind = "S"
    return kind


def make_case(n, deps, p, fkind, rnd, extra_kinds=False):
    """Choose the non-exhaustive dimensions of a case with `rnd` (index-seeded in the exhaustive part)."""
    kinds = [rnd.choice(KIND_POOL) for _ in range(n)]
    mode = rnd.choice(["defn", "edit", "flag"])
    kinds[p] = legal_kind(kinds[p], fkind, mode)
    if kinds[p] == "Z" and fkind == "none":
        # what "returning a value that is not allowed" means for a space formula
        fkind = "badret" if rnd.random() < 0.6 else "badrefs"
    shape = rnd.choice(["FRF", "FRF", "FFR1", "FFR2", "FR", "FF", "F"])
    p2 = rnd.randrange(n)
    fkind2 = rnd.choice(MAIN_KINDS + (["kbi"] if extra_kinds else []))
    mode2 = rnd.choice(["edit", "flag"])
    if p2 == p:
        mode2 = "edit"
        kinds[p] = legal_kind(legal_kind(kinds[p], fkind2, mode2), fkind, mode)
    else:
        kinds[p2] = legal_kind(kinds[p2], fkind2, mode2)
    if kinds[p2] == "Z" and fkind2 == "none":
        if p2 == p:
            fkind2 = "zde"
        else:
            fkind2 = "badret"
    nodes = []
    for j in range(n):
        ds = list(deps[j])
        if rnd.random() < 0.3:
            ds.reverse()
        dl = []
        for d in ds:
            st = rnd.choice(STYLES)
            if st == "sub" and kinds[d] != "P":      # (uncached cells are plain functions inside formulas)
                st = "plain"
            dl.append(Dep(d, st))
        nodes.append(Node(j, kinds[j], dl))
    f1 = Fail(fkind, rnd.randrange(len(nodes[p].deps) + 1), rnd.choice(SITES[fkind]), cond=(mode == "flag"))
    f2 = Fail(fkind2, rnd.randrange(len(nodes[p2].deps) + 1), rnd.choice(SITES[fkind2]), cond=(mode2 == "flag"))
    allow = None
    space_allow, model_allow = {}, False
    if "none" in (fkind, fkind2):
        # a way of resolving allow_none to False at the failure point(s)
        cfg = rnd.choice(["default", "cells-False/space-True", "space-False/model-True", "cells-False/model-True"])
        allow = cfg
        if cfg == "cells-False/space-True":
            space_allow = {"Main": True, "Oth": True}
        elif cfg == "space-False/model-True":
            space_allow = {"Main": False, "Oth": False, "Itm": False}
            model_allow = True
        elif cfg == "cells-False/model-True":
            model_allow = True
        none_at = [j for j, fk in ((p, fkind), (p2, fkind2)) if fk == "none"]
        if any(nodes[j].kind not in "SPLOK" for j in none_at):
            # dynamic / derived cells: keep the default resolution
            space_allow, model_allow, allow = {}, False, "default"
        elif cfg.startswith("cells-False"):
            for j in none_at:
                nodes[j].allow = False
    return dict(nodes=nodes, p=p, f1=f1, mode=mode, shape=shape, p2=p2, f2=f2, mode2=mode2,
                order=rnd.choice(["up", "down"]), warm=rnd.random() < 0.5,
                errmode=rnd.choice(["formula-error"] * 4 + ["original", "handled"]),
                repair=rnd.choice(["formula", "formula", "native", "input"]),
                space_allow=space_allow, model_allow=model_allow, allow_cfg=allow,
                qstyle=rnd.choice(["call", "call", "sub"]), pad=rnd.random() < 0.3, lam_multi=rnd.random() < 0.5)


def run_case(res, c):
    nodes = c["nodes"]
    n = len(nodes)
    p, f1, mode, p2, f2, mode2 = c["p"], c["f1"], c["mode"], c["p2"], c["f2"], c["mode2"]
    shape = c["shape"]
    second = "F" in shape[1:]
    if not second:
        p2 = -1
    # definitions at build time
    if mode == "defn":
        nodes[p].fail = f1
    elif mode == "flag":
        nodes[p].fail = f1
    if second and mode2 == "flag" and p2 != p:
        nodes[p2].fail = f2
    elif second and mode2 == "flag":
        mode2 = "edit"
        f2 = Fail(f2.kind, f2.when, f2.site, cond=False)
    spec = Spec(nodes, space_allow=c["space_allow"], model_allow=c["model_allow"], pad=c["pad"],
                lam_multi=c["lam_multi"])
    small = "depth" in (f1.kind, f2.kind if second else None)
    base_tags = {"partA", "mode-" + mode, "err-" + c["errmode"], "order-" + c["order"]}
    hist_key = ("A", mode, shape, c["order"], c["warm"], c["errmode"], c["repair"], c["allow_cfg"], c["qstyle"])
    R = Runner(res, spec, c["errmode"], small_limit=small, base_tags=base_tags, hist_key=hist_key)
    try:
        order = list(range(n)) if c["order"] == "up" else list(range(n - 1, -1, -1))

        def queries():
            for q in order:
                R.query(q, c["qstyle"])
                if R.aborted:
                    return
            R.end_of_step()

        def how_for(j, f, m):
            how = c["repair"]
            if how == "native":
                how = {"flag": "flag"}.get(m, "limit" if f.kind == "depth" else "formula")
            if how == "input" and (spec.nodes[j].kind not in "SPLOK"):
                how = "formula"
            return how

        if c["warm"] and mode != "defn":
            queries()
        # step 1
        R.tags.add(when_tag(nodes[p], f1))
        if mode == "defn":
            R.hist.append(("inject", p, f1.key(), "defn"))
        else:
            R.inject(p, f1, mode)
        if not R.fresh_ok("after-edit"):
            return
        queries()
        if R.aborted:
            return
        plan = {"F": [], "FR": ["R1"], "FF": ["F2"], "FRF": ["R1", "F2"], "FFR1": ["F2", "R1"],
                "FFR2": ["F2", "R2"]}[shape]
        for st in plan:
            if st == "F2":
                R.inject(p2, f2, mode2)
                R.tags.add("second-" + f2.kind)
            else:
                tgt = (p, f1, mode) if st == "R1" else (p2, f2, mode2)
                how = how_for(*tgt)
                R.repair(tgt[0], how)
                R.tags.add("repair-" + how)
            if not R.fresh_ok("after-edit"):
                return
            queries()
            if R.aborted:
                return
        R.final_probe(order, c["qstyle"])
        res.sample({"model": [spec.render(j)[0] for j in range(n)], "history": [repr(h) for h in R.hist[:12]]}, cap=3)
    finally:
        R.close()


def case_a(res, item):
    idx, n, deps, p, fkind = item
    reset()
    rnd = random.Random(idx * 7919 + 13)
    run_case(res, make_case(n, deps, p, fkind, rnd))


def items_a(tier):
    nmax_exh = 4 if tier == "quick" else 5
    idx = 0
    for n in range(1, nmax_exh + 1):
        for mask, deps in dags(n):
            for p in range(n):
                for fkind in MAIN_KINDS:
                    idx += 1
                    if tier == "quick" and n == 4 and (idx % 2):
                        # quick tier: every DAG x p x kind on <= 3 cells, every second combination on 4
                        continue
                    yield (idx, n, deps, p, fkind)


def part_a(res, tier):
    if tier != "quick":
        return run_parallel(res, case_a, items_a(tier), chunk=32, reserve=0.12)
    for item in items_a(tier):
        if res.expired():
            return False
        case_a(res, item)
    return True


# ====================================================================== part H: failures that formulas handle

def case_h(res, item):
    idx, n, deps, p, fkind = item
    reset()
    rnd = random.Random(idx * 15485863 + 3)
    spec, small, errmode, ph = make_handled_spec(n, deps, p, fkind, rnd, escape=(idx % 3 == 0))
    R = Runner(res, spec, errmode, small_limit=small, base_tags={"partH", "err-" + errmode},
               hist_key=("H", idx))
    if ph is not None:
        R.tags.add("handled-failure-in-model")
    try:
        up = list(range(n))
        orders = [up[::-1], up] if idx % 2 else [up, up[::-1]]
        for order in orders:
            for q in order:
                R.query(q)
                if R.aborted:
                    return
            R.end_of_step()
        R.final_probe(up)
    finally:
        R.close()


def items_h(tier):
    idx = 0
    for n in range(2, 5):
        for mask, deps in dags(n):
            for p in range(n):
                for fkind in MAIN_KINDS:
                    for rep in range(4 if n <= 3 else 1):      # small DAGs: four draws of the other dimensions
                        idx += 1
                        if tier == "quick" and n == 4 and (idx % 4):
                            continue
                        yield (idx, n, deps, p, fkind)


def part_h(res, tier):
    if tier != "quick":
        return run_parallel(res, case_h, items_h(tier), chunk=32, reserve=0.12)
    for item in items_h(tier):
        if res.expired():
            return False
        case_h(res, item)
    return True


def case_s(res, item):
    n, deps, p, fkind, seed = item
    reset()
    run_case(res, make_case(n, deps, p, fkind, random.Random(seed), extra_kinds=True))


def part_a_sampled(res, tier):
    """Seeded sampling beyond the exhaustive bound: more elements, KeyboardInterrupt as a further kind.
    The sample is drawn up front from res.rng, so the same seed gives the same cases."""
    count = 60 if tier == "quick" else 4000
    items = []
    for _ in range(count):
        n = res.rng.choice([5, 6] if tier != "quick" else [4, 5])
        deps = [[i for i in range(j) if res.rng.random() < 0.45] for j in range(n)]
        items.append((n, deps, res.rng.randrange(n), res.rng.choice(MAIN_KINDS + ["kbi"]), res.rng.getrandbits(32)))
    if tier != "quick":
        return run_parallel(res, case_s, items, chunk=32, reserve=0.05)
    for it in items:
        if res.expired():
            return False
        case_s(res, it)
    return True


# ====================================================================== part N: allow_none matrix

def part_n(res, tier):
    homes = [("Main", "Main.b", ["Main"]), ("Kid", "Main.Kid.b", ["Kid", "Main"])]
    for home, bexpr, chain in homes:
        for lam in (False, True):
            for param in (False, True):
                if lam and param:
                    continue
                opts = [None, True, False]
                for cells_a in opts:
                    for sp_a in itertools.product(opts, repeat=len(chain)):
                        for model_a in (True, False):
                            if res.expired():
                                return False
                            reset()
                            run_n(res, home, bexpr, chain, lam, param, cells_a, sp_a, model_a)
                            force_clean()
    return True


def run_n(res, home, bexpr, chain, lam, param, cells_a, sp_a, model_a):
    rec = Rec()
    rec.do(OBS_HELP)
    rec.do('m = mx.new_model("M"); Main = m.new_space("Main"); Kid = Main.new_space("Kid")')
    arg = "(1)" if param else "()"
    key = (1,) if param else ()
    if lam:
        rec.do('%s.new_cells("b", formula="lambda: None")' % home)
    else:
        rec.do('%s.new_cells("b", formula=%r)' % (home, "def b(%s):\n    return None" % ("x" if param else "")))
    call_b = ("b" if home == "Main" else "Kid.b") + arg
    rec.do('Main.new_cells("a", formula=%r)' % ("def a():\n    return 1 if %s is None else 2" % call_b))
    rec.do("m.allow_none = %r" % model_a)
    for h, v in zip(chain, sp_a):
        rec.do("%s.allow_none = %r" % (h, v))
    rec.do("%s.allow_none = %r" % (bexpr, cells_a))
    allowed = next((v for v in (cells_a,) + tuple(sp_a) if v is not None), model_a)
    case_key = ("N", home, lam, param, cells_a, sp_a, model_a)
    tags = {"partN", "allow-none-resolution", "cells-%s" % cells_a, "model-%s" % model_a,
            "home-" + home, "lambda" if lam else "def"}

    def fail(check, what, snippet):
        res.fail(tags=tuple(tags | {check}), what=what, script=rec.script(snippet), case=case_key)

    with res.case(case_key, nontrivial=True):
        r = rec.call("Main.a()")
        hb = rec.ev("val(%s, %r)" % (bexpr, key))
        ha = rec.ev("val(Main.a)")
        if allowed:
            if r != ("ok", 1):
                fail("chk-none-allowed", "None is allowed here (first non-None allow_none setting is True) but a() gave %r"
                     % (r,), "sys.exit(1 if _r != ('ok', 1) else 0)")
            elif hb != ("held", None) or ha != ("held", 1):
                fail("chk-completed", "after the successful call b holds %r, a holds %r" % (hb, ha),
                     "sys.exit(1 if val(%s, %r) != ('held', None) else 0)" % (bexpr, key))
        else:
            if r[0] != "err" or type(r[1]).__name__ != "FormulaError" or \
                    type(mx.get_error()).__name__ != "NoneReturnedError":
                fail("chk-raises", "None is not allowed here but a() gave %r / get_error() %r" % (r, mx.get_error()),
                     "sys.exit(1 if (_r[0] != 'err' or type(mx.get_error()).__name__ != 'NoneReturnedError') else 0)")
            if hb is not None or ha is not None:
                fail("chk-chain-value", "after NoneReturnedError b holds %r, a holds %r" % (hb, ha),
                     "sys.exit(1 if (val(%s, %r) is not None or val(Main.a) is not None) else 0)" % (bexpr, key))
            bad = rec.ns["wf_violation"]() + rec.ns["graph_violation"](rec.ns["m"])
            if bad:
                fail("chk-not-executing", "; ".join(bad), "sys.exit(1 if wf_violation() + graph_violation(m) else 0)")
            # repair by allowing None at the level that decided, then retry
            if cells_a is False:
                stmt = "%s.allow_none = True" % bexpr
            else:
                lvl = next((h for h, v in zip(chain, sp_a) if v is not None), None)
                stmt = "%s.allow_none = True" % (lvl if lvl else "m")
            if not guarded(rec, stmt, fail):
                return
            r2 = rec.call("Main.a()")
            if r2 != ("ok", 1):
                fail("chk-retry-outcome", "after allowing None the retry gave %r" % (r2,),
                     "sys.exit(1 if _r != ('ok', 1) else 0)")


# ====================================================================== part R: recursion-limit chains

CHAINS = {
    # name -> (definitions, top-level expression of the chain with L elements, value, observation)
    "cached": ['Main.new_cells("f", formula="def f(x):\\n    return f(x - 1) + 1 if x > 0 else _space.z")'],
    "uncached": ['Main.new_cells("f", formula="def f(x):\\n    return f(x - 1) + 1 if x > 0 else _space.z")',
                 "Main.f.is_cached = False"],
    "mixed": ['Main.new_cells("f", formula="def f(x):\\n    return g(x - 1) + 1 if x > 0 else _space.z")',
              'Main.new_cells("g", formula="def g(x):\\n    return f(x - 1) + 1 if x > 0 else _space.z")',
              "Main.g.is_cached = False"],
    "itemspace": ['R = m.new_space("R", formula="lambda i: None")', "R.Main = Main", "R.z = 0", "Main.R = R",
                  'R.new_cells("h", formula="def h():\\n    return Main.R[i - 1].h() + 1 if i > 0 else _space.z")', 'Main.new_cells("f", formula="def f(x):\\n    return R[x].h()")'],
    "lambda": ['Main.new_cells("f", formula="lambda x: f(x - 1) + 1 if x > 0 else _space.z")'],
    # every level completes a side element g(x) before it descends
    "comb": ['Main.new_cells("g", formula="def g(x):\\n    return _space.one")', "Main.one = 1",
             'Main.new_cells("f", formula="def f(x):\\n    return g(x) + f(x - 1) if x > 0 else _space.z")'],
}


def chain_setup(rec, kind):
    rec.do(OBS_HELP)
    rec.do('m = mx.new_model("M"); Main = m.new_space("Main"); Main.z = 0')
    for s in CHAINS[kind]:
        rec.do(s)


def chain_held(rec, kind):
    ns = rec.ns
    n = len(ns["held"](ns["Main"].cells["f"]))
    if kind == "comb":
        return n
    if kind == "mixed":
        n += len(ns["held"](ns["Main"].cells["g"]))
    if kind == "itemspace":
        n += sum(len(ns["held"](it.cells["h"])) for it in ns["R"].itemspaces.values())
    return n


def part_r(res, tier):
    limits = [5, SMALL] if tier == "quick" else [3, 5, SMALL, 50]
    for kind in CHAINS:
        for M in limits:
            # number of elements on the chain of the top-level call f(x)
            extra = 1 if kind == "itemspace" else 0      # Main.f itself sits on the chain too
            for L in list(range(1, M)) + [M, M + 1, M + 2, 2 * M, 2 * M + 1, 3 * M]:
                for fail_at_bottom in (False, True):
                    if res.expired():
                        return False
                    reset()
                    try:
                        run_chain(res, kind, M, L, extra, fail_at_bottom)
                    finally:
                        mx.set_recursion(DEFAULT_LIMIT)
                        force_clean()
    return True


def run_chain(res, kind, M, L, extra, fail_at_bottom):
    """Chain of L elements under limit M.  fail_at_bottom: the innermost element raises ZeroDivisionError
    (z = 0 -> `1 // z`), i.e. a failure at depth L of the chain."""
    rec = Rec()
    chain_setup(rec, kind)
    x = L - 1 - extra
    if x < 0:
        return
    if fail_at_bottom:
        if kind == "itemspace":
            rec.do('R.h.formula = "def h():\\n    return Main.R[i - 1].h() + 1 if i > 0 else 1 // _space.z"')
        else:
            for c in ("f", "g") if kind == "mixed" else ("f",):
                other = {"f": "g", "g": "f"}[c] if kind == "mixed" else "f"
                if kind == "lambda":
                    rec.do('Main.f.formula = "lambda x: f(x - 1) + 1 if x > 0 else 1 // _space.z"')
                elif kind == "comb":
                    rec.do('Main.f.formula = "def f(x):\\n    return g(x) + f(x - 1) if x > 0 else 1 // _space.z"')
                else:
                    rec.do('Main.%s.formula = "def %s(x):\\n    return %s(x - 1) + 1 if x > 0 else 1 // _space.z"'
                           % (c, c, other))
    rec.do("mx.set_recursion(%d)" % M)
    case_key = ("R", kind, M, L, fail_at_bottom)
    tags = {"partR", "chain-" + kind, "bottom-raises" if fail_at_bottom else "bottom-ok"}
    zone = "shorter-than-limit" if L < M else ("far-beyond-limit" if L >= 2 * M else "at-limit")
    tags.add(zone)

    def fail(check, what, snippet):
        res.fail(tags=tuple(tags | {check}), what=what, script=rec.script(snippet), case=case_key)

    with res.case(case_key, nontrivial=(fail_at_bottom or L >= M)):
        top = "Main.f(%d)" % x
        r = rec.call(top)
        err = mx.get_error() if r[0] == "err" else None
        en = type(err).__name__ if err is not None else None
        failed = r[0] == "err"
        if zone == "shorter-than-limit":
            if fail_at_bottom:
                if not failed or en != "ZeroDivisionError":
                    fail("chk-raises", "chain of %d < limit %d whose innermost element divides by zero gave %r / %r"
                         % (L, M, r, err), "sys.exit(1 if type(mx.get_error()).__name__ != 'ZeroDivisionError' else 0)")
            elif r != ("ok", x):
                fail("chk-short-chain", "chain of %d elements under limit %d must evaluate, gave %r / %r"
                     % (L, M, r, err), "sys.exit(1 if _r[0] == 'err' else 0)")
        elif zone == "far-beyond-limit":
            if not failed or en != "DeepReferenceError":
                fail("chk-limit-enforced", "chain of %d elements under limit %d gave %r / %r instead of "
                     "DeepReferenceError" % (L, M, r, err),
                     "sys.exit(1 if type(mx.get_error()).__name__ != 'DeepReferenceError' else 0)")
        else:
            if failed and en not in ("DeepReferenceError", "ZeroDivisionError"):
                fail("chk-raises", "chain of %d elements under limit %d failed with %r" % (L, M, err),
                     "sys.exit(1 if type(mx.get_error()).__name__ not in ('DeepReferenceError','ZeroDivisionError') else 0)")
        if failed and type(r[1]).__name__ != "FormulaError":
            fail("chk-raises", "raised %s instead of FormulaError" % type(r[1]).__name__,
                 "sys.exit(1 if type(_r[1]).__name__ != 'FormulaError' else 0)")
        if kind == "comb":
            # side elements completed before the failure keep correct values; none is lost, none is wrong
            gv = rec.ev("held(Main.g)")
            wrong = {k: v for k, v in gv.items() if v != 1}
            if wrong or (failed and zone == "shorter-than-limit" and len(gv) != x):
                fail("chk-completed", "side elements completed before the failure: %d hold values (%d completed), "
                     "wrong: %r" % (len(gv), x, wrong),
                     "g = held(Main.g)\nsys.exit(1 if (len(g) != %d or any(v != 1 for v in g.values())) else 0)" % x)
        if failed:
            nh = chain_held(rec, kind)
            # a linear chain: every element was executing, none may hold a value
            if nh:
                fail("chk-chain-value", "%d elements of the failed chain hold values" % nh,
                     "sys.exit(1 if (len(Main.f) %s) else 0)"
                     % ("or any(len(it.h) for it in R.itemspaces.values())" if kind == "itemspace" else ""))
        bad = rec.ns["wf_violation"]() + rec.ns["graph_violation"](rec.ns["m"])
        if bad:
            fail("chk-not-executing", "; ".join(bad[:3]), "sys.exit(1 if wf_violation() + graph_violation(m) else 0)")
        # retry after the repair: raise the limit (and repair the bottom), the whole chain evaluates
        if failed:
            rec.do("mx.set_recursion(%d)" % DEFAULT_LIMIT)
            if fail_at_bottom:
                if not guarded(rec, "%s.z = 1" % ("R" if kind == "itemspace" else "Main"), fail):
                    return
            want = x + (1 if fail_at_bottom else 0)
            r2 = rec.call(top)
            if r2 != ("ok", want):
                fail("chk-retry-outcome", "retry after repair gave %r, expected %r" % (r2, want),
                     "sys.exit(1 if _r != ('ok', %r) else 0)" % want)
            # a second, shorter chain under the small limit again: cached values are reused
            rec.do("mx.set_recursion(%d)" % M)
            r3 = rec.call("Main.f(%d)" % max(x - 1, 0))
            if kind in ("cached", "lambda", "itemspace", "comb") and r3 != ("ok", max(x - 1, 0) + (1 if fail_at_bottom else 0)):
                fail("chk-retry-outcome", "held values not reused after the retry: %r" % (r3,),
                     "sys.exit(1 if _r[0] == 'err' else 0)")
            bad = rec.ns["wf_violation"]() + rec.ns["graph_violation"](rec.ns["m"])
            if bad:
                fail("chk-not-executing", "after retry: " + "; ".join(bad[:3]),
                     "sys.exit(1 if wf_violation() + graph_violation(m) else 0)")


# ====================================================================== part X: deep chains must not crash the interpreter

DEEP_PROBE = PRELUDE + '''
kind, depth = sys.argv[1], int(sys.argv[2])
m = mx.new_model("M"); Main = m.new_space("Main")
Main.new_cells("f", formula="def f(x):\\n    return f(x - 1) + 1 if x > 0 else 0")
if kind == "uncached":
    Main.f.is_cached = False
mx.set_recursion(depth + 10)
r = call(lambda: Main.f(depth - 1))
if r != ("ok", depth - 1):
    print("RESULT", repr(r)[:300]); sys.exit(1)
# beyond the limit: a clean DeepReferenceError, then a retry
mx.set_recursion(depth // 2)
Main.f.clear_all()
r = call(lambda: Main.f(depth - 1))
if not (r[0] == "err" and isinstance(mx.get_error(), DeepReferenceError)):
    print("RESULT", repr(r)[:300]); sys.exit(1)
if len(Main.f):
    print("RESULT values left", len(Main.f)); sys.exit(1)
mx.set_recursion(depth + 10)
r = call(lambda: Main.f(depth - 1))
sys.exit(0 if r == ("ok", depth - 1) else 1)
'''


def part_x(res, tier):
    depths = [1000] if tier == "quick" else [1000, 10000, 60000]
    d = tempfile.mkdtemp()
    try:
        path = os.path.join(d, "probe.py")
        with open(path, "w") as f:
            f.write(DEEP_PROBE)
        for kind in ("cached", "uncached"):
            for depth in depths:
                if res.expired():
                    return False
                key = ("X", kind, depth)
                with res.case(key, nontrivial=True):
                    p = subprocess.run([sys.executable, path, kind, str(depth)], stdout=subprocess.PIPE,
                                       stderr=subprocess.STDOUT, text=True, timeout=600,
                                       env=dict(os.environ, PYTHONDONTWRITEBYTECODE="1"))
                    if p.returncode != 0:
                        crashed = p.returncode < 0 or p.returncode > 2
                        res.fail(tags=("partX", "deep-chain", "chain-" + kind,
                                       "interpreter-crash" if crashed else "chk-short-chain"),
                                 what="chain of %d elements below the limit %d: exit %s, %s"
                                      % (depth, depth + 10, p.returncode, p.stdout[-300:]),
                                 script=DEEP_PROBE.replace("kind, depth = sys.argv[1], int(sys.argv[2])",
                                                           "kind, depth = %r, %d" % (kind, depth)), case=key)
    finally:
        import shutil
        shutil.rmtree(d, ignore_errors=True)
    return True


# ======================================================================

def run(res, tier, seed):
    res.bound = ("A: every DAG on <= %d cells x every failure point x {ZeroDivisionError, custom BaseException, "
                 "None return, recursion limit (set_recursion(20))} with a history of <= 3 failure/repair edits "
                 "(+ seeded samples on %s cells, also KeyboardInterrupt); N: allow_none matrix "
                 "{None,True,False}^(cells, space[, parent space]) x model {True,False}; R: chains of 1..3M elements "
                 "under limits M in %s for 5 chain kinds x innermost element ok/raising; X: sub-process chains of "
                 "depth %s") % ((4, "4-5", "{5,20}", "1000") if tier == "quick" else (5, "5-6", "{3,5,20,50}",
                                                                                        "1000/10000/60000/99000"))
    res.rule = ("A is the exhaustive product DAG x failure point x exception kind (quick: every second combination "
                "at 4 cells); element kinds (scalar/parametrised/uncached/lambda/derived/other space/child space/"
                "ItemSpace cells/ItemSpace node), call styles, raise site, position of the failure among the calls, "
                "injection mode (definition/formula edit/reference flag), history shape, repair method "
                "(formula/flag/input/limit), second failure, query order, error mode are drawn by an index-seeded "
                "generator; every element is evaluated top-level after every edit.  One evaluation = one top-level "
                "call with all checks; non-trivial = the call fails or follows a failure in the same history; "
                "distinct = distinct (model, history, call).")
    ok = True
    if tier == "quick":
        ok &= part_n(res, tier)
        ok &= part_r(res, tier)
        ok &= part_x(res, tier)
        ok &= part_h(res, tier)
        ok &= part_a(res, tier)
        part_a_sampled(res, tier)
    else:
        ok &= part_n(res, tier)
        ok &= part_r(res, tier)
        ok &= part_x(res, tier)
        ok &= part_h(res, tier)
        ok &= part_a(res, tier)
        part_a_sampled(res, tier)
    res.exhaustive = bool(ok)
    res.notes.append("not decided here: 'without crashing the interpreter' beyond the probed depths; formulas that "
                     "assign their own value before raising (A-PURE) are not generated")


if __name__ == "__main__":
    main("C05", run)
