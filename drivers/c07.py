"""C07 - ItemSpaces are parametrised, isolated, identity-stable instances of their base (bounded stand-in).

Oracle (from the statement only):
  * an instance `S[args]` has the cells names / child space names of its base and every cells evaluates as in a
    *static copy* of the base: a model rebuilt from the current definitions in which the parameters (bound by
    CPython's own `inspect.signature(...).bind`) and the refs returned by the formula are literal refs;
  * every spelling of the arguments that binds equally yields the identical object, different bindings yield
    different objects whose values (incl. inputs assigned into one instance) do not influence each other;
  * after any edit of the definitions an old handle (instance, child space, cells) either raises
    DeletedObjectError or serves exactly the values of the current definitions, and once the instance is
    obtained again the old handle raises or *is* the re-obtained object;
  * "child spaces replicated": every space replicated inside an instance has the `parameters` of the space it
    replicates in the static copy (an old space handle that is alive too), and when that space is parametrised,
    indexing the replica gives an instance that is compared with the static copy in the same way (so do the
    sibling cells that index it, e.g. `C[2].h(1)`, which must stay inside the instance).

Part F explores the histories in which a space WITHOUT parameter formula gets its first one (`s.formula = ...`,
`s.set_formula(...)`, `s.parameters = ...`) while live instances contain a dynamic copy of it: as child /
grandchild of a parametrised space, below a parametrised child, or chosen through 'base' / 'bases'.
"""
import inspect
from common import *
from c07_spec import *
from modelx.core.errors import DeletedObjectError

# ------------------------------------------------------------------------------------------ templates


def T_inherit():
    sp = Spec(refs={"g": lit(100)}, spaces={
        "B1": S_(cells={"foo": C_("lambda x: x + i")}),
        "B2": S_(cells={"foo": C_("lambda x: 2*x + i"), "bar": C_("lambda x: foo(x) + 100")}),
        "B3": S_(cells={"foo": C_("lambda x: 3*x + i"), "baz": C_("lambda: i + 30")}),
        "S": S_(bases=[("B1",), ("B2",)], formula={"params": "i, j=2"},
                cells={"own": C_("lambda x: foo(x) + bar(x) + g + j")},
                spaces={"C": S_(cells={"h": C_("lambda y: i + y + _space.parent.own(y)")})}),
    })
    insts = [(("S",), (("item", (1,)),)), (("S",), (("item", (2, 5)),))]
    return "inherit", sp, insts, {"spare_bases": {("S",): [("B3",)]}}


def T_nested():
    sp = Spec(refs={"g": lit(100)}, spaces={
        "S": S_(formula={"params": "i"},
                cells={"p": C_("lambda: i*10 + g"),
                       "f": C_("lambda x: p() if x <= 0 else f(x-1) + r")},
                refs={"r": lit(1)},
                spaces={"C": S_(formula={"params": "k"},
                                cells={"h": C_("lambda y: i*100 + k*10 + y + cr")},
                                refs={"cr": lit(7)},
                                spaces={"D": S_(cells={"d": C_("lambda: i + 1")})})}),
    })
    insts = [(("S",), (("item", (1,)),)),
             (("S",), (("item", (1,)), ("child", "C"), ("item", (2,)))),
             (("S",), (("item", (2,)), ("item", (3,)))),
             (("S", "C"), (("item", (4,)),))]
    return "nested", sp, insts, {"hist_insts": insts[:3]}


def T_otherbase():
    sp = Spec(refs={"g": lit(100)}, spaces={
        "O": S_(cells={"q": C_("lambda x: x + i + k"), "q2": C_("lambda: q(1) + orf")}, refs={"orf": lit(4)},
                spaces={"OC": S_(cells={"oc": C_("lambda: i*2 + g")})}),
        "S": S_(formula={"params": "i", "base": ("O",), "refs": {"k": "i*10"}},
                cells={"own": C_("lambda: 1")}),
    })
    insts = [(("S",), (("item", (1,)),)), (("S",), (("item", (3,)),))]
    return "otherbase", sp, insts, {}


def T_readscells():
    sp = Spec(spaces={
        "S": S_(formula={"params": "i", "refs": {"k": "sel(i)"}},
                cells={"sel": C_("lambda x: x*7 + w"), "p": C_("lambda: k + i")},
                refs={"w": lit(1)}),
    })
    insts = [(("S",), (("item", (1,)),)), (("S",), (("item", (2,)),))]
    return "readscells", sp, insts, {}


def T_objrefs():
    sp = Spec(spaces={
        "O": S_(cells={"q": C_("lambda x: x*2 + 1")}),
        "P": S_(cells={"q": C_("lambda x: x*3 + 1")}),
        "S": S_(formula={"params": "i"},
                cells={"p": C_("lambda: i + 5"), "t": C_("lambda x: oq(x) + sp() + i")},
                refs={"oq": obj(("O", "q")), "sp": obj(("S", "p"))}),
    })
    insts = [(("S",), (("item", (1,)),))]
    return "objrefs", sp, insts, {"ref_alternatives": {(("S",), "oq"): obj(("P", "q"))}}


def T_shadow():
    sp = Spec(refs={"g": lit(100), "r": lit(50)}, spaces={
        "S": S_(formula={"params": "i, r=9", "refs": {"g": "i*2"}},
                cells={"p": C_("lambda: r + i + g"), "u": C_("lambda x: p() + x", is_cached=False)},
                refs={"r": lit(5)},
                spaces={"C": S_(cells={"h": C_("lambda: r + i + g")})}),
    })
    insts = [(("S",), (("item", (1,)),)), (("S",), (("item", (1, 4)),)), (("S",), (("item", (2,)),))]
    return "shadow", sp, insts, {}


def T_defaults():
    sp = Spec(spaces={
        "BD": S_(cells={"dd": C_("lambda: rd + i"), "p": C_("lambda: -1")}, refs={"rd": lit(3)}),
        "BE": S_(cells={"dd": C_("lambda: re + i + 50")}, refs={"re": lit(4)}),
        "S": S_(bases=[("BD",), ("BE",)], formula={"params": "i=1, j=2"},
                cells={"p": C_("lambda: i*10 + j"), "f": C_("lambda x: p() if x <= 0 else f(x-1) + 1")},
                spaces={"C": S_(cells={"h": C_("lambda y: i + j + y")})}),
    })
    insts = [(("S",), (("item", ()),)), (("S",), (("item", (3,)),)), (("S",), (("item", (1, 2)), ("item", (5,))))]
    return "defaults", sp, insts, {}


def T_baseskey():
    """the other spelling of the base choice ('bases': [space]) - construction part only"""
    sp = Spec(spaces={
        "O": S_(cells={"q": C_("lambda x: x + i + k")}, spaces={"OC": S_(cells={"oc": C_("lambda: i*2")})}),
        "S": S_(formula={"params": "i, j=1", "base": ("O",), "base_key": "bases", "refs": {"k": "i*10 + j"}},
                cells={"own": C_("lambda: 1")}),
    })
    insts = [(("S",), (("item", (1,)),)), (("S",), (("item", (1, 3)),))]
    return "baseskey", sp, insts, {}


# templates of part F: live instances contain dynamic copies of PLAIN spaces (no parameter formula) that the
# history parametrises; "latent" sibling cells index the copy (`C[2]`, `C.D[3]`, `OC[2]`) and so raise - in the
# instance as in the static copy - until the space has parameters, and must then stay inside the instance


def F_child():
    """plain child C and grandchild C.D of a parametrised space"""
    sp = Spec(refs={"g": lit(100)}, spaces={
        "S": S_(formula={"params": "i"},
                cells={"own": C_("lambda x: C.h(x) + i"),
                       "tot": C_("lambda: C[2].h(1) + C[2].D.d()"),
                       "tot2": C_("lambda: C.D[3].d() + g")},
                spaces={"C": S_(cells={"h": C_("lambda y: i*10 + y + cr")},
                                refs={"cr": lit(7)},
                                spaces={"D": S_(cells={"d": C_("lambda: i + 1")})})}),
    })
    insts = [(("S",), (("item", (1,)),)), (("S",), (("item", (2,)),))]
    return "f-child", sp, insts, {}


def F_deep():
    """plain D and D.E below a parametrised child C(k) of a parametrised space: copies in S[1].C[2], S[1], S.C[4]"""
    sp = Spec(spaces={
        "S": S_(formula={"params": "i"},
                cells={"p": C_("lambda: i*10")},
                spaces={"C": S_(formula={"params": "k"},
                                cells={"h": C_("lambda y: i*100 + k*10 + y"),
                                       "up": C_("lambda: D.d() + D.E.e()"),
                                       "lat": C_("lambda: D[5].d() + D[5].E.e()"),
                                       "lat2": C_("lambda: D.E[6].e()")},
                                spaces={"D": S_(cells={"d": C_("lambda: i + 1")},
                                                spaces={"E": S_(cells={"e": C_("lambda: i + 2")})})})}),
    })
    insts = [(("S",), (("item", (1,)), ("child", "C"), ("item", (2,)))),
             (("S",), (("item", (1,)),)),
             (("S", "C"), (("item", (4,)),))]
    return "f-deep", sp, insts, {}


def _F_base(kind, base_key, base=("O",)):
    # the ref `k` returned by the formula is read where it is bound: in the chosen base only
    kq, koc = (" + k", "") if tuple(base) == ("O",) else ("", " + k")
    sp = Spec(refs={"g": lit(100)}, spaces={
        "O": S_(cells={"q": C_("lambda x: x + orf" + kq), "lat": C_("lambda: OC[2].oc(1)")}, refs={"orf": lit(4)},
                spaces={"OC": S_(cells={"oc": C_("lambda y: i*2 + y" + koc), "lat": C_("lambda: OD[3].od()")},
                                 spaces={"OD": S_(cells={"od": C_("lambda: i + g")})})}),
        "S": S_(formula={"params": "i", "base": tuple(base), "base_key": base_key, "refs": {"k": "i*10"}},
                cells={"own": C_("lambda: 1")}),
    })
    insts = [(("S",), (("item", (1,)),)), (("S",), (("item", (3,)),))]
    return kind, sp, insts, {}


def F_basekey():
    """plain O (and O.OC, O.OC.OD) chosen by `{'base': O}`"""
    return _F_base("f-basekey", None)


def F_baseskey():
    """the same chosen by `{'bases': [O]}`"""
    return _F_base("f-baseskey", "bases")


def F_basechild():
    """a plain child space O.OC chosen by `{'base': O.OC}`"""
    return _F_base("f-basechild", None, ("O", "OC"))


TEMPLATES = [T_inherit, T_nested, T_otherbase, T_readscells, T_objrefs, T_shadow, T_defaults]
PART_A_ONLY = [T_baseskey]
F_TEMPLATES = [F_child, F_deep, F_basekey, F_baseskey, F_basechild]

# ------------------------------------------------------------------------------------------ oracle


class NoInstance(Exception):
    """according to the definitions the instance cannot be created"""


def static_copy(spec, inst):
    """(static spec, target path): the base of the instance with the bindings as literal refs"""
    start, steps = inst
    if not spec.has_space(start):
        raise NoInstance("no space %r" % (start,))
    cur = tuple(start)
    bindings, rootrefs = {}, {}
    dynamic = False
    for st in steps:
        if st[0] == "item":
            f = spec.space(cur)["formula"]
            if f is None:
                raise NoInstance("no formula")
            try:
                b = bind(f["params"], st[1], st[2] if len(st) > 2 else None)
            except TypeError:
                raise NoInstance("arguments do not bind")
            env = dict(bindings)
            env.update(b)
            rr = {}
            if f.get("refs"):
                for n, e in f["refs"].items():
                    names = set(compile(e, "<e>", "eval").co_names)
                    if names - set(env):
                        rr[n] = ("deferred", e, cur, dict(env), dynamic)
                    else:
                        rr[n] = eval(e, {}, dict(env))
            if f.get("base") is not None:
                if not spec.has_space(f["base"]):
                    raise NoInstance("base gone")
                cur = tuple(f["base"])
            bindings, rootrefs, dynamic = env, rr, True
        else:
            if st[1] not in spec.space(cur)["spaces"]:
                raise NoInstance("no child")
            cur = cur + (st[1],)
            rootrefs = {}
    out = spec.copy()
    # deferred refs: the formula reads names of its own (static) space: evaluate them on a model rebuilt
    # from the definitions
    for n, v in list(rootrefs.items()):
        if isinstance(v, tuple) and v and v[0] == "deferred":
            _, e, at, env, dyn = v
            if dyn:
                raise AssertionError("deferred refs are supported for static parents only")
            r0 = build(spec, "R0")
            try:
                ns = _NS(get(r0, at), env)
                try:
                    rootrefs[n] = eval(e, {}, ns)
                except Exception:
                    raise NoInstance("formula raises")
            finally:
                r0.close()
    tgt = out.space(cur)
    for p, ss in out.walk():
        if p[:len(cur)] == cur:
            for n, v in bindings.items():
                ss["refs"][n] = lit(v)
    for n, v in rootrefs.items():
        if n not in bindings:
            tgt["refs"][n] = lit(v)
    return out, cur


class _NS(dict):
    def __init__(self, space, env):
        super().__init__(env)
        self._s = space

    def __missing__(self, k):
        return getattr(self._s, k)


_EXP = {}


def live_flat(m, spec):
    """the definitions as the live model publishes them, inheritance flattened: every static space with all
    its cells (defined or derived: source, flags) and refs (value / target path), no bases, no inputs.
    Parameter formulas (structured) are taken from `spec`."""
    def refval(impl):
        v = impl.interface
        if is_iface(v):
            return obj(tuple(rel(v.fullname).split(".")) if v._is_valid() else ("<deleted>",),
                       "auto")
        return lit(v)

    def rec(s, path):
        ss = S_(formula=spec.space(path)["formula"] if spec.has_space(path) else None)
        for n, c in s.cells.items():
            ss["cells"][n] = C_(c.formula.source, c.allow_none, c.is_cached)
        for n in s._own_refs:
            ss["refs"][n] = refval(s._impl.own_refs[n])
        for n, ch in s.named_spaces.items():
            ss["spaces"][n] = rec(ch, path + (n,))
        return ss
    out = Spec()
    for n in m._impl.global_refs:
        if n != "__builtins__":
            out.refs[n] = refval(m._impl.global_refs[n])
    for n, sp in m.spaces.items():
        out.spaces[n] = rec(sp, (n,))
    return out


def spec_flat(spec):
    """the same flattening computed from the definitions alone (CPython C3)"""
    out = Spec(refs=dict(spec.refs))

    def rec(path, ss):
        o = S_(formula=ss["formula"])
        for n, (_, c) in spec.all_cells(path).items():
            o["cells"][n] = C_(c["src"], c["allow_none"], c["is_cached"])
        for n, (_, r) in spec.all_refs(path).items():
            o["refs"][n] = (r[0], r[1], "auto")
        for n, ch in ss["spaces"].items():
            o["spaces"][n] = rec(path + (n,), ch)
        return o
    for n, ss in spec.spaces.items():
        out.spaces[n] = rec((n,), ss)
    return out


def _srcs(flat):
    return {p: {n: c["src"] for n, c in ss["cells"].items()} for p, ss in flat.walk()}


def expected(spec, inst):
    """('exc',) or ('ok', cells-names tree, values) of the instance according to the (flat) definitions"""
    try:
        st, tgt = static_copy(spec, inst)
    except NoInstance:
        return ("exc",)
    key = (repr(st.refs), repr(st.spaces), tgt)
    if key not in _EXP:
        r = build(st, "R")
        try:
            _EXP[key] = ("ok", names_tree(get(r, tgt)), eval_space(get(r, tgt)))
        finally:
            r.close()
    return _EXP[key]


def names_tree(s):
    """member names and `parameters` of a (static or dynamic) space and of its replicated child spaces"""
    return {"cells": sorted(s.cells), "params": s.parameters,
            "spaces": {n: names_tree(s.named_spaces[n]) for n in sorted(s.named_spaces)}}


def names_only(t):
    return {"cells": t["cells"], "spaces": {n: names_only(c) for n, c in t["spaces"].items()}}


def params_at(t, rp):
    """(found, parameters) of the space at relative path rp of a names tree"""
    for n in rp:
        if n not in t["spaces"]:
            return False, None
        t = t["spaces"][n]
    return True, t["params"]


def first_params_diff(a, b, prefix=()):
    """relative path of the first space whose parameters differ (trees with equal member names)"""
    if a["params"] != b["params"]:
        return prefix
    for n in a["spaces"]:
        d = first_params_diff(a["spaces"][n], b["spaces"][n], prefix + (n,))
        if d is not None:
            return d
    return None


def sample_args(params):
    """arguments for indexing a dynamic copy: one int per parameter without default"""
    sig = inspect.signature(eval("lambda %s: None" % params))
    return tuple(2 + i for i, p in enumerate(q for q in sig.parameters.values() if q.default is q.empty))


def inst_target(spec, inst):
    """(static path the instance is a copy of, how its last item step chose it: None | 'base' | 'bases');
    raises NoInstance like static_copy (navigation only, no binding)"""
    cur, via = tuple(inst[0]), None
    if not spec.has_space(cur):
        raise NoInstance("no space")
    for st in inst[1]:
        if st[0] == "item":
            f = spec.space(cur)["formula"]
            if not isinstance(f, dict):
                raise NoInstance("no formula")
            via = None
            if f.get("base") is not None:
                if not spec.has_space(f["base"]):
                    raise NoInstance("base gone")
                cur, via = tuple(f["base"]), f.get("base_key") or "base"
        else:
            if st[1] not in spec.space(cur)["spaces"]:
                raise NoInstance("no child")
            cur = cur + (st[1],)
    return cur, via


def derived_insts(spec, insts):
    """'indexing the dynamic copy works as in the base': for every instance that can exist, one item of every
    parametrised space replicated inside it (any depth), and of the instance itself when its base was chosen
    through the 'base'/'bases' key (plain item-of-item is a listed instance of template `nested`)"""
    out = []
    for inst in insts:
        try:
            tgt, via = inst_target(spec, inst)
        except NoInstance:
            continue
        if expected(spec, inst) == ("exc",):
            continue
        for q, ss in spec.walk():
            if q[:len(tgt)] != tgt or (q == tgt and via is None) or not isinstance(ss["formula"], dict):
                continue
            try:
                args = sample_args(ss["formula"]["params"])
            except Exception:
                continue
            d = (inst[0], tuple(inst[1]) + tuple(("child", n) for n in q[len(tgt):]) + (("item", args),))
            if d not in insts and d not in out:
                out.append(d)
    return out


def inst_path(inst):
    p = tuple(inst[0])
    for st in inst[1]:
        p += (tuple(st[1]),) if st[0] == "item" else (st[1],)
    return p


def access(m, inst):
    o = get(m, inst[0])
    for st in inst[1]:
        if st[0] == "item":
            a = st[1]
            kw = st[2] if len(st) > 2 else {}
            o = o(*a, **kw) if (kw or len(a) == 0) else (o[a] if len(a) != 1 else o[a[0]])
        else:
            o = o.named_spaces[st[1]]
    return o


def handles_of(o):
    """{relative path: handle} of a dynamic space, its cells, and its static-children tree"""
    out = {(): o}

    def rec(s, prefix):
        for n in list(s.cells):
            out[prefix + (n,)] = s.cells[n]
        for n in list(s.named_spaces):
            out[prefix + (n,)] = s.named_spaces[n]
            rec(s.named_spaces[n], prefix + (n,))
    rec(o, ())
    return out


# ------------------------------------------------------------------------------------------ checking

class Fail(Exception):
    def __init__(self, symptom, what, probe):
        self.symptom, self.what, self.probe = symptom, what, probe


def probe_cells_handle(h, exp_vals):
    """an old cells handle: DeletedObjectError, or the expected value / an error where an error is expected"""
    try:
        n = len(h.parameters)
    except DeletedObjectError:
        return None
    for a in GRID.get(n, []):
        try:
            v = ("v", norm(h(*a)))
        except DeletedObjectError:
            return None
        except Exception:
            v = ("exc",)
        want = exp_vals.get(a, ("exc",)) if exp_vals is not None else ("exc",)
        if v != want:
            return (a, v, want)
    return None


def check_instance(m, spec, inst, old, phase):
    """raises Fail; returns the new handle dict (or None when the instance cannot exist)"""
    exp = expected(spec, inst)
    ip = inst_path(inst)
    # (a) old handles before the instance is obtained again
    if old:
        for rp, h in old.items():
            if is_dead(h):
                continue
            if hasattr(h, "cells"):        # a space handle that is alive: its content must be current
                if exp == ("exc",):
                    if rp == ():
                        got = eval_space(h)
                        if any(v[0] == "v" for d in got.values() for v in d.values()):
                            raise Fail("old-handle-serves", "old handle of %s serves values though the instance "
                                       "cannot exist: %r" % (code_path("m", ip), got), ("old", rp, None))
                else:
                    found, want = params_at(exp[1], rp)
                    try:
                        have = h.parameters
                    except DeletedObjectError:
                        continue
                    if found and have != want:
                        raise Fail("old-handle-stale-params", "old space handle %s%s is alive and has parameters %r, "
                                   "its base now has %r" % (code_path("m", ip), "".join("." + x for x in rp), have, want),
                                   ("old-params", rp, None))
                continue
            ev = None
            if exp != ("exc",):
                ev = exp[2].get(rp)
            bad = probe_cells_handle(h, ev)
            if bad:
                raise Fail("old-handle-stale", "old cells handle %s%s%r gave %r, current definitions give %r"
                           % (code_path("m", ip), "." + ".".join(rp), bad[0], bad[1], bad[2]), ("old", rp, bad[0]))
    # (b) obtain again
    try:
        o = access(m, inst)
    except DeletedObjectError:
        raise
    except Exception as e:
        if exp == ("exc",):
            return None
        raise Fail("create-raises", "%s raised %s: %s" % (code_path("m", ip), type(e).__name__, e), ("new", (), None))
    if exp == ("exc",):
        # an instance was created although the definitions give none: its cells must at least not serve values
        got = eval_space(o)
        if any(v[0] == "v" for d in got.values() for v in d.values()):
            raise Fail("instance-of-nothing", "%s exists and serves %r though the definitions give no instance"
                       % (code_path("m", ip), got), ("new", (), None))
        return handles_of(o)
    _, names, vals = exp
    have = names_tree(o)
    if names_only(have) != names_only(names):
        raise Fail("names-differ", "%s has members %r, its base has %r" % (code_path("m", ip), names_only(have),
                                                                          names_only(names)), ("names", (), None))
    if have != names:
        rp = first_params_diff(have, names)
        raise Fail("params-differ", "%s%s.parameters == %r, in its base %r" % (
            code_path("m", ip), "".join("." + x for x in rp), params_at(have, rp)[1], params_at(names, rp)[1]),
            ("params", rp, None))
    got = eval_space(o)
    if got != vals:
        for k in sorted(set(got) | set(vals)):
            for a in sorted(set(got.get(k, {})) | set(vals.get(k, {}))):
                if got.get(k, {}).get(a) != vals.get(k, {}).get(a):
                    raise Fail("stale-value" if phase == "after-edit" else "wrong-value",
                               "%s.%s%r = %r, static copy of the base with the parameters bound gives %r"
                               % (code_path("m", ip), ".".join(k), a, got.get(k, {}).get(a), vals.get(k, {}).get(a)),
                               ("new", k, a))
    if access(m, inst) is not o:
        raise Fail("identity", "%s obtained twice is not the same object" % code_path("m", ip), ("new", (), None))
    new = handles_of(o)
    # (c) old handles now: dead, or the very objects of the re-obtained instance
    if old:
        for rp, h in old.items():
            if is_dead(h):
                continue
            if rp not in new or new[rp] is not h:
                raise Fail("old-handle-orphan", "old handle %s%s is alive but is not the object now found there"
                           % (code_path("m", ip), "".join("." + x for x in rp)), ("old-id", rp, None))
    return new


def make_script(spec0, insts, hist, inst, probe, evals, flat=None, prep="eval"):
    """replay: rebuild, replay the history (evaluating where the case did), compare with the static copy.
    prep: what is done with the instances before the first edit (eval: created + evaluated, touch: created only,
    none: nothing)"""
    L = [SCRIPT_HEAD, code_build(spec0, "m", "M")]
    ip = inst_path(inst)
    tgt_expr = code_path("m", ip)
    kind, rp, a = probe
    relexpr = "".join("." + x for x in rp)
    allinst = ["lambda: " + code_path("m", inst_path(i)) for i in list(insts) + ([inst] if inst not in insts else [])]
    L.append("def touch(evaluate=True):\n    for f in [%s]:\n        try:\n            s = f(); [c(*a) for c in s.cells.values() "
             "for a in ([()] if not c.parameters else [(0,), (1,), (2,)][:3]) if evaluate and len(a) == len(c.parameters)]\n"
             "        except Exception: pass" % ", ".join(allinst))
    if prep != "none":
        L.append("touch()" if prep == "eval" else "touch(evaluate=False)   # instances created, nothing evaluated")
        L.append("try: h = %s%s\nexcept Exception: h = None" % (tgt_expr, relexpr))
    else:
        L.append("h = None")
    sp = spec0.copy()
    for i, op in enumerate(hist):
        L.append(code_op(op, "m"))
        sp.apply(op)
        if evals[i] and i < len(hist) - 1:
            L.append("touch()")
            L.append("try: h = %s%s\nexcept Exception: h = None" % (tgt_expr, relexpr))
    try:
        st, tgt = static_copy(flat if flat is not None else sp, inst)
        L.append("# static copy of the base as it is now published (inheritance flattened), parameters bound as refs")
        L.append(code_build(st, "r", "R"))
        want_expr = code_path("r", tgt) + relexpr
        have_static = True
    except NoInstance:
        have_static = False
    call = "(*%r)" % (a,) if a is not None else ""
    if kind == "old" and a is not None:
        L.append("got = val(lambda: h%s)" % call)
        L.append("want = val(lambda: %s%s)" % (want_expr, call) if have_static else "want = ('exc',)")
        L.append("print('old handle:', got, 'static copy:', want)")
        L.append("sys.exit(0 if got == ('deleted',) or got == want else 1)")
    elif kind == "new" and a is not None:
        L.append("got = val(lambda: %s%s%s)" % (tgt_expr, relexpr, call))
        L.append("want = val(lambda: %s%s)" % (want_expr, call) if have_static else "want = ('exc',)")
        L.append("print('instance:', got, 'static copy:', want)")
        L.append("sys.exit(0 if got == want else 1)")
    elif kind == "old-id":
        L.append("new = %s%s" % (tgt_expr, relexpr))
        L.append("dead = val(lambda: h.name) == ('deleted',)")
        L.append("print('old handle dead:', dead, 'identical:', new is h)")
        L.append("sys.exit(0 if dead or new is h else 1)")
    elif kind in ("params", "old-params"):
        L.append("got = val(lambda: %s.parameters)" % ("h" if kind == "old-params" else tgt_expr + relexpr))
        L.append("want = val(lambda: %s.parameters)" % want_expr if have_static else "want = ('exc',)")
        L.append("print('parameters of %s:', got, 'in the static copy of the base:', want)"
                 % ("the old handle" if kind == "old-params" else "the dynamic copy"))
        L.append("sys.exit(0 if got == want%s else 1)" % (" or got == ('deleted',)" if kind == "old-params" else ""))
    elif kind == "names":
        L.append("def tree(s): return (sorted(s.cells), {n: tree(c) for n, c in sorted(s.named_spaces.items())})")
        L.append("a = tree(%s); b = %s" % (tgt_expr, "tree(%s)" % want_expr if have_static else "None"))
        L.append("print('instance:', a)\nprint('base    :', b)")
        L.append("sys.exit(0 if a == b else 1)")
    elif kind == "old":
        L.append("served = []")
        L.append("def walk(s, p):\n    for n, c in s.cells.items():\n        for a in ([()] if not c.parameters else [(0,), (2,)]):\n"
                 "            r = val(lambda: c(*a))\n            if r[0] == 'v': served.append((p + n, a, r[1]))\n"
                 "    for n, ch in s.named_spaces.items(): walk(ch, p + n + '.')")
        L.append("try:\n    if h is not None: walk(h, '')\nexcept DeletedObjectError: pass")
        L.append("print('old handle still serves:', served)")
        L.append("sys.exit(1 if served else 0)")
    else:
        L.append("got = val(lambda: %s)" % tgt_expr)
        L.append("print(got)")
        L.append("sys.exit(%s)" % ("1 if got[0] == 'exc' else 0" if have_static else "1 if got[0] == 'v' else 0"))
    return "\n".join(L) + "\n"


# ------------------------------------------------------------------------------------------ edits

def edit_site(spec, insts, op):
    """where the edit is relative to the instances' bases: self / base / child / other-base / global / unrelated"""
    k = op[0]
    if k in ("clear_model",):
        return "model"
    p = tuple(op[1])
    if k in ("set_ref", "del_ref") and p == ():
        return "global"
    if k in ("set_cformula", "rename_cells", "set_prop", "clear_cells", "set_input"):
        p = p[:-1]
    mains = {tuple(i[0]) for i in insts}
    for mn in mains:
        if p == mn:
            return "self"
    for mn in mains:
        if spec.has_space(mn):
            if p[:len(mn)] == mn:
                return "child"
            try:
                if p in spec.mro(mn):
                    return "base"
            except Exception:
                pass
            f = spec.space(mn)["formula"]
            if isinstance(f, dict) and f.get("base") and p[:len(f["base"])] == tuple(f["base"]):
                return "other-base" if p == tuple(f["base"]) else "other-base-child"
    return "elsewhere"


def edits(spec, insts, meta, del_forms=False):
    E = _edits(spec, insts, meta, del_forms)
    targets = [r[1] for _, ss in spec.walk() for r in ss["refs"].values() if r[0] == "obj"]
    targets += [r[1] for r in spec.refs.values() if r[0] == "obj"]

    def dangles(e):
        if e[0] in ("del_space", "rename_space"):
            p = tuple(e[1])
        elif e[0] == "del_cells":
            p = tuple(e[1]) + (e[2],)
        elif e[0] == "rename_cells":
            p = tuple(e[1])
        else:
            return False
        return any(t[:len(p)] == p for t in targets)
    return [e for e in E if not dangles(e)]


def _edits(spec, insts, meta, del_forms=False):
    E = []
    paths = [p for p, _ in spec.walk()]
    for p, ss in spec.walk():
        taken = set(spec.all_cells(p)) | set(spec.all_refs(p)) | set(ss["spaces"]) | set(spec.refs)
        if "nw" not in taken:
            E.append(("new_cells", p, "nw", "lambda: 7"))
        allc = spec.all_cells(p)
        for n, (dp, c) in allc.items():
            cp = p + (n,)
            if c["src"].count("+ 1000") < 1:
                E.append(("set_cformula", cp, c["src"] + " + 1000"))
            if dp == p:
                E.append(("del_cells", p, n))
                if not any(n in spec.space(q)["cells"] for q in spec.subs(p)) and "rn" not in taken:
                    E.append(("rename_cells", cp, "rn"))
                E.append(("set_prop", cp, "is_cached", not c["is_cached"]))
                if c["allow_none"] is None:
                    E.append(("set_prop", cp, "allow_none", True))
                E.append(("clear_cells", cp))
        for n, r in ss["refs"].items():
            if r[0] == "lit":
                E.append(("set_ref", p, n, lit(r[1] + 1, r[2])))
            alt = meta.get("ref_alternatives", {}).get((p, n))
            if alt and alt != r and spec.exists(alt[1]):
                E.append(("set_ref", p, n, alt))
            E.append(("del_ref", p, n))
        if "nr" not in taken:
            E.append(("set_ref", p, "nr", lit(1)))
        for gn in spec.refs:
            if gn not in spec.all_refs(p) and gn not in allc and gn not in ss["spaces"]:
                E.append(("set_ref", p, gn, lit(7)))          # shadow a model-level ref
                break
        if "N" not in taken:
            E.append(("new_space", p, "N", (), None))
        E.append(("del_space", p))
        if not any(q == p[:-1] + (p[-1] + "x",) for q in paths):
            E.append(("rename_space", p, p[-1] + "x"))
        for b in ss["bases"]:
            E.append(("remove_bases", p, b))
        for b in meta.get("spare_bases", {}).get(p, []):
            if b not in ss["bases"] and spec.has_space(b):
                E.append(("add_bases", p, b))
        f = ss["formula"]
        if isinstance(f, dict):
            E.append(("set_sformula", p, None))
            if del_forms:                      # the other public spellings of the deletion
                for form in ("del_formula", "parameters", "set_formula"):
                    E.append(("set_sformula", p, None, form))
            if "zz" not in f["params"]:
                E.append(("set_sformula", p, dict(f, params=f["params"] + ", zz=3")))
            if not f.get("refs"):
                E.append(("set_sformula", p, dict(f, refs={"fr": f["params"].split(",")[0].split("=")[0].strip() + " + 1"})))
            else:
                E.append(("set_sformula", p, dict(f, refs={k: "(%s) + 1" % e for k, e in f["refs"].items()})))
            own_lits = [n for n, r in ss["refs"].items() if r[0] == "lit" and n not in f["params"]]
            if own_lits and not (f.get("refs") and own_lits[0] in f["refs"]):
                first = f["params"].split(",")[0].split("=")[0].strip()
                E.append(("set_sformula", p, dict(f, refs=dict(f.get("refs") or {}, **{own_lits[0]: first + " + 500"}))))
            E.append(("clear_items", p))
            E.append(("clear_space", p))
        elif f is None:
            # the space gets its FIRST parameter formula, in every public spelling (`s.formula = ...`,
            # `s.parameters = ...`, `s.set_formula(...)`), at any depth: plain child / grandchild spaces of
            # parametrised spaces, plain spaces chosen through 'base'/'bases', unrelated plain spaces.
            # (spaces that are bases of others are left to the inheritance properties)
            if len(p) == 2:
                E.append(("set_sformula", p, {"params": "k"}))
            if not spec.subs(p):
                pk = [x for x in ("pk", "pk_") if x not in taken][0]
                if len(p) != 2:
                    E.append(("set_sformula", p, {"params": pk}))
                E.append(("set_sformula", p, {"params": pk}, "parameters"))
                E.append(("set_sformula", p, {"params": pk + ", pj=2", "refs": {"fr": pk + " + pj"}}, "set_formula"))
    for gn, r in spec.refs.items():
        if r[0] == "lit":
            E.append(("set_ref", (), gn, lit(r[1] + 1)))
        E.append(("del_ref", (), gn))
    if "ng" not in spec.refs:
        E.append(("set_ref", (), "ng", lit(1)))
    E.append(("clear_model",))
    for inst in insts:
        if len(inst[1]) == 1 and spec.has_space(inst[0]) and isinstance(spec.space(inst[0])["formula"], dict):
            try:
                key = tuple(bind(spec.space(inst[0])["formula"]["params"], inst[1][0][1]).values())
            except TypeError:
                continue
            E.append(("clear_at", tuple(inst[0]), key))
            E.append(("del_item", tuple(inst[0]), key))
    # de-duplicate, keep order
    seen, out = set(), []
    for e in E:
        if repr(e) not in seen:
            seen.add(repr(e))
            out.append(e)
    return out


CORE_KINDS = ("set_cformula", "new_cells", "del_cells", "set_ref", "remove_bases", "add_bases", "set_sformula",
              "del_space", "rename_space", "clear_items", "new_space", "rename_cells")


def inst_kind(inst):
    ks = [s[0] for s in inst[1]]
    if ks.count("item") > 1:
        return "nested-item" if "child" in ks else "item-of-item"
    return "flat"


# ------------------------------------------------------------------------------------------ workers

def template(tname):
    return {t.__name__: t for t in TEMPLATES + PART_A_ONLY + F_TEMPLATES}[tname]


def hist_key(kind, hist, evals, prep):
    return ("hist", kind, tuple(map(repr, hist)), tuple(evals)) + ((("prep", prep),) if prep != "eval" else ())


def run_history(tname, hist, evals, prep="eval"):
    key = hist_key(tname, hist, evals, prep)
    return guarded(lambda: _run_history(tname, hist, evals, prep), key,
                   (tname[2:], hist[-1][0] if hist else "construction"),
                   "history %s" % "; ".join(code_op(e) for e in hist))


def copy_tags(spec, inst, p):
    """how a dynamic copy of the edited space `p` is contained in the instance (features of the case):
    copy:root (the instance is a copy of p, chosen via-base-key / via-bases-key), copy:child / copy:descendant
    (p is replicated inside the instance), copy:indexed (the instance is an item of a dynamic copy of p, or of
    what p's copy contains), copy:none"""
    p = tuple(p)
    cur, via, through = tuple(inst[0]), None, False
    try:
        if not spec.has_space(cur):
            raise NoInstance()
        for n, st in enumerate(inst[1]):
            if st[0] == "item":
                if n > 0 and cur[:len(p)] == p:
                    through = True               # an item step taken on a dynamic copy of p (or below it)
                f = spec.space(cur)["formula"]
                if not isinstance(f, dict):
                    raise NoInstance()
                via = None
                if f.get("base") is not None:
                    if not spec.has_space(f["base"]):
                        raise NoInstance()
                    cur, via = tuple(f["base"]), f.get("base_key") or "base"
            else:
                if st[1] not in spec.space(cur)["spaces"]:
                    raise NoInstance()
                cur = cur + (st[1],)
    except NoInstance:
        return ["copy:indexed" if through else "copy:none"]
    if through:
        return ["copy:indexed"]
    if p[:len(cur)] != cur:
        return ["copy:none"]
    d = len(p) - len(cur)
    tags = ["copy:" + ("root" if d == 0 else "child" if d == 1 else "descendant")]
    if via:
        tags.append("via-%s-key" % via)
    return tags


def _run_history(tname, hist, evals, prep="eval"):
    """one history on one template; returns a record.
    prep = what happens to the instances before the first edit: "eval" created, compared with the static copy
    (= every cells evaluated), handles kept; "touch" created only, handles kept; "none" nothing"""
    kind, spec0, insts, meta = template(tname)()
    insts = list(meta.get("hist_insts", insts))
    reset()
    key = hist_key(kind, hist, evals, prep)
    rec = {"key": key, "nontrivial": False, "monitors": [], "notes": []}
    m = build(spec0, "M")
    spec = spec0.copy()
    flat = live_flat(m, spec)
    handles = {}
    if prep == "eval":
        try:
            for inst in insts + derived_insts(flat, insts):
                handles[inst] = check_instance(m, flat, inst, None, "initial")
        except Fail as f:
            rec["fail"] = dict(tags=("construction", kind, f.symptom), what=f.what, case=key,
                               script=make_script(spec0, insts, [], inst, f.probe, [], flat))
            rec["nontrivial"] = True
            return rec
    elif prep == "touch":
        for inst in insts + derived_insts(flat, insts):
            try:
                handles[inst] = handles_of(access(m, inst))
            except DeletedObjectError:
                raise
            except Exception:
                pass                       # judged by the construction cases
    for i, op in enumerate(hist):
        before = {inst: expected(flat, inst) for inst in handles}
        try:
            live_apply(m, op)
        except DeletedObjectError:
            raise
        except Exception as e:
            # the edit itself was refused / failed: not this property's business (C11/C12) - stop this history
            rec["note"] = "op refused: %r %s" % (op, type(e).__name__)
            rec["notes"].append("edit refused by modelx, history dropped: %s -> %s" % (code_op(op), type(e).__name__))
            return rec
        spec_before = spec.copy()
        spec.apply(op)
        flat = live_flat(m, spec)
        if i == 0 and op[0] not in ("set_prop", "del_cells", "del_space", "rename_space"):
            d = diff(_srcs(flat), _srcs(spec_flat(spec)))
            if d:
                rec["notes"].append("side observation (inheritance, not judged here): after %s the members published by "
                                    "the base differ from its definitions: %s" % (code_op(op), d))
        if not evals[i] and i < len(hist) - 1:
            continue
        changed = False
        for inst in handles:
            if handles.get(inst) and (expected(flat, inst) != before[inst] or op[0] in
                                      ("clear_items", "clear_space", "clear_model", "clear_at", "del_item")):
                changed = True
        rec["nontrivial"] = rec["nontrivial"] or changed
        derived = derived_insts(flat, insts)
        todo = insts + derived
        todo += [x for x in handles if x not in todo]       # instances indexed earlier whose formula is gone
        for inst in todo:
            try:
                handles[inst] = check_instance(m, flat, inst, handles.get(inst), "after-edit")
            except Fail as f:
                site = edit_site(spec_before, [inst], op)
                val = op[3] if op[0] == "set_ref" else None
                tags = [kind, op[0], "site:" + site, f.symptom, inst_kind(inst)]
                if site in ("child", "other-base", "other-base-child"):
                    tags.append("site-nonroot")
                if val is not None:
                    tags.append("ref-" + val[0])
                    holder = (spec_before.space(op[1])["refs"] if op[1] else spec_before.refs)
                    tags.append("ref-change" if op[2] in holder else "ref-new")
                if op[0] == "set_sformula":
                    tags.append("formula-del" if op[2] is None else "formula-set")
                    if op[2] is not None:
                        tags.append("formula-first" if spec_before.space(op[1])["formula"] is None
                                    else "formula-replace")
                    tags.append("form:" + sformula_form(op))
                    tags += copy_tags(spec_before, inst, op[1])
                if inst not in insts:
                    tags.append("index-the-copy")
                if prep != "eval":
                    tags.append("prep:" + prep)
                if i > 0:
                    tags.append("step%d" % (i + 1))
                rec["fail"] = dict(tags=tuple(tags), what="after %s: %s" % (code_op(op), f.what), case=key,
                                   script=make_script(spec0, insts, hist[:i + 1], inst, f.probe, evals, flat, prep))
                rec["nontrivial"] = True
                return rec
    return rec


def run_history_min(tname, hist, evals, prep="eval"):
    """run a history; when it fails after more than one edit, look for a shorter failing sub-history (single
    edits, then ordered pairs, every step evaluated) and report that one's features, so that one defect gets one
    tag set however long the history that ran into it"""
    rec = run_history(tname, hist, evals, prep)
    if not rec.get("fail") or len(hist) < 2:
        return rec
    subs = [[e] for e in hist] + [[a, b] for i, a in enumerate(hist) for b in hist[i + 1:]]
    for sub in subs:
        if len(sub) >= len(hist) and all(evals):
            continue
        r2 = run_history(tname, sub, tuple([True] * len(sub)), prep)
        if r2.get("fail"):
            f = dict(r2["fail"])
            f["what"] = f["what"] + "   [minimised from the history %s]" % "; ".join(code_op(e) for e in hist)
            f["case"] = rec["key"]
            rec["fail"] = f
            return rec
    # only the whole history fails: name every edit since the last evaluation
    extra = []
    last_eval = max([i for i, ev in enumerate(evals[:-1]) if ev] + [-1])
    for e in hist[last_eval + 1:-1]:
        extra.append("with:" + e[0])
    if extra:
        rec["fail"] = dict(rec["fail"], tags=tuple(rec["fail"]["tags"]) + tuple(extra))
    return rec


def worker_hist(job):
    """all histories `prefix + [e]`; the prefix alone is the business of the length-1 job"""
    tname, prefix, depth, masks, thin, lo, hi = job
    tmpl = template(tname)
    _, spec0, insts, meta = tmpl()
    insts = meta.get("hist_insts", insts)
    pre = run_history(tname, list(prefix), tuple([True] * len(prefix)))
    if pre.get("fail") or pre.get("note"):
        return []                      # already reported by the shorter history; nothing to extend
    sp = spec0.copy()
    for e in prefix:
        sp.apply(e)
    out = []
    for j, e in enumerate(edits(sp, insts, meta)):
        if not lo <= j < hi:
            continue
        if thin is not None and (e[0] not in CORE_KINDS or (thin + j) % 3):
            continue
        s2 = sp.copy()
        try:
            s2.apply(e)
        except Exception:
            continue
        hist = list(prefix) + [e]
        ms = [tuple([True] * len(hist))]
        if masks:
            ms.append(tuple([False] * (len(hist) - 1) + [True]))
        for ev in ms:
            out.append(run_history_min(tname, hist, ev))
    return out


def worker_random(job):
    tname, seed, length, n = job
    rng = random.Random(seed)
    tmpl = template(tname)
    out = []
    for _ in range(n):
        _, spec0, insts, meta = tmpl()
        insts = meta.get("hist_insts", insts)
        sp = spec0.copy()
        hist, evals = [], []
        for _i in range(length):
            es = edits(sp, insts, meta)
            if not es:
                break
            e = rng.choice(es)
            try:
                sp.apply(e)
            except Exception:
                break
            hist.append(e)
            evals.append(rng.random() < 0.7)
        if hist:
            evals[-1] = True
            out.append(run_history_min(tname, hist, tuple(evals)))
    return out


# ------------------------------------------------------------------------------------------ part F: first formula

def op_space(op):
    """the space an edit is located in (None: model level)"""
    if op[0] == "clear_model" or not op[1]:
        return None
    p = tuple(op[1])
    if op[0] in ("set_cformula", "rename_cells", "set_prop", "clear_cells", "set_input"):
        p = p[:-1]
    return p


def related(op, p, tier):
    """quick: the edit is located in the space p itself; thorough: also in an ancestor or a descendant of p"""
    q = op_space(op)
    if tier == "quick":
        return q == p
    return q is not None and (q[:len(p)] == p or p[:len(q)] == q)


def is_first_formula(spec, e):
    return e[0] == "set_sformula" and e[2] is not None and spec.space(e[1])["formula"] is None


def part_f_histories(tname, tier):
    """histories around 'a plain space gets its first parameter formula while instances containing a dynamic copy
    of it are alive': (1) the edit alone x {instances evaluated, created only, not created}; (2) the edit followed
    by every edit of the alphabet (quick: of the core kinds, every third pair but all formula edits) located in that space (thorough: also in its ancestors or descendants; incl.
    replacing / deleting the formula in every spelling); (3) every such edit of the core kinds first (incl. deleting the formula, so that
    the space is plain *again*; creating the plain space), then the first-formula edit.  -> [(hist, evals, prep)]"""
    kind, spec0, insts, meta = template(tname)()
    insts = meta.get("hist_insts", insts)
    full = template(tname) in F_TEMPLATES        # standard templates: [e] with prep eval is a length-1 history anyway
    out = []
    firsts = [e for e in edits(spec0, insts, meta) if is_first_formula(spec0, e)]
    for e in firsts:
        for prep in (("eval",) if full else ()) + ("touch", "none"):
            out.append(([e], (True,), prep))
    if not full:
        return out
    masks2 = [(True, True)] + ([(False, True)] if tier != "quick" else [])
    n = 0
    for e in firsts:
        s1 = spec0.copy().apply(e)
        for q in edits(s1, insts, meta, del_forms=True):
            if tier == "quick" and q[0] not in CORE_KINDS:
                continue
            if related(q, tuple(e[1]), tier):
                n += 1
                if tier == "quick" and n % 3 and q[0] != "set_sformula":
                    continue                   # quick: every third pair (the spellings of e rotate over the q's)
                for ev in masks2:
                    out.append(([e, q], ev, "eval"))
                if q[0] == "set_sformula":
                    out.append(([e, q], (True, True), "touch"))
    for p0 in edits(spec0, insts, meta, del_forms=True):
        if p0[0] not in CORE_KINDS:
            continue
        try:
            s1 = spec0.copy().apply(p0)
        except Exception:
            continue
        for e in edits(s1, insts, meta):
            if is_first_formula(s1, e) and related(p0, tuple(e[1]), tier):
                n += 1
                if tier == "quick" and n % 3 and p0[0] != "set_sformula":
                    continue
                for ev in masks2:
                    out.append(([p0, e], ev, "eval"))
    return out


def worker_f(job):
    tname, cases = job
    return [run_history_min(tname, list(h), tuple(ev), prep) for h, ev, prep in cases]


def part_f_jobs(tier):
    jobs = []
    for t in F_TEMPLATES + TEMPLATES:
        cases = part_f_histories(t.__name__, tier)
        for lo in range(0, len(cases), 6):
            jobs.append(("F", t.__name__, cases[lo:lo + 6]))
    return jobs


# ------------------------------------------------------------------------------------------ part A: construction

def spellings(params, args):
    """every call/index spelling that binds like `args` (CPython's binding is the judge)"""
    want = bind(params, args)
    names = list(want)
    vals = list(want.values())
    out = []
    n = len(names)
    for npos in range(0, n + 1):
        for rest in itertools.product([False, True], repeat=n - npos):   # pass remaining by keyword or omit
            a = tuple(vals[:npos])
            kw = {names[npos + j]: vals[npos + j] for j, use in enumerate(rest) if use}
            try:
                if bind(params, a, kw) == want:
                    out.append(("call", a, kw))
            except TypeError:
                pass
    for npos in range(1, n + 1):
        a = tuple(vals[:npos])
        try:
            if bind(params, a) == want:
                out.append(("index", a, {}))
        except TypeError:
            pass
    return out


def part_a(res):
    for t in TEMPLATES + PART_A_ONLY + F_TEMPLATES:
        try:
            _part_a(res, t)
        except Exception as e:
            if not raised_inside_modelx(e):
                raise
            res.fail(tags=("construction", t.__name__[2:], "unexpected-exception", type(e).__name__),
                     what="construction/identity/isolation checks on template %s: %s: %s" % (t.__name__, type(e).__name__, e))


def _part_a(res, t):
    """construction, identity and isolation without any edit"""
    if True:
        kind, spec0, insts, meta = t()
        reset()
        m = build(spec0, "M")
        objs = {}
        spec_defs = spec0
        spec0 = live_flat(m, spec_defs)
        for inst in insts:
            key = ("construct", kind, inst_path(inst))
            with res.case(key, nontrivial=True):
                try:
                    h = check_instance(m, spec0, inst, None, "initial")
                    objs[inst] = h[()] if h else None
                except Fail as f:
                    res.fail(tags=("construction", kind, f.symptom, inst_kind(inst)), what=f.what, case=key,
                             script=make_script(spec_defs, insts, [], inst, f.probe, [], spec0))
            res.sample({"case": list(map(str, key))})
        # identity over spellings (last item step of every instance)
        for inst in insts:
            start, steps = inst
            if steps[-1][0] != "item" or objs.get(inst) is None:
                continue
            parent = get(m, start) if len(steps) == 1 else access(m, (start, steps[:-1]))
            # the formula governing the last step: the static space the parent is an instance of
            cur = tuple(start)
            for st in steps[:-1]:
                f = spec0.space(cur)["formula"]
                if st[0] == "item":
                    if f.get("base"):
                        cur = tuple(f["base"])
                else:
                    cur = cur + (st[1],)
            params = spec0.space(cur)["formula"]["params"]
            for style, a, kw in spellings(params, steps[-1][1]):
                key = ("spelling", kind, inst_path(inst), style, a, tuple(sorted(kw.items())))
                with res.case(key, nontrivial=True):
                    try:
                        if style == "call":
                            o = parent(*a, **kw)
                        else:
                            o = parent[a] if len(a) != 1 else parent[a[0]]
                        o2 = parent[a] if (style == "index" and len(a) > 1) else o
                    except Exception as e:
                        res.fail(tags=("identity", "spelling-raises", style, kind),
                                 what="%s spelled %s %r %r raised %r" % (code_path("m", inst_path(inst)), style, a, kw, e),
                                 case=key, script=None)
                        continue
                    if o is not objs[inst]:
                        args_s = ", ".join([repr(x) for x in a] + ["%s=%r" % kv for kv in kw.items()])
                        pexpr = code_path("m", inst_path((start, steps[:-1])))
                        spelled = "%s(%s)" % (pexpr, args_s) if style == "call" else "%s[%s]" % (pexpr, args_s)
                        res.fail(tags=("identity", "spelling", style, "kw" if kw else "pos", kind),
                                 what="%s is not %s" % (spelled, code_path("m", inst_path(inst))), case=key,
                                 script=SCRIPT_HEAD + code_build(spec_defs) + "\na = %s\nb = %s\nprint(a, b)\n"
                                 "sys.exit(0 if a is b else 1)\n" % (code_path("m", inst_path(inst)), spelled))
            # listing: the instance is in parent.itemspaces exactly once
            key = ("listing", kind, inst_path(inst))
            with res.case(key, nontrivial=True):
                vals = list(parent.itemspaces.values())
                if sum(1 for v in vals if v is objs[inst]) != 1:
                    res.fail(tags=("identity", "listing", kind),
                             what="%s appears %d times in itemspaces" % (code_path("m", inst_path(inst)),
                                                                         sum(1 for v in vals if v is objs[inst])),
                             case=key, script=None)
        # distinct bindings -> distinct objects
        for a, b in itertools.combinations([i for i in insts if objs.get(i) is not None], 2):
            key = ("distinct", kind, inst_path(a), inst_path(b))
            with res.case(key, nontrivial=True):
                if objs[a] is objs[b]:
                    res.fail(tags=("identity", "distinct", kind), what="%s is %s" % (inst_path(a), inst_path(b)),
                             case=key, script=None)
        # isolation: an input assigned inside one instance changes that instance exactly like an input in its
        # static copy, and nothing in any other instance
        for inst in insts:
            o = objs.get(inst)
            if o is None:
                continue
            exp = expected(spec0, inst)
            for cn in list(o.cells):
                c = o.cells[cn]
                if len(c.parameters) != 1 or not c.is_cached:
                    continue
                key = ("isolation", kind, inst_path(inst), cn)
                with res.case(key, nontrivial=True):
                    st, tgt = static_copy(spec0, inst)
                    if cn not in st.all_cells(tgt):
                        continue                     # names differ: reported by the construction case
                    defsp, _ = st.all_cells(tgt)[cn]
                    st2 = st.copy()
                    if defsp != tgt:      # define an override carrying the input in the static copy
                        st2.apply(("set_cformula", tgt + (cn,), st.all_cells(tgt)[cn][1]["src"]))
                    st2.space(tgt)["cells"][cn]["inputs"][0] = 12345
                    r = build(st2, "R")
                    try:
                        want = eval_space(get(r, tgt))
                    finally:
                        r.close()
                    c[0] = 12345
                    got = eval_space(o)
                    script = (SCRIPT_HEAD + code_build(spec_defs) + "\no = %s\no.%s[0] = 12345\n" % (
                        code_path("m", inst_path(inst)), cn))
                    if got != want:
                        res.fail(tags=("isolation", "input-in-instance", kind, inst_kind(inst)),
                                 what="after %s.%s[0] = 12345 the instance gives %r, static copy with the same input %r"
                                 % (code_path("m", inst_path(inst)), cn, got, want), case=key, script=None)
                    for other in insts:
                        if other is inst or objs.get(other) is None:
                            continue
                        eo = expected(spec0, other)
                        if eo != ("exc",) and eval_space(objs[other]) != eo[2]:
                            res.fail(tags=("isolation", "input-leaks", kind),
                                     what="input assigned in %s changed values of %s" % (inst_path(inst), inst_path(other)),
                                     case=key, script=script + "p = %s\nprint(dict(p.%s))\nsys.exit(1 if 0 in dict(p.%s) "
                                     "and dict(p.%s)[0] == 12345 else 0)\n" % (code_path("m", inst_path(other)), cn, cn, cn)
                                     if cn in objs[other].cells else None)
                    c.clear_all()
                    if eval_space(o) != exp[2]:
                        res.fail(tags=("isolation", "clear-input", kind),
                                 what="after clearing the input %s does not return to its values" % (inst_path(inst),),
                                 case=key, script=None)
        m.close()


# ------------------------------------------------------------------------------------------ run

def run(res, tier, seed):
    res.bound = ("part F: 5 templates whose instances contain dynamic copies of plain spaces (child, grandchild, below a "
                 "parametrised child S[1].C[2], chosen by 'base' / 'bases' / 'base' = a child space) x every plain space "
                 "x 3 spellings of the first parameter formula x {instances evaluated, created only, absent} x <= 1 "
                 "related edit before or after (quick: located in the same space, core kinds, every third pair; thorough: also in ancestors "
                 "/ descendants, with and without evaluation in between); then 7 model templates (inherited cells from 2-3 bases; child spaces depth <= 2; parametrised child "
                 "S[1].C[2]; item of item S[2][3]; formula choosing another base + extra refs; formula reading "
                 "cells; object refs relative/absolute; parameters/returned refs shadowing refs and globals; "
                 "defaults), <= 2 parameters with/without defaults, <= 4 instances each, every argument spelling; "
                 "histories of <= 2 edits exhaustively over the edit alphabet (quick: length 1 exhaustive + length 2 "
                 "restricted to structural edit kinds, every third pair; thorough: length 2 exhaustive with/without evaluation in between + seeded "
                 "random length 3-4), old handles of instance / child spaces / cells kept across every edit")
    res.rule = ("edit alphabet generated from the current definitions: every space x {new/del/rename/override cells, "
                "formula change of every defined or derived cells, is_cached/allow_none, ref new/change/del/shadow, "
                "new/del/rename child or top space, add/remove bases, parameter formula change/delete, first parameter "
                "formula of every plain space that is not a base (formula= / parameters= / set_formula()), clear ops, "
                "clear_at/del item}; after each edit every instance - and one item of every parametrised space replicated "
                "inside it - is compared (cells values, member names, parameters) with a static copy rebuilt from the "
                "definitions.  non-trivial = an instance held handles and its expected content changed (or it was "
                "discarded) by the edit; distinct = distinct (template, history, evaluation mask)")
    t0 = time.time()
    part_a(res)
    res.notes.append("part A (construction/identity/isolation) %.1fs" % (time.time() - t0))
    # part F first: it must always complete, whatever happens to the long tail below
    t1 = time.time()
    n0 = res.evaluations
    complete_f = run_jobs(res, part_f_jobs(tier), _job)
    res.notes.append("part F (first parameter formula of a plain space with live dynamic copies) %d histories, %.1fs%s"
                     % (res.evaluations - n0, time.time() - t1, "" if complete_f else " INCOMPLETE"))
    jobs = []
    names = [t.__name__ for t in TEMPLATES]
    # length 1: one job per template
    for t in TEMPLATES:
        kind, spec0, insts, meta = t()
        n1 = len(edits(spec0, meta.get("hist_insts", insts), meta))
        for lo in range(0, n1, 8):
            jobs.append((t.__name__, (), 1, False, None, lo, lo + 8))
    # length 2: one job per (template, first edit); quick: core kinds only and every third pair
    for t in TEMPLATES:
        kind, spec0, insts, meta = t()
        for j, e in enumerate(edits(spec0, meta.get("hist_insts", insts), meta)):
            if tier == "quick" and e[0] not in CORE_KINDS:
                continue
            s1 = spec0.copy()
            s1.apply(e)
            n2 = len(edits(s1, meta.get("hist_insts", insts), meta))
            chunk = 30 if tier == "quick" else 10
            for lo in range(0, n2, chunk):
                jobs.append((t.__name__, (e,), 2, tier != "quick", j if tier == "quick" else None, lo, lo + chunk))
    complete = run_jobs(res, jobs, _job)
    if tier != "quick" and complete:
        rj = []
        for k in range(224):
            rj.append(("R", names[k % len(names)], seed * 1000 + k, 3 + (k % 2), 3))
        complete = run_jobs(res, rj, _job) and complete
    res.exhaustive = bool(complete and complete_f)


def _job(job):
    if job[0] == "R":
        return worker_random(job[1:])
    if job[0] == "F":
        return worker_f(job[1:])
    tname, prefix, depth, masks, thin, lo, hi = job
    if depth == 1:
        tmpl = template(tname)
        _, spec0, insts, meta = tmpl()
        insts = meta.get("hist_insts", insts)
        return [run_history(tname, [e], (True,)) for e in edits(spec0, insts, meta)[lo:hi]]
    return worker_hist(job)


if __name__ == "__main__":
    main("C07", run)
