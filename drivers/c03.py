"""C03 - derived members equal re-derivation from the defined members along the C3 order (bounded stand-in).

Four parts, all on the real modelx:

 A. `SpaceGraph.get_mro` against CPython's own C3 (`type(n, bases, {}).__mro__`) on *all* ordered-base DAGs
    (graph level), and `space.bases` / rejection of hierarchies without a linearisation through the public API.
 B. INH as an invariant after every edit of every bounded history: the live spaces are compared with a
    pure-Python reference model (c03_refmodel.RModel) that holds the user's definitions only and re-derives
    everything from scratch (CPython C3, first definer wins); values of derived cells are compared with an
    independent cache-free evaluator that resolves names in the sub space.
 C. seeded random histories beyond the exhaustive bound (more spaces, longer histories, nested layouts,
    def-style formulas, all three reference modes).
 D. histories on the ordered base LIST of one space with 3-4 direct bases: any subset of them removed (one
    remove_bases call or several), then bases added (removed ones again / a space that never was a base; one
    add_bases call or several): `bases` and every derived member must be those of a fresh space created with
    the same ordered direct bases (survivors in their original order, then the added ones).

The executed API calls are text lines (`exec`), so the replay script of a failure is exactly what was run.
"""
from common import *          # noqa: F401,F403
from c03_refmodel import (RModel, RCell, RRef, MROError, all_dags, canon, cpython_mro, ordered_subsets)
import ast

HEAD = """import sys, warnings
warnings.filterwarnings("ignore")
import modelx as mx
"""
PIECES = {
    "norm": """
def norm(source):      # formula source up to layout
    import ast
    return ast.dump(ast.parse(source.strip()))
""",
    "touch": """
def touch(*spaces, items=False):
    # evaluate every cells (and the same cells in the ItemSpace [1]) so that values are held
    for s in spaces:
        for c in list(s.cells.values()):
            try: c()
            except Exception: pass
        if items:
            try:
                for c in list(s[1].cells.values()):
                    try: c()
                    except Exception: pass
            except Exception: pass
""",
    "attempt": """
def attempt(line):
    try:
        exec(line, globals())
        return "ok"
    except Exception as e:
        return "rejected"
""",
    "val": """
def val(thunk):
    try:
        return thunk()
    except Exception as e:
        return "EXC"
""",
}
PRE = HEAD + "".join(PIECES.values())


def header_for(body):
    return HEAD + "".join(code for name, code in PIECES.items() if (name + "(") in body)


_PRE_CODE = compile(PRE, "<c03-pre>", "exec")
_code_cache = {}


def _compiled(text, mode):
    k = (text, mode)
    c = _code_cache.get(k)
    if c is None:
        if len(_code_cache) > 20000:
            _code_cache.clear()
        c = _code_cache[k] = compile(text, "<c03>", mode)
    return c


def norm(source):
    return ast.dump(ast.parse(source.strip()))


# ---------------------------------------------------------------------------------------------- live side

class Live:
    """Executes API calls given as text on the real modelx and records them as the replay script."""

    def __init__(self):
        self.lines = []
        self.env = {}
        exec(_PRE_CODE, self.env)

    def do(self, line):
        """Run a line; an exception is recorded (the script guards the line) and returned."""
        try:
            exec(_compiled(line, "exec"), self.env)
        except Exception as e:      # noqa
            self.lines.append("try:\n    %s\nexcept Exception: pass" % line.replace("\n", "\n    "))
            return e
        self.lines.append(line)
        return None

    def ev(self, expr):
        return eval(_compiled(expr, "eval"), self.env)

    def script(self, probe, expected, drop_last=False):
        lines = self.lines[:-1] if drop_last else self.lines
        body = ("\n".join(lines) + "\n\n"
                "try:\n    got = %s\nexcept Exception as e:\n    got = 'EXC:' + type(e).__name__\n"
                "expected = %r\nprint('got     ', got)\nprint('expected', expected)\n"
                "sys.exit(0 if got == expected else 1)\n" % (probe, expected))
        return header_for(body) + "\n" + body


# ---------------------------------------------------------------------------------------------- a case

class Spec:
    """Initial model of a case: DAG + who defines f / g / k, and the variant flags."""

    def __init__(self, n, bases, fdef, kdef=(), gdef=(), touch=True, items=False, style="lambda",
                 layout="flat", refmode="auto", build="new_space", order="subs-first", gk=True):
        self.n, self.bases = n, tuple(tuple(b) for b in bases)
        self.fdef, self.kdef, self.gdef = tuple(sorted(fdef)), tuple(sorted(kdef)), tuple(sorted(gdef))
        self.touch, self.items, self.style = touch, items, style
        self.layout, self.refmode, self.build, self.order, self.gk = layout, refmode, build, order, gk

    def marks(self):
        return tuple((i in self.fdef, i in self.kdef, i in self.gdef) for i in range(self.n))

    def flags(self):
        return (self.touch, self.items, self.style, self.layout, self.refmode, self.build, self.order, self.gk)

    def key(self, history=()):
        return (canon(self.n, self.bases, self.marks()) if self.n <= 4 else (self.bases, self.marks()),
                self.flags(), tuple(history))

    def text(self, history=()):
        return {"bases": {"S%d" % i: ["S%d" % b for b in bs] for i, bs in enumerate(self.bases)},
                "f defined in": ["S%d" % i for i in self.fdef], "k defined in": ["S%d" % i for i in self.kdef],
                "g defined in": ["S%d" % i for i in self.gdef],
                "flags": dict(zip(("touch", "items", "style", "layout", "refmode", "build", "order", "global_k"),
                                  self.flags())),
                "history": [list(map(str, op)) for op in history]}


F_EXPR = "(%d, _space.name, k)"
G_EXPR = "('g%d', f()[0])"


class World:
    """A live model and its reference model run in lock-step."""

    def __init__(self, spec, live=None):
        self.spec = spec
        self.live = live if live is not None else Live()
        self.R = RModel()
        self.rs = {}             # index -> RSpace (alive ones)
        self.var = {}            # index -> variable name in the script
        self.nextidx = spec.n
        self.tag = 100
        self.kval = 1000
        self.renamed = False
        self.build_error = None
        self.step = 0            # build steps, for naming the edit that should have produced a member
        self.defstep = {}        # (id(RSpace), member kind, name) -> (step, edit kind)
        self.wirestep = {}       # id(RSpace) -> (step, edit kind)

    def blame(self, victim, name, mkind, definer):
        """the build step that should have produced the expected state of `name` in `victim`"""
        cands = []
        if definer is not None and (id(definer), mkind, name) in self.defstep:
            cands.append(self.defstep[(id(definer), mkind, name)] + (definer,))
        if id(victim) in self.wirestep:
            cands.append(self.wirestep[id(victim)] + (victim,))
        if not cands:
            return "build", []
        step, kind, sp = max(cands, key=lambda c: c[0])
        return kind, [sp]

    # ---- helpers
    def container(self, i):
        lay = self.spec.layout
        if lay == "flat":
            return "m"
        if lay == "nested":
            return "P"
        return "P" if i % 2 else "m"       # mixed

    def setref_line(self, i, v):
        mode = self.spec.refmode
        if mode == "auto":
            return "%s.k = %r" % (self.var[i], v)
        return "%s.%s(k=%r)" % (self.var[i], "absref" if mode == "absolute" else "relref", v)

    def must(self, line):
        e = self.live.do(line)
        if e is not None:
            self.build_error = (line, e)
        return e

    # ---- build
    def build(self):
        sp, L, R = self.spec, self.live, self.R
        self.must("m = mx.new_model('M')")
        if sp.gk:
            self.must("m.k = 0")
            R.grefs["k"] = RRef(0)
        rp = None
        if sp.layout != "flat":
            self.must("P = m.new_space('P')")
            rp = R.new_space("P")
        for i in range(sp.n):
            self.var[i] = "S%d" % i
        if sp.order == "members-first":
            # bases (and their members) exist before a sub is created / wired
            for i in range(sp.n):
                self._mk_space(i, rp, with_bases=(sp.build == "new_space"))
                self._mk_members(i)
            if sp.build == "add_bases":
                for i in range(sp.n):
                    self._wire(i)
        else:
            for i in range(sp.n):
                self._mk_space(i, rp, with_bases=(sp.build == "new_space"))
            if sp.build == "add_bases":
                for i in range(sp.n):
                    self._wire(i)
            for i in range(sp.n):
                self._mk_members(i)
        return self.build_error is None

    def _mk_space(self, i, rp, with_bases):
        sp = self.spec
        cont = self.container(i)
        bs = sp.bases[i] if with_bases else ()
        arg = (", bases=[%s]" % ", ".join(self.var[b] for b in bs)) if bs else ""
        self.must("S%d = %s.new_space('S%d'%s)" % (i, cont, i, arg))
        self.rs[i] = self.R.new_space("S%d" % i, parent=(rp if cont == "P" else None),
                                      bases=[self.rs[b] for b in bs])
        self.step += 1
        if bs:
            self.wirestep[id(self.rs[i])] = (self.step, "new-space")
        if sp.items:
            self.must("S%d.formula = 'lambda i: None'" % i)
            self.rs[i].params = ("i",)

    def _wire(self, i):
        bs = self.spec.bases[i]
        if bs:
            self.must("S%d.add_bases(%s)" % (i, ", ".join(self.var[b] for b in bs)))
            self.rs[i].bases = [self.rs[b] for b in bs]
            self.step += 1
            self.wirestep[id(self.rs[i])] = (self.step, "add-base")

    def _mk_members(self, i):
        sp = self.spec
        if i in sp.fdef:
            self._define_cells(i, "f", RCell(F_EXPR % (i + 1), sp.style))
        if i in sp.gdef:
            self._define_cells(i, "g", RCell(G_EXPR % (i + 1), sp.style))
        if i in sp.kdef:
            v = 10 + i
            self.step += 1
            self.defstep[(id(self.rs[i]), "ref", "k")] = (
                self.step, "override-ref" if "k" in self.R.exp_refs(self.rs[i]) else "new-ref")
            self.must(self.setref_line(i, v))
            self.rs[i].refs["k"] = RRef(v, sp.refmode)

    def _define_cells(self, i, name, cd):
        """define `name` in space i whatever its present status (new / override of a derived copy)"""
        exp = self.R.exp_cells(self.rs[i])
        self.step += 1
        self.defstep[(id(self.rs[i]), "cells", name)] = (
            self.step, "override-cells" if name in exp else "new-cells")
        if name in exp:
            cd.cached = exp[name][1].cached
            self.must("%s.cells[%r].formula = %r" % (self.var[i], name, cd.source(name)))
        else:
            self.must("%s.new_cells(%r, formula=%r)" % (self.var[i], name, cd.source(name)))
        self.rs[i].cells[name] = cd

    # ---- vocabulary
    def applicable(self, vocab):
        """Edits applicable in the present reference state: list of op tuples."""
        R, rs = self.R, self.rs
        ops = []
        idx = sorted(rs)
        for i in idx:
            s = rs[i]
            ops.append(("setf", i))
            if "f" in s.cells:
                ops.append(("delf", i))
            ops.append(("setk", i))
            if "k" in s.refs:
                ops.append(("delk", i))
        for i in idx:
            for j in idx:
                if i != j:
                    if rs[j] in rs[i].bases:
                        ops.append(("rmb", i, j))
                    else:
                        ops.append(("addb", i, j))
        if vocab >= 1:
            for i in idx:
                s = rs[i]
                if "f" in s.cells and s.cells["f"].cached:
                    ops.append(("cache", i))
                if ("f" in s.cells and not self.renamed
                        and not any("f" in b.cells for b in R.mro(s)[1:])
                        and not any("f" in x.cells for x in R.subs(s))
                        and not any("h" in x.cells for x in R.all_spaces())):
                    ops.append(("rename", i))
                ops.append(("delsp", i))
                ops.append(("newsp", (i,)))
        if vocab >= 2:
            for i in idx:
                for j in idx:
                    if i != j:
                        ops.append(("newsp", (i, j)))
                if not rs[i].name.startswith("R"):
                    ops.append(("rensp", i))
        return ops

    def apply(self, op):
        """Run one edit on both sides.  Returns (kind, edited RSpaces, outcome) with outcome in
        'ok' | 'refused' (a valid edit modelx declined) | 'rejected' (an invalid hierarchy, as expected) |
        'accepted-bad' | 'crash:<Exc>'."""
        R, rs, var, sp = self.R, self.rs, self.var, self.spec
        code = op[0]
        undo = None
        expect_reject = False
        if code == "setf":
            i = op[1]; s = rs[i]
            self.tag += 10
            cd = RCell(F_EXPR % self.tag, sp.style)
            exp = R.exp_cells(s)
            if "f" not in exp:
                kind = "new-cells"
                line = "%s.new_cells('f', formula=%r)" % (var[i], cd.source("f"))
            else:
                kind = "redef-cells" if exp["f"][0] is s else "override-cells"
                cd.cached = exp["f"][1].cached
                line = "%s.f.formula = %r" % (var[i], cd.source("f"))
            old = s.cells.get("f")
            s.cells["f"] = cd
            edited = [s]

            def undo():
                if old is None:
                    del s.cells["f"]
                else:
                    s.cells["f"] = old
        elif code == "delf":
            i = op[1]; s = rs[i]
            kind = "unoverride-cells" if any("f" in b.cells for b in R.mro(s)[1:]) else "del-cells"
            line = "del %s.f" % var[i]
            old = s.cells.pop("f")
            edited = [s]

            def undo():
                s.cells["f"] = old
        elif code == "setk":
            i = op[1]; s = rs[i]
            self.kval += 1
            exp = R.exp_refs(s)
            if "k" not in exp:
                kind = "new-ref"
            else:
                kind = "change-ref" if exp["k"][0] is s else "override-ref"
            line = self.setref_line(i, self.kval)
            old = s.refs.get("k")
            s.refs["k"] = RRef(self.kval, sp.refmode)
            edited = [s]

            def undo():
                if old is None:
                    del s.refs["k"]
                else:
                    s.refs["k"] = old
        elif code == "delk":
            i = op[1]; s = rs[i]
            kind = "unoverride-ref" if any("k" in b.refs for b in R.mro(s)[1:]) else "del-ref"
            line = "del %s.k" % var[i]
            old = s.refs.pop("k")
            edited = [s]

            def undo():
                s.refs["k"] = old
        elif code == "addb":
            i, j = op[1], op[2]; s = rs[i]
            line = "%s.add_bases(%s)" % (var[i], var[j])
            s.bases.append(rs[j])
            edited = [s, rs[j]]
            try:
                R.check_all_mro()
                kind = "add-base"
            except MROError:
                kind = "add-base-bad"
                expect_reject = True

            def undo():
                s.bases.pop()
        elif code == "rmb":
            i, j = op[1], op[2]; s = rs[i]
            kind = "remove-base"
            line = "%s.remove_bases(%s)" % (var[i], var[j])
            pos = s.bases.index(rs[j])
            s.bases.pop(pos)
            edited = [s, rs[j]]
            try:
                R.check_all_mro()       # removing an edge can make a hierarchy inconsistent, too
            except MROError:
                kind = "remove-base-bad"
                expect_reject = True

            def undo():
                s.bases.insert(pos, rs[j])
        elif code == "rmbs":
            # several bases removed in ONE call
            i, js = op[1], tuple(op[2]); s = rs[i]
            kind = "remove-bases-multi"
            line = "%s.remove_bases(%s)" % (var[i], ", ".join(var[j] for j in js))
            saved_bases = list(s.bases)
            for j in js:
                s.bases.remove(rs[j])
            edited = [s] + [rs[j] for j in js]
            try:
                R.check_all_mro()
            except MROError:
                kind = "remove-bases-multi-bad"
                expect_reject = True

            def undo():
                s.bases[:] = saved_bases
        elif code == "addbs":
            # several bases added in ONE call: appended in the order given
            i, js = op[1], tuple(op[2]); s = rs[i]
            line = "%s.add_bases(%s)" % (var[i], ", ".join(var[j] for j in js))
            saved_bases = list(s.bases)
            s.bases.extend(rs[j] for j in js)
            edited = [s] + [rs[j] for j in js]
            try:
                R.check_all_mro()
                kind = "add-bases-multi"
            except MROError:
                kind = "add-bases-multi-bad"
                expect_reject = True

            def undo():
                s.bases[:] = saved_bases
        elif code == "cache":
            i = op[1]; s = rs[i]
            kind = "set-cache"
            line = "%s.f.is_cached = False" % var[i]
            s.cells["f"].cached = False
            edited = [s]

            def undo():
                s.cells["f"].cached = True
        elif code == "rename":
            i = op[1]; s = rs[i]
            kind = "rename-cells"
            line = "%s.f.rename('h')" % var[i]
            cd = s.cells.pop("f")
            if cd.style == "def":
                pass            # the function is renamed with the cells; source(name) follows the key
            s.cells["h"] = cd
            self.renamed = True
            edited = [s]

            def undo():
                s.cells["f"] = s.cells.pop("h")
        elif code == "delsp":
            i = op[1]; s = rs[i]
            kind = "del-space"
            line = "del %s.%s" % (self.container_of(s), s.name)
            saved = [(o, list(o.bases)) for o in R.all_spaces()]
            edited = [s]
            R.del_space(s)
            del rs[i]

            def undo():
                rs[i] = s
                (s.parent.children if s.parent else R.spaces)[s.name] = s
                for o, b in saved:
                    o.bases = b
        elif code == "newsp":
            bs = op[1]
            k = self.nextidx
            self.nextidx += 1
            name = "S%d" % k
            var[k] = name
            line = "%s = m.new_space(%r, bases=[%s])" % (name, name, ", ".join(var[b] for b in bs))
            ns = R.new_space(name, bases=[rs[b] for b in bs])
            rs[k] = ns
            edited = [ns] + [rs[b] for b in bs]
            try:
                R.check_all_mro()
                kind = "new-space"
            except MROError:
                kind = "new-space-bad"
                expect_reject = True

            def undo():
                R.del_space(ns)
                del rs[k]
        elif code == "rensp":
            i = op[1]; s = rs[i]
            kind = "rename-space"
            oldname = s.name
            line = "%s.rename('R%d')" % (var[i], i)
            R.rename_space(s, "R%d" % i)
            edited = [s]

            def undo():
                R.rename_space(s, oldname)
        else:
            raise ValueError(op)

        e = self.live.do(line)
        if expect_reject:
            undo()
            return kind, edited, ("rejected" if e is not None else "accepted-bad"), line
        if e is None:
            return kind, edited, "ok", line
        undo()
        if isinstance(e, (ValueError, NameError, KeyError, AttributeError)) and _is_refusal(e):
            return kind, edited, "refused", line
        return kind, edited, "crash:" + type(e).__name__, line

    def container_of(self, s):
        return "P" if s.parent is not None else "m"

    def touch(self):
        vs = [self.var[i] for i in sorted(self.rs)]
        self.live.do("touch(%s, items=%r)" % (", ".join(vs), self.spec.items))


def _is_refusal(e):
    """A deliberate refusal of an edit by modelx (raised by an explicit `raise` in modelx.core with a message),
    as opposed to an internal error that escaped."""
    tb = e.__traceback__
    last = None
    while tb is not None:
        last = tb
        tb = tb.tb_next
    if last is None:
        return False
    fr = last.tb_frame
    if "modelx" not in fr.f_code.co_filename:
        return False
    import linecache
    text = linecache.getline(fr.f_code.co_filename, last.tb_lineno)
    return "raise" in text or isinstance(e, ValueError)


# ---------------------------------------------------------------------------------------------- the oracle

def relation(R, edited, victim):
    if not edited:
        return "none"
    e = edited[0]
    if victim is e:
        return "self"
    if e in victim.bases:
        return "direct-sub"
    if R._reaches(victim, e):
        return "indirect-sub"
    if R._reaches(e, victim):
        return "base"
    if len(edited) > 1:
        e2 = edited[1]
        if victim is e2:
            return "self"
        if R._reaches(victim, e2):
            return "sub-of-second"
    return "unrelated"


def check(world, kind, edited, build=False):
    """Compare every live space with the reference model.  Returns the list of findings
    (key, tags, what, probe, expected); key identifies the observed mismatch (space, member, symptom, observed).

    Tags of a failure: op:<kind of the edit that should have produced the expected state>, sym:<symptom>,
    kind:cells|ref, rel:<victim space relative to the edited space>, ndef:<definers of the name in the victim's
    linearisation>, exp-definer:/got-definer:<whose definition is expected / carried, relative to the edit>."""
    R, rs, var, live, sp = world.R, world.rs, world.var, world.live, world.spec
    found = []

    def fail(sym, what, probe, expected, s, name=None, mkind=None, definer=None, extra=()):
        k, ed = kind, edited
        if build:
            k, ed = world.blame(s, name, mkind, definer)
        tags = ["op:" + k, "sym:" + sym, "rel:" + relation(R, ed, s)]
        if build:
            tags.append("phase:build")
        if mkind:
            tags.append("kind:" + mkind)
        if definer is not None:
            mro = R.mro(s)
            ndef = sum(1 for b in mro if name in (b.cells if mkind == "cells" else b.refs))
            tags += ["ndef:%d" % min(ndef, 3), "exp-definer:" + _who(R, ed, s, definer)]
        for x in extra:
            tags.append(x(ed) if callable(x) else x)
        try:
            seen = repr(live.ev(probe))
        except Exception as e:      # the probe is a pure read; a raising read is itself the observation
            seen = "EXC:" + type(e).__name__
        found.append(((s.fullpath, mkind, name, sym, seen), tuple(tags), what, probe, expected))

    CRASH = object()

    def read(expr_text, s, name=None, mkind=None, definer=None):
        """a read the property says succeeds: an exception raised by modelx is a finding, not a checker fault"""
        try:
            return live.ev(expr_text)
        except Exception as e:
            fail("read-crash", "%s raised %s: %s" % (expr_text, type(e).__name__, str(e)[:150]),
                 "val(lambda: %s) != 'EXC'" % expr_text, True, s, name, mkind, definer,
                 extra=("exc:" + type(e).__name__,))
            return CRASH

    for i in sorted(rs):
        s, v = rs[i], var[i]
        nbefore = len(found)
        value_checks = []
        # -- the graph
        want = [b.name for b in s.bases]
        got = read("[b.name for b in %s._direct_bases]" % v, s)
        if got is CRASH:
            continue
        if got != want:
            fail("direct-bases", "%s._direct_bases = %s, expected %s" % (v, got, want),
                 "[b.name for b in %s._direct_bases]" % v, want, s)
        mro = R.mro(s)
        want = [b.name for b in mro[1:]]
        got = read("[b.name for b in %s.bases]" % v, s)
        if got is CRASH:
            continue
        if got != want:
            fail("bases-not-c3", "%s.bases = %s, CPython C3 gives %s" % (v, got, want),
                 "[b.name for b in %s.bases]" % v, want, s, extra=("nbases:%d" % min(len(s.bases), 3),))

        for mkind in ("cells", "ref"):
            exp = R.exp_cells(s) if mkind == "cells" else R.exp_refs(s)
            cont = "cells" if mkind == "cells" else "_own_refs"
            names = read("list(%s.%s)" % (v, cont), s, None, mkind)
            if names is CRASH:
                continue
            for n in exp:
                definer, d = exp[n]
                if n not in names:
                    fail("missing-derived" if definer is not s else "missing-defined",
                         "%s has no %s %r; %s defines it" % (s.fullpath, mkind, n, definer.fullpath),
                         "%r in %s.%s" % (n, v, cont), True, s, n, mkind, definer)
                    continue
                if mkind == "cells":
                    bad = False
                    got = read("(norm(%s.cells[%r].formula.source), %s.cells[%r]._is_derived(), "
                               "%s.cells[%r].is_cached)" % (v, n, v, n, v, n), s, n, mkind, definer)
                    if got is CRASH:
                        continue
                    wsrc = norm(d.source(n))
                    if got[0] != wsrc:
                        bad = True
                        gsrc = live.ev("%s.cells[%r].formula.source" % (v, n))
                        fail("wrong-definer",
                             "%s.%s carries %r; first definer in C3 order is %s with %r"
                             % (s.fullpath, n, gsrc, definer.fullpath, d.source(n)),
                             "norm(%s.cells[%r].formula.source)" % (v, n), wsrc, s, n, mkind, definer,
                             extra=(lambda ed, s=s, n=n, gsrc=gsrc: "got-definer:" + _whose_cells(R, ed, s, n, gsrc),))
                    if got[1] != (definer is not s):
                        bad = True
                        fail("derived-flag",
                             "%s.%s _is_derived() = %s, expected %s" % (s.fullpath, n, got[1], definer is not s),
                             "%s.cells[%r]._is_derived()" % (v, n), definer is not s, s, n, mkind, definer)
                    if got[2] != d.cached:
                        bad = True
                        fail("is-cached-not-copied",
                             "%s.%s is_cached = %s, the definition in %s has %s"
                             % (s.fullpath, n, got[2], definer.fullpath, d.cached),
                             "%s.cells[%r].is_cached" % (v, n), d.cached, s, n, mkind, definer)
                    if not bad:
                        value_checks.append((s, v, n, definer))
                else:
                    got = read("(%s._own_refs[%r], %s._get_object(%r, as_proxy=True).is_derived(), "
                               "%s._get_object(%r, as_proxy=True).refmode)" % (v, n, v, n, v, n), s, n, mkind, definer)
                    if got is CRASH:
                        continue
                    if got[0] != d.value:
                        fail("wrong-definer",
                             "%s.%s = %r; first definer in C3 order is %s with %r"
                             % (s.fullpath, n, got[0], definer.fullpath, d.value),
                             "%s._own_refs[%r]" % (v, n), d.value, s, n, mkind, definer,
                             extra=(lambda ed, s=s, n=n, g=got[0]: "got-definer:" + _whose_ref(R, ed, s, n, g),))
                    if got[1] != (definer is not s):
                        fail("derived-flag",
                             "ref %s.%s is_derived() = %s, expected %s" % (s.fullpath, n, got[1], definer is not s),
                             "%s._get_object(%r, as_proxy=True).is_derived()" % (v, n), definer is not s,
                             s, n, mkind, definer)
                    if got[2] != d.mode:
                        fail("refmode-not-copied",
                             "ref %s.%s refmode = %s, the definition has %s" % (s.fullpath, n, got[2], d.mode),
                             "%s._get_object(%r, as_proxy=True).refmode" % (v, n), d.mode, s, n, mkind, definer)
            for n in names:
                if n not in exp:
                    fail("extra-member",
                         "%s has %s %r which no space of its linearisation defines" % (s.fullpath, mkind, n),
                         "%r in %s.%s" % (n, v, cont), False, s, n, mkind)
        # -- values, when the members of the space are the expected ones
        if len(found) == nbefore:
            for a in value_checks:
                _check_value(world, fail, *a)
        if len(found) > nbefore:
            continue
        # -- the name k as seen from the space (space level before model level)
        vis, want = R.visible_ref(s, "k")
        got = live.ev("val(lambda: %s.k)" % v)
        if (got != want) if vis else (got != "EXC"):
            exp = R.exp_refs(s)
            fail("visible-ref", "%s.k reads %r, expected %r" % (s.fullpath, got, want),
                 "val(lambda: %s.k)" % v, want if vis else "EXC", s, "k", "ref",
                 exp["k"][0] if "k" in exp else None)
    return found


def _check_value(world, fail, s, v, n, definer):
    R, live, sp = world.R, world.live, world.spec
    try:
        want = R.evaluate(s, n)
    except Exception:
        want = "EXC"
    got = live.ev("val(lambda: %s.cells[%r]())" % (v, n))
    if got != want:
        fail("wrong-value",
             "%s.%s() = %r; evaluated from the definitions with names resolved in %s: %r"
             % (s.fullpath, n, got, s.fullpath, want), "val(lambda: %s.cells[%r]())" % (v, n), want,
             s, n, "cells", definer)
    if sp.items and s.params:
        iname = live.ev("val(lambda: %s[1].name)" % v)
        try:
            want = R.evaluate(s, n, space_name=iname)
        except Exception:
            want = "EXC"
        got = live.ev("val(lambda: %s[1].cells[%r]())" % (v, n))
        if got != want:
            if isinstance(want, tuple) and len(want) == 3:
                probe = "val(lambda: %s[1].cells[%r]()[0::2])" % (v, n)
                want_s = want[0::2]
            else:
                probe, want_s = "val(lambda: %s[1].cells[%r]())" % (v, n), want
            fail("itemspace-value",
                 "%s[1].%s() = %r; from the definitions: %r" % (s.fullpath, n, got, want), probe, want_s,
                 s, n, "cells", definer)


def _who(R, edited, victim, definer):
    if definer is victim:
        return "self"
    if edited and definer is edited[0]:
        return "edited"
    if len(edited) > 1 and definer is edited[1]:
        return "edited-base"
    return "other"


def _whose_cells(R, edited, victim, n, gsrc):
    g = norm(gsrc)
    for sp in R.all_spaces():
        for nm, cd in sp.cells.items():
            if norm(cd.source(n)) == g or norm(cd.source(nm)) == g:
                return _who(R, edited, victim, sp)
    return "stale"


def _whose_ref(R, edited, victim, n, value):
    for sp in R.all_spaces():
        if n in sp.refs and sp.refs[n].value == value:
            return _who(R, edited, victim, sp)
    if n in R.grefs and R.grefs[n].value == value:
        return "model"
    return "stale"


# ---------------------------------------------------------------------------------------------- running

def derives_something(R):
    for s in R.all_spaces():
        if len(R.mro(s)) > 1:
            for mk in ("cells", "refs"):
                for n, (definer, _) in R.members(s, mk).items():
                    if definer is not s:
                        return True
    return False


_prefix_keys = {}     # (spec identity, history) -> "clean" | "dead"


def _spec_id(spec):
    return (spec.n, spec.bases, spec.marks(), spec.flags())


def _execute(spec, history):
    """Build and replay on a fresh session.  Returns (world, kind, edited, outcome, line, nontrivial)."""
    reset()
    w = World(spec)
    if not w.build():
        return w, "build", [], "build-error", None, True
    nontrivial = derives_something(w.R)
    kind, edited, outcome, line = "build", [], "ok", None
    for op in history:
        if spec.touch:
            w.touch()
        kind, edited, outcome, line = w.apply(op)
        nontrivial = nontrivial or derives_something(w.R)
        if outcome not in ("ok", "rejected"):
            break
    return w, kind, edited, outcome, line, nontrivial


def prefix_keys(spec, history):
    """'clean' when the invariant holds after `history` and every edit was accepted, else 'dead'."""
    k = (_spec_id(spec), tuple(history))
    r = _prefix_keys.get(k)
    if r is None:
        w, kind, edited, outcome, line, _ = _execute(spec, history)
        if outcome not in ("ok", "rejected"):
            r = "dead"
        else:
            r = "dead" if check(w, kind, edited, build=not history) else "clean"
        if len(_prefix_keys) > 4000:
            _prefix_keys.clear()
        _prefix_keys[k] = r
    return r


def run_case(res, spec, history, all_prefixes=False, extra_tags=()):
    """One case = (initial model, history): the live model is compared with the reference after the last edit.
    Histories whose shorter prefix already violates the invariant are not continued (the prefix is a case of its
    own, where the violation is reported), so every failure is attributed to the edit that produced it.
    `extra_tags`: features of the history (part D), added to the tags of every failure of the case."""
    extra_tags = tuple(extra_tags)
    if all_prefixes:
        for i in range(len(history) + 1):
            if not run_case(res, spec, history[:i], extra_tags=extra_tags):
                return False
        return True
    history = tuple(history)
    if history and prefix_keys(spec, history[:-1]) == "dead":
        # the shorter history (a case of its own) ended in a refused edit or in a state that violates the
        # invariant: what follows cannot be attributed to the last edit
        return False
    w, kind, edited, outcome, line, nontrivial = _execute(spec, history)
    key = spec.key(history)
    text = spec.text(history)
    alive = True
    with res.case(key, nontrivial=nontrivial):
        if outcome == "build-error":
            line, e = w.build_error
            if _is_refusal(e):
                res.monitor("build-refused:" + type(e).__name__, False)
            else:
                res.fail(tags=("op:build", "sym:op-crash", "exc:" + type(e).__name__) + extra_tags,
                         what="%s raised %r" % (line, e),
                         script=w.live.script("attempt(%r)" % line, "ok", drop_last=True), case=(key, text))
            _prefix_keys[(_spec_id(spec), history)] = "dead"
            return False
        if outcome == "refused":
            res.monitor("edit-refused:" + kind, False)
            alive = False
        elif outcome.startswith("crash"):
            res.fail(tags=("op:" + kind, "sym:op-crash", "exc:" + outcome[6:]) + extra_tags,
                     what="%s raised %s" % (line, outcome[6:]),
                     script=w.live.script("attempt(%r)" % line, "ok", drop_last=True), case=(key, text))
            alive = False
        elif outcome == "accepted-bad":
            res.fail(tags=("op:" + kind, "sym:mro-accept") + extra_tags,
                     what="%s was accepted although the hierarchy has no C3 linearisation (CPython refuses it) "
                          "or is cyclic" % line,
                     script=w.live.script("attempt(%r)" % line, "rejected", drop_last=True), case=(key, text))
            alive = False
        elif history:
            res.monitor("edit-refused:" + kind, True)
        # the invariant holds at every moment, also after a refused / rejected edit (after an edit that
        # crashed the two sides are no longer in step: the crash itself is the finding)
        found = [] if outcome.startswith("crash") else check(w, kind, edited, build=not history)
        for fkey, tags, what, probe, expected in found:
            res.fail(tags=tuple(tags) + extra_tags, what=what, script=w.live.script(probe, expected), case=(key, text))
        _prefix_keys[(_spec_id(spec), history)] = "clean" if (alive and not found) else "dead"
    res.sample(text)
    return alive


def histories(spec, length, vocab):
    """All histories of exactly `length` applicable edits (reference side only, all edits assumed accepted)."""
    if length == 0:
        yield ()
        return

    def rec(prefix):
        w = _ref_world(spec, prefix)
        if w is None:
            return
        ops = w.applicable(vocab)
        for op in ops:
            h = prefix + (op,)
            if len(h) == length:
                yield h
            else:
                yield from rec(h)
    yield from rec(())


class _NoLive:
    def __init__(self):
        self.lines = []

    def do(self, line):
        return None

    def ev(self, expr):
        raise RuntimeError


def _ref_world(spec, prefix):
    w = World(spec, live=_NoLive())
    w.build()
    try:
        w.R.check_all_mro()
    except MROError:
        return None
    for op in prefix:
        kind, edited, outcome, line = w.apply(op)
        if kind.endswith("-bad"):
            # the reference rolled it back already (outcome 'accepted-bad' because nothing ran)
            pass
    return w


# ---------------------------------------------------------------------------------------------- part A: C3

def mro_graph_level(res, n):
    """get_mro == CPython C3 for the top node of every ordered-base DAG on n nodes whose lower part is
    consistent (the lower nodes are the tops of the smaller DAGs)."""
    from modelx.core.model import SpaceGraph
    choices = [list(ordered_subsets(range(i))) for i in range(n)]
    out = {"n": 0, "nontrivial": 0, "bad": []}

    def rec(i, g, klasses, chosen):
        if i == n - 1:
            for bs in choices[i]:
                _mro_one(g, klasses, chosen + (bs,), i, bs, out)
            return
        for bs in choices[i]:
            try:
                kl = type("K", tuple(klasses[b] for b in bs) or (object,), {"_i": i})
            except TypeError:
                continue
            g.add_node("N%d" % i)
            for k, b in enumerate(bs):
                g.add_edge("N%d" % b, "N%d" % i, index=k + 1)
            klasses.append(kl)
            rec(i + 1, g, klasses, chosen + (bs,))
            klasses.pop()
            g.remove_node("N%d" % i)
    rec(0, SpaceGraph(), [], ())
    return out


def _mro_one(g, klasses, dag, i, bs, out):
    name = "N%d" % i
    g.add_node(name)
    for k, b in enumerate(bs):
        g.add_edge("N%d" % b, name, index=k + 1)
    try:
        kl = type("K", tuple(klasses[b] for b in bs) or (object,), {"_i": i})
        exp = [c._i for c in kl.__mro__ if c is not object]
    except TypeError:
        exp = None
    try:
        got = [int(x[1:]) for x in g.get_mro(name)]
    except TypeError:
        got = None
    except Exception as e:       # any other exception: not the contract
        got = "EXC:" + type(e).__name__
    out["n"] += 1
    if bs:
        out["nontrivial"] += 1
    if got != exp and len(out["bad"]) < 20:
        out["bad"].append((dag, exp, got))
    elif got != exp:
        out["bad"].append(None)
    g.remove_node(name)


def _mro6_chunk(prefix):
    """worker: all 6-node DAGs whose nodes 1..3 have the given base lists"""
    from modelx.core.model import SpaceGraph
    n = 6
    choices = [list(ordered_subsets(range(i))) for i in range(n)]
    out = {"n": 0, "nontrivial": 0, "bad": []}
    g = SpaceGraph()
    klasses = []
    chosen = ()
    for i, bs in enumerate(prefix):
        try:
            kl = type("K", tuple(klasses[b] for b in bs) or (object,), {"_i": i})
        except TypeError:
            return out
        g.add_node("N%d" % i)
        for k, b in enumerate(bs):
            g.add_edge("N%d" % b, "N%d" % i, index=k + 1)
        klasses.append(kl)
        chosen += (bs,)

    def rec(i, chosen):
        if i == n - 1:
            for bs in choices[i]:
                _mro_one(g, klasses, chosen + (bs,), i, bs, out)
            return
        for bs in choices[i]:
            try:
                kl = type("K", tuple(klasses[b] for b in bs) or (object,), {"_i": i})
            except TypeError:
                continue
            g.add_node("N%d" % i)
            for k, b in enumerate(bs):
                g.add_edge("N%d" % b, "N%d" % i, index=k + 1)
            klasses.append(kl)
            rec(i + 1, chosen + (bs,))
            klasses.pop()
            g.remove_node("N%d" % i)
    rec(len(prefix), chosen)
    out["bad"] = [b for b in out["bad"] if b is not None][:5] + [None] * sum(1 for b in out["bad"] if b is None)
    return out


def mro_script(dag, exp):
    return (HEAD + "from modelx.core.model import SpaceGraph\n"
            "dag = %r   # dag[i] = ordered direct bases of node i\n"
            "g = SpaceGraph()\n"
            "for i, bs in enumerate(dag):\n"
            "    g.add_node('N%%d' %% i)\n"
            "    for k, b in enumerate(bs):\n"
            "        g.add_edge('N%%d' %% b, 'N%%d' %% i, index=k + 1)\n"
            "ks = []\n"
            "try:\n"
            "    for i, bs in enumerate(dag):\n"
            "        ks.append(type('K', tuple(ks[b] for b in bs) or (object,), {'_i': i}))\n"
            "    exp = [c._i for c in ks[-1].__mro__ if c is not object]\n"
            "except TypeError:\n"
            "    exp = None\n"
            "try:\n"
            "    got = [int(x[1:]) for x in g.get_mro('N%%d' %% (len(dag) - 1))]\n"
            "except TypeError:\n"
            "    got = None\n"
            "print('CPython', exp, 'get_mro', got)\n"
            "sys.exit(0 if got == exp else 1)\n" % (dag,))


def report_mro(res, n, out, chunk):
    res.evaluations += out["n"]
    for j in range(out["nontrivial"]):
        res._distinct.add(("mro", n, chunk, j))
    for b in out["bad"]:
        if b is None:
            res.fail(tags=("part:get_mro", "sym:not-cpython-c3", "nodes:%d" % n), what="(more)", script=None)
            continue
        dag, exp, got = b
        sym = ("sym:c3-accepts-inconsistent" if exp is None else
               "sym:c3-refuses-consistent" if got is None else
               "sym:c3-crash" if isinstance(got, str) else "sym:c3-order")
        res.fail(tags=("part:get_mro", sym, "nodes:%d" % n),
                 what="DAG %s: CPython C3 of the top node = %s, SpaceGraph.get_mro = %s" % (dag, exp, got),
                 script=mro_script(dag, exp), case=dag)


def mro_api_level(res, n, build, dags=None):
    """Every labelled ordered-base DAG on n nodes through new_space(bases=…) / add_bases: the hierarchy is
    refused exactly when CPython refuses it, and `space.bases` is CPython's linearisation."""
    for dag in (dags if dags is not None else all_dags(n)):
        if res.expired():
            return False
        # the smaller prefixes are cases of their own: only DAGs whose first n-1 nodes are consistent
        if any(cpython_mro(dag, i) is None for i in range(n - 1)):
            continue
        reset()
        live = Live()
        live.do("m = mx.new_model('M')")
        key = ("api-mro", n, dag, build)
        good = cpython_mro(dag, n - 1) is not None
        with res.case(key, nontrivial=bool(dag[n - 1])):
            if build == "new_space":
                for i in range(n - 1):
                    live.do("S%d = m.new_space('S%d', bases=[%s])" % (i, i, ", ".join("S%d" % b for b in dag[i])))
                line = "S%d = m.new_space('S%d', bases=[%s])" % (n - 1, n - 1,
                                                                  ", ".join("S%d" % b for b in dag[n - 1]))
            else:
                for i in range(n):
                    live.do("S%d = m.new_space('S%d')" % (i, i))
                for i in range(n - 1):
                    if dag[i]:
                        live.do("S%d.add_bases(%s)" % (i, ", ".join("S%d" % b for b in dag[i])))
                line = ("S%d.add_bases(%s)" % (n - 1, ", ".join("S%d" % b for b in dag[n - 1]))
                        if dag[n - 1] else "pass")
            e = live.do(line)
            tags0 = ("part:api-mro", "op:" + ("new-space" if build == "new_space" else "add-base"),
                     "nodes:%d" % n)
            if good and e is not None:
                res.fail(tags=tags0 + ("sym:c3-refuses-consistent",),
                         what="%s raised %r although CPython linearises the hierarchy" % (line, e),
                         script=live.script("attempt(%r)" % line, "ok", drop_last=True), case=key)
            elif not good and e is None:
                res.fail(tags=tags0 + ("sym:mro-accept",),
                         what="%s accepted although CPython refuses the hierarchy" % line,
                         script=live.script("attempt(%r)" % line, "rejected", drop_last=True), case=key)
            top = n if good else n - 1
            if not good and build == "add_bases":
                top = n        # the last space exists, without bases
            for i in range(top):
                if i == n - 1 and not good:
                    want = []
                else:
                    want = ["S%d" % b for b in cpython_mro(dag, i)[1:]]
                probe = "[b.name for b in S%d.bases]" % i
                got = live.ev("val(lambda: %s)" % probe)
                if got != want:
                    res.fail(tags=tags0 + ("sym:bases-not-c3",),
                             what="S%d.bases = %s, CPython C3 gives %s (DAG %s)" % (i, got, want, dag),
                             script=live.script(probe, want), case=key)
    return True


# ---------------------------------------------------------------------------------------------- enumeration

def placements(n, level):
    """(fdef, kdef, gdef) with cells and refs defined in at most two of the spaces."""
    nodes = range(n)
    one_two = [c for r in (1, 2) for c in itertools.combinations(nodes, r)]
    out = []
    # cells family
    for f in one_two:
        out.append((f, (), ()))
        if level >= 1:
            out.append((f, (), (f[0],)))
            for k in nodes:
                out.append((f, (k,), (f[0],)))
    # refs family
    for k in one_two:
        out.append(((), k, ()))
    return out


def canonical_specs(n, level, **flags):
    seen = set()
    for dag in all_dags(n):
        if any(cpython_mro(dag, i) is None for i in range(n)):
            continue
        for f, k, g in placements(n, level):
            sp = Spec(n, dag, f, k, g, **flags)
            c = canon(n, sp.bases, sp.marks())
            if c in seen:
                continue
            seen.add(c)
            yield sp


VARIANTS = (dict(touch=False, items=False), dict(touch=True, items=True))


# ---------------------------------------------------------------------------------------------- part D
# Histories on the ordered base LIST of one space: a space T with 3-4 direct bases loses some of them (one
# remove_bases call or several) and gains bases afterwards (bases removed before, or a space that never was
# a base).  The linearisation must be the one of a fresh space created with the same ordered direct bases
# (survivors in their original order, then the added ones in the order added) - which is what the reference
# model derives from scratch.

def baselist_spec(nb, structure, **flags):
    """(spec, top, direct bases of top, spare).  Every space but T defines f and k, so the first space of
    T's linearisation is visible in T.f / T.k as well as in T.bases; g (calling f) comes from the first base.
    structure: 'roots'     - the bases and the spare space have no bases themselves
               'shared'    - all of them derive from one common space G (G must stay last)
               'spare-sub' - the spare space derives from the LAST direct base (adding it while that base is
                             still a base of T, behind it, has no linearisation and must be refused)"""
    if structure == "shared":
        bases = [()] + [(0,)] * (nb + 1)
        direct = tuple(range(1, nb + 1))
        spare = nb + 1
    else:
        bases = [()] * nb + [((nb - 1,) if structure == "spare-sub" else ())]
        direct = tuple(range(nb))
        spare = nb
    top = len(bases)
    bases.append(direct)
    others = tuple(range(top))
    # members-first: modelx declines to define k in a base when a sub already derives k from another base
    return (Spec(top + 1, bases, fdef=others, kdef=others, gdef=(direct[0],), order="members-first", **flags),
            top, direct, spare)


def _cur_bases(spec, top, h):
    w = _ref_world(spec, h)
    inv = {id(v): k for k, v in w.rs.items()}
    return [inv[id(b)] for b in w.rs[top].bases]


def baselist_histories(spec, top, direct, spare, rounds=1):
    """{history: features}: every prefix of every remove-then-add history on T's base list.
    Round 1: remove any non-empty subset of the direct bases (|R| >= 2: in one call, one by one in list order,
    one by one in reverse order), then add one or two spaces out of (removed ones + spare) - two of them one by
    one or in one call.  Round 2 (rounds=2): remove 1-2 of the present bases in one call, add one space."""
    pool = tuple(direct) + (spare,)
    out = {}

    def removals(cur, light):
        for r in range(1, (min(2, len(cur)) if light else len(cur)) + 1):
            for rm in itertools.combinations(cur, r):
                if r == 1:
                    yield (("rmb", top, rm[0]),)
                else:
                    yield (("rmbs", top, rm),)
                    if not light:
                        yield tuple(("rmb", top, j) for j in rm)
                        yield tuple(("rmb", top, j) for j in reversed(rm))

    def adds(cands, light):
        for j in cands:
            yield (("addb", top, j),)
        if not light:
            for a, b in itertools.permutations(cands, 2):
                yield (("addb", top, a), ("addb", top, b))
                yield (("addbs", top, (a, b)),)

    def register(h, start):
        for i in range(start, len(h) + 1):
            p = h[:i]
            if p not in out:
                nrem = sum((len(o[2]) if o[0] == "rmbs" else 1) for o in p[:-1] if o[0] in ("rmb", "rmbs"))
                out[p] = ("hist:base-list", "removed-before:%d" % min(nrem, 3))

    def rec(prefix, left):
        light = left < rounds
        cur = _cur_bases(spec, top, prefix)
        for rops in removals(cur, light):
            h = prefix + rops
            cur2 = [j for j in cur if not any(j == o[2] or (o[0] == "rmbs" and j in o[2]) for o in rops)]
            for aops in adds([j for j in pool if j not in cur2], light):
                h2 = h + aops
                register(h2, len(prefix) + 1)
                if left > 1:
                    rec(h2, left - 1)
    rec((), rounds)
    return out


def baselist_tasks(thorough):
    """'cases' tasks of part D (one list of histories, shortest first, per initial model)."""
    if thorough:
        plan = [(3, st, var, build, 2 if (st, build) == ("roots", "new_space") else 1)
                for st in ("roots", "shared", "spare-sub") for var in VARIANTS
                for build in ("new_space", "add_bases")]
        plan += [(4, st, var, build, 1)
                 for st in ("roots", "shared", "spare-sub") for var in VARIANTS
                 for build in ("new_space", "add_bases")]
    else:
        plan = [(3, st, var, build, 1)
                for st in ("roots", "shared", "spare-sub") for var in VARIANTS
                for build in (("new_space", "add_bases") if st == "roots" else ("new_space",))]
        plan += [(4, "roots", VARIANTS[1], "new_space", 1)]
    tasks, desc = [], []
    for nb, st, var, build, rounds in plan:
        spec, top, direct, spare = baselist_spec(nb, st, build=build, **var)
        hs = baselist_histories(spec, top, direct, spare, rounds)
        items = sorted(hs.items(), key=lambda kv: len(kv[0]))       # stable: prefixes before extensions
        for ch in chunks([(spec, h, False, tags) for h, tags in items], 60):
            tasks.append(("cases", ch, "base-list histories, %d direct bases (%s)" % (nb, st)))
        desc.append((nb, st, "touch" if var["touch"] else "no-read", build, rounds, len(items)))
    return tasks, desc


def work(task, sub):
    """worker: one batch of cases"""
    sub.exhaustive = True
    what = task[0]
    if what == "hist":
        _, sp, length, vocab = task
        for h in histories(sp, length, vocab):
            if sub.expired():
                sub.exhaustive = False
                sub.notes.append("budget ended in layer (edits=%d, spaces=%d)" % (length, sp.n))
                break
            run_case(sub, sp, h)
    elif what == "cases":
        for item in task[1]:
            sp, h, full = item[:3]
            if sub.expired():
                sub.exhaustive = False
                sub.notes.append("budget ended in " + task[2])
                break
            run_case(sub, sp, h, all_prefixes=full, extra_tags=item[3] if len(item) > 3 else ())
    elif what == "api":
        _, n, build, dags = task
        if not mro_api_level(sub, n, build, dags):
            sub.exhaustive = False
            sub.notes.append("budget ended in api-level C3, %d spaces" % n)
    elif what == "mro6":
        if sub.expired():
            sub.exhaustive = False
            sub.notes.append("budget ended in get_mro on 6 nodes")
            return
        report_mro(sub, 6, _mro6_chunk(task[1]), task[1])
    else:
        raise ValueError(task)


def chunks(seq, size):
    seq = list(seq)
    for i in range(0, len(seq), size):
        yield seq[i:i + size]


def run(res, tier, seed):
    from c03_pool import run_parallel
    thorough = tier != "quick"
    if thorough:
        # (edits, spaces, vocabulary level, placement level, variants)
        plan = [(1, 2, 2, 1, VARIANTS), (1, 3, 2, 1, VARIANTS), (2, 2, 2, 1, VARIANTS), (1, 4, 2, 1, VARIANTS),
                (2, 3, 1, 0, VARIANTS), (2, 3, 0, 1, VARIANTS[1:]), (3, 2, 1, 0, VARIANTS[1:])]
        b0 = [(2, 1), (3, 1), (4, 1)]
        nsample = 12000
    else:
        plan = [(1, 2, 2, 1, VARIANTS), (1, 3, 2, 1, VARIANTS), (2, 2, 1, 1, VARIANTS),
                (1, 4, 1, 0, VARIANTS[1:])]
        b0 = [(2, 1), (3, 1), (4, 0)]
        nsample = 700
    res.bound = (
        "A: SpaceGraph.get_mro vs CPython C3 on all ordered-base DAGs on <= %d nodes; space.bases / refusal via "
        "new_space and add_bases on all DAGs on <= %d spaces.  B: INH after the build (4 build orders) on all "
        "DAGs on <= 4 spaces, and after every edit of all histories with (edits, spaces, vocabulary level, "
        "placement level) in %s; members: cells f, cells g calling f, ref k (plus model-level k), f and k defined "
        "in <= 2 spaces.  C: %d seeded random histories (3-5 spaces, 2-5 edits, nested layouts, def-style "
        "formulas, 3 reference modes, checked after every edit).  D: base-list histories of a space T with 3 "
        "or 4 ordered direct bases plus one spare space (all defining f and k; bases unrelated / with a common "
        "base / spare derived from the last base): every non-empty subset of the bases removed (one "
        "remove_bases call, one by one in both orders), then 1-2 of (removed + spare) added (one by one / one "
        "add_bases call)%s; INH checked after every prefix."
        % (6 if thorough else 5, 5 if thorough else 4, [p[:4] for p in plan], nsample,
           ", then a second round (1-2 removed in one call, 1 added) for 3 unrelated bases" if thorough
           else "; quick: 4 bases only unrelated, evaluated variant"))
    res.rule = (
        "DAGs: bases of node i = every ordered selection of nodes < i (every ordered-base DAG is isomorphic to "
        "one); in part B (DAG, placement) pairs are reduced up to relabelling.  Edits: define/redefine/override "
        "f, delete/un-override f, set/override/change k, delete k, add_bases and remove_bases (also the ones CPython "
        "refuses); vocabulary >= 1 adds is_cached=False, rename f, delete a space, new sub space of one space; "
        ">= 2 adds new sub space of two spaces and renaming a space.  Placement level 0: f in 1-2 spaces or k in "
        "1-2 spaces; level 1 adds g and k in one space next to f.  Variants: no read before the last edit / all "
        "cells and ItemSpace [1] of every space evaluated before every edit.  Oracle: pure-Python model of the "
        "definitions, CPython C3, first definer wins, cache-free evaluator resolving names in the sub.  "
        "Part D: the expected `bases` of T = C3 of (surviving direct bases in their original order + added "
        "ones in the order added) = what a fresh space created with these ordered bases has.  "
        "Non-trivial: some space derives a member from a base before or after an edit (part A: the node has a "
        "base).  distinct = canonical (DAG, placement, flags, history).")
    res.exhaustive = True

    # ---- A: C3, graph level (in process for <= 5 nodes)
    for n in (1, 2, 3, 4, 5):
        report_mro(res, n, mro_graph_level(res, n), ())

    tasks = []
    # ---- A: through the API
    for n in ((1, 2, 3, 4, 5) if thorough else (1, 2, 3, 4)):
        dags = [d for d in all_dags(n) if all(cpython_mro(d, i) is not None for i in range(n - 1))]
        for build in ("new_space", "add_bases"):
            for ch in chunks(dags, 150):
                tasks.append(("api", n, build, ch))
    # ---- B0: build only, four build orders
    for n, plevel in b0:
        for build in ("new_space", "add_bases"):
            for order in ("subs-first", "members-first"):
                specs = canonical_specs(n, plevel, build=build, order=order, touch=False, items=False)
                for ch in chunks([(sp, (), False) for sp in specs], 40):
                    tasks.append(("cases", ch, "build-only layer, %d spaces" % n))
    # ---- D (small and directed, hence before the broad layers): remove-then-add histories on the base list of a space with 3-4 direct bases
    dtasks, ddesc = baselist_tasks(thorough)
    tasks += dtasks
    res.notes.append("base-list histories (direct bases, structure, variant, build, rounds, histories): %s" % ddesc)
    # ---- B1..B3: histories
    for length, n, vocab, plevel, variants in plan:
        for var in variants:
            for sp in canonical_specs(n, plevel, **var):
                tasks.append(("hist", sp, length, vocab))
    # ---- C: seeded sampling beyond the bound
    rng = res.rng
    sampled = []
    for _ in range(nsample):
        n = rng.choice((3, 4, 4, 5))
        dag = tuple(tuple(rng.sample(range(i), rng.choice([0, 1, 1, 2, 2, 3][:i + 1]) if i else 0)) for i in range(n))
        if any(cpython_mro(dag, i) is None for i in range(n)):
            continue
        f = rng.sample(range(n), rng.choice((1, 2, 2)))
        k = rng.sample(range(n), rng.choice((0, 1, 2)))
        g = [f[0]] if rng.random() < 0.5 else []
        touch = rng.random() < 0.7
        sp = Spec(n, dag, f, k, g, touch=touch, items=touch and rng.random() < 0.5,
                  style=rng.choice(("lambda", "def")), layout=rng.choice(("flat", "nested", "mixed")),
                  refmode=rng.choice(("auto", "absolute", "relative")),
                  build=rng.choice(("new_space", "add_bases")),
                  order=rng.choice(("subs-first", "members-first")), gk=rng.random() < 0.7)
        length = rng.choice((2, 3, 3, 4, 5))
        h = ()
        for _i in range(length):
            w = _ref_world(sp, h)
            ops = w.applicable(2) if w is not None else []
            if not ops:         # every space was deleted
                break
            h = h + (rng.choice(ops),)
        sampled.append((sp, h, True))
    res.notes.append("sampled histories generated: %d" % len(sampled))
    sample_tasks = [("cases", ch, "sampled histories") for ch in chunks(sampled, 25)]
    if thorough:
        choices = [list(ordered_subsets(range(i))) for i in range(4)]
        mro6 = [("mro6", p) for p in itertools.product(*choices)]
        # cheap and broad parts first: if the budget ends early it ends in the largest exhaustive layers
        big = [t for t in tasks if t[0] == "hist" and (t[2], t[1].n) in ((1, 4), (2, 3), (3, 2))]
        tasks = [t for t in tasks if t not in big] + mro6 + sample_tasks + big
    else:
        # quick: keep a share of the budget for the sampled part
        tasks = tasks + sample_tasks
    run_parallel(res, work, tasks, margin=0.93)
    if res.expired():
        res.exhaustive = False
    # edits that are valid by the reference model but that modelx declined (state unchanged, invariant checked):
    # not violations of C03, only cases the bound could not evaluate - reported as a note
    refused = {}
    for k in list(res.monitors):
        if k.startswith("edit-refused:") or k.startswith("build-refused:"):
            m = res.monitors.pop(k)
            if m["failed"]:
                refused[k.split(":", 1)[1]] = "%d of %d" % (m["failed"], m["evaluations"])
    if refused:
        res.notes.append("valid edits declined by modelx (history not continued): %s" % refused)


if __name__ == "__main__":
    main("C03", run)
