"""Fault injection layer of the C14 driver.

While armed, every top-level call (depth 0) of a file-system / archive / pickling primitive made by the
code under test is a *fault point*: it is logged as (label, call site) and the call with index
`fail_at` raises the chosen exception instead of (mode 'before') or after (mode 'after') doing its work.
`fail_at` may also be a triple (label, call site, n): the n-th (from 0) call with that label made from that site -
a name of the fault point that stays meaningful when the operation is repeated in another state of the files.
Calls made from inside an intercepted primitive are not fault points (they are the primitive's business),
calls made inside `tempfile.TemporaryDirectory()` / `mkdtemp()` are shielded (the statement does not cover
a failing creation of the scratch directory).
"""
import builtins, io, os, sys, shutil, zipfile, pathlib, pickle, tempfile, errno, time, functools

PATH_METHODS = ["exists", "is_dir", "is_file", "mkdir", "rename", "replace", "unlink", "open", "resolve", "rmdir",
                "iterdir", "stat", "lstat", "touch", "read_text", "write_text", "read_bytes", "write_bytes", "glob",
                "rglob", "samefile", "is_symlink", "symlink_to", "chmod"]
SHUTIL_FUNCS = ["rmtree", "move", "copyfile", "copy", "copy2", "copytree", "make_archive", "unpack_archive"]
ZIP_METHODS = ["__init__", "writestr", "write", "open", "close", "namelist", "read", "extract", "extractall", "infolist",
               "getinfo", "testzip"]
OS_FUNCS = ["walk", "remove", "unlink", "rename", "replace", "makedirs", "mkdir", "listdir", "rmdir", "scandir"]
NO_AFTER = {"Path.rename", "Path.replace", "shutil.move", "os.rename", "os.replace"}     # assumed atomic (DESIGN C14 **A**)


class Injector:
    def __init__(self):
        self.armed = False
        self.depth = 0
        self.log = []
        self.fail_at = None
        self.mode = "before"
        self.flavour = "EIO"
        self.fired = None
        self.seen = 0
        self._orig = []
        self.installed = False

    # ------------------------------------------------------------------ exceptions
    def make_exc(self, label):
        if label.startswith("pickle."):
            if self.flavour == "EIO":
                return (pickle.PicklingError if "dump" in label else pickle.UnpicklingError)("injected fault at " + label)
        if self.flavour == "ENOENT":
            return FileNotFoundError(errno.ENOENT, "injected fault at " + label)
        if self.flavour == "EACCES":
            return PermissionError(errno.EACCES, "injected fault at " + label)
        return OSError(errno.EIO, "injected fault at " + label)

    # ------------------------------------------------------------------ wrapping
    def _site(self):
        f = sys._getframe(2)
        while f is not None and ("c14_lib" in f.f_code.co_filename):
            f = f.f_back
        # first frame inside modelx, walking outwards
        g = f
        while g is not None and "/modelx/" not in g.f_code.co_filename.replace(os.sep, "/"):
            g = g.f_back
        h = g or f
        return "%s:%s" % (os.path.basename(h.f_code.co_filename), h.f_code.co_name)

    def _make(self, orig, label, shield=False):
        inj = self

        @functools.wraps(orig, assigned=("__name__", "__doc__"), updated=())
        def w(*a, **k):
            if not inj.armed or inj.depth > 0:
                return orig(*a, **k)
            if shield:
                inj.depth += 1
                try:
                    return orig(*a, **k)
                finally:
                    inj.depth -= 1
            idx = len(inj.log)
            entry = (label, inj._site())
            inj.log.append(entry)
            if type(inj.fail_at) is tuple:
                hit = False
                if entry == inj.fail_at[:2] and inj.fired is None:
                    inj.seen += 1
                    hit = inj.seen == inj.fail_at[2] + 1
            else:
                hit = idx == inj.fail_at
            if hit and (inj.mode == "before" or label in NO_AFTER):
                inj.fired = (label, inj.log[-1][1])
                if label == "ZipFile.close" and a and getattr(a[0], "fp", None) is not None:
                    # a close that fails still gives up the file: the handle is released without the central
                    # directory being written (leaving the object open would let a later __del__ write it)
                    z = a[0]
                    inj.depth += 1
                    try:
                        if hasattr(z, "_didModify"):
                            z._didModify = False
                        orig(*a, **k)
                    except Exception:
                        pass
                    finally:
                        inj.depth -= 1
                raise inj.make_exc(label)
            inj.depth += 1
            try:
                r = orig(*a, **k)
            finally:
                inj.depth -= 1
            if hit:
                inj.fired = (label, inj.log[-1][1])
                raise inj.make_exc(label)
            return r
        return w

    def _patch(self, owner, name, label, shield=False):
        if name not in getattr(owner, "__dict__", {}) and not hasattr(owner, name):
            return
        try:
            raw = owner.__dict__[name]
        except (KeyError, AttributeError):
            raw = getattr(owner, name)
        func = raw
        if isinstance(raw, (staticmethod, classmethod)):
            return
        self._orig.append((owner, name, raw, name in getattr(owner, "__dict__", {})))
        setattr(owner, name, self._make(func, label, shield))

    def install(self):
        if self.installed:
            return
        from modelx.serialize import custom_pickle
        for n in PATH_METHODS:
            self._patch(pathlib.Path, n, "Path." + n)
        for n in SHUTIL_FUNCS:
            self._patch(shutil, n, "shutil." + n)
        for n in ZIP_METHODS:
            self._patch(zipfile.ZipFile, n, "ZipFile." + n)
        self._patch(zipfile, "is_zipfile", "zipfile.is_zipfile")
        for n in OS_FUNCS:
            self._patch(os, n, "os." + n)
        wopen = self._make(io.open, "open")
        self._orig.append((io, "open", io.open, True))
        self._orig.append((builtins, "open", builtins.open, True))
        io.open = wopen
        builtins.open = wopen
        for cls in (custom_pickle.ModelPickler, custom_pickle.IOSpecPickler):
            self._orig.append((cls, "dump", None, False))
            cls.dump = self._make(pickle.Pickler.dump, "pickle.dump")
        for cls in (custom_pickle.ModelUnpickler, custom_pickle.IOSpecUnpickler):
            self._orig.append((cls, "load", None, False))
            cls.load = self._make(pickle.Unpickler.load, "pickle.load")
        self._patch(tempfile.TemporaryDirectory, "__init__", "TemporaryDirectory()", shield=True)
        self._patch(tempfile, "mkdtemp", "mkdtemp", shield=True)
        self._orig.append((time, "sleep", time.sleep, True))
        real_sleep = time.sleep
        time.sleep = lambda s: None if self.armed else real_sleep(s)
        self.installed = True

    def uninstall(self):
        for owner, name, raw, own in reversed(self._orig):
            if own:
                setattr(owner, name, raw)
            else:
                try:
                    delattr(owner, name)
                except AttributeError:
                    pass
        self._orig = []
        self.installed = False

    # ------------------------------------------------------------------ running
    def run(self, func, fail_at=None, mode="before", flavour="EIO"):
        """Run func() armed. Returns (result, exception, log, fired)."""
        self.log, self.fail_at, self.mode, self.flavour, self.fired, self.depth = [], fail_at, mode, flavour, None, 0
        self.seen = 0
        self.armed = True
        try:
            try:
                return func(), None, self.log, self.fired
            except Exception as e:
                return None, e, self.log, self.fired
        finally:
            self.armed = False
            self.depth = 0


INJ = Injector()
