"""Shared helpers for the bounded stand-in drivers (run under /venv/bin/python against /repo).

A driver is a module drivers/<id>.py exposing

    def run(res: Result, tier: str, seed: int) -> None

It enumerates cases (models / histories / inputs) inside a stated bound, evaluates the
property's contract on the REAL modelx objects and reports through `res`:

    res.bound = "…"                      # the bound, in words
    res.rule  = "…"                      # how cases are enumerated, what makes one non-trivial/distinct
    with res.case(key, nontrivial=bool): # one evaluation; key = hashable description of the case
        ...
    res.fail(tags, what, script=None, case=None)   # a contract violation on the real code
    res.sample(obj)                      # a few written-out cases for the evidence file
    res.monitor(name, ok)                # run-time monitor of a trusted/assumed contract
    res.expired()                        # True when the time budget is used up -> stop enumerating

`tags` is a sorted tuple of short strings naming the *features of the failing case* (kind of
edit, kind of dependency path, flags …).  known_findings.json entries match on a subset of
tags, so a failure with other features is still reported as a violation.
`script` is a self-contained Python program (text) that reproduces the failure on the real
code and exits 1 when the property is violated, 0 otherwise; it becomes the replay file.

Nothing here is counted as proved.
"""
import json, os, sys, time, random, itertools, traceback, contextlib, hashlib

REPO = os.environ.get("MODELX_VERIF_REPO", "/repo")
if REPO != "/repo":
    sys.path.insert(0, REPO)          # self-test on a scratch copy
import warnings
warnings.filterwarnings("ignore")
import modelx as mx                    # noqa: E402

assert os.path.realpath(mx.__file__).startswith(os.path.realpath(REPO)), (mx.__file__, REPO)


class Result:
    def __init__(self, prop, tier, seed, budget_s):
        self.prop, self.tier, self.seed = prop, tier, seed
        self.t0 = time.time(); self.budget_s = budget_s
        self.evaluations = 0
        self._distinct = set()
        self.failures = []            # kept (capped per tag set)
        self.failure_counts = {}      # tags -> count
        self.samples = []
        self._auto = []
        self.monitors = {}
        self.bound = ""; self.rule = ""; self.exhaustive = False
        self.notes = []
        self.rng = random.Random(seed)

    # ---- counting
    @contextlib.contextmanager
    def case(self, key, nontrivial=True):
        self.evaluations += 1
        if nontrivial:
            self._distinct.add(hashlib.md5(repr(key).encode()).hexdigest())
            self._auto_sample(key)
        yield

    def _auto_sample(self, key):
        # a few of the cases actually explored, written out (used when the driver does not call sample() itself)
        if len(self._auto) < 4:
            r = repr(key)
            self._auto.append(r if len(r) < 600 else r[:600] + "...")

    def count(self, key, nontrivial=True):
        self.evaluations += 1
        if nontrivial:
            self._distinct.add(hashlib.md5(repr(key).encode()).hexdigest())
            self._auto_sample(key)

    def expired(self):
        return time.time() - self.t0 > self.budget_s

    def sample(self, obj, cap=5):
        if len(self.samples) < cap:
            self.samples.append(obj)

    def monitor(self, name, ok):
        m = self.monitors.setdefault(name, {"evaluations": 0, "failed": 0})
        m["evaluations"] += 1
        if not ok:
            m["failed"] += 1

    def fail(self, tags, what, script=None, case=None, cap=3):
        tags = tuple(sorted(set(tags)))
        n = self.failure_counts.get(tags, 0)
        self.failure_counts[tags] = n + 1
        if n < cap:
            self.failures.append({"tags": list(tags), "what": what, "script": script,
                                  "case": repr(case) if case is not None else None})

    def to_json(self):
        return {
            "property": self.prop, "tier": self.tier, "seed": self.seed,
            "bound": self.bound, "rule": self.rule, "exhaustive": self.exhaustive,
            "evaluations": self.evaluations, "distinct_nontrivial": len(self._distinct),
            "samples": self.samples or self._auto, "monitors": self.monitors, "notes": self.notes,
            "failures": self.failures,
            "failure_counts": [{"tags": list(k), "count": v} for k, v in sorted(self.failure_counts.items())],
            "wall_s": round(time.time() - self.t0, 2),
            "budget_exhausted": self.expired(),
        }


# ---------------------------------------------------------------- modelx helpers

def reset():
    """Close every open model and restore global options (fresh session state)."""
    for m in list(mx.get_models().values()):
        try:
            m.close()
        except Exception:
            pass
    try:
        mx.set_recalc(False)
    except Exception:
        pass
    try:
        mx.use_formula_error(True)
        mx.handle_formula_error(False)
    except Exception:
        pass


def sysimpl():
    from modelx.core import mxsys
    return mxsys


def src(text):
    """Dedent helper for formula sources."""
    import textwrap
    return textwrap.dedent(text).strip("\n")


def is_iface(v):
    from modelx.core.base import Interface
    return isinstance(v, Interface)


def describe_space(s):
    """Public description of a UserSpace (definitions only, no computed values)."""
    d = {
        "name": s.name,
        "bases": [b.fullname for b in s._direct_bases] if hasattr(s, "_direct_bases") else None,
        "mro": [b.fullname for b in s.bases],
        "formula": s.formula.source if s.formula is not None else None,
        "doc": s.doc,
        "cells": {},
        "refs": {},
        "spaces": {},
    }
    for n, c in s.cells.items():
        d["cells"][n] = {
            "formula": c.formula.source if c.formula is not None else None,
            "params": tuple(c.parameters) if c.parameters is not None else None,
            "allow_none": c.allow_none, "is_cached": c.is_cached,
            "derived": c._is_derived(), "doc": c.doc,
            "inputs": sorted(((k, repr(c._impl.data[k])) for k in c._impl.input_keys), key=repr),
        }
    for n, r in s._own_refs.items() if hasattr(s, "_own_refs") else []:
        d["refs"][n] = describe_ref(s, n)
    for n, ch in s.named_spaces.items():
        d["spaces"][n] = describe_space(ch)
    return d


def describe_ref(parent, name):
    impl = parent._impl.own_refs[name]
    v = impl.interface
    if is_iface(v):
        val = ("iface", type(v).__name__, v.fullname if v._is_valid() else "<deleted>")
    else:
        val = ("value", repr(v))
    return {"value": val, "refmode": impl.refmode, "derived": impl.is_derived()}


def describe_model(m):
    d = {"name": m.name, "doc": m.doc, "refs": {}, "spaces": {}}
    for n in m._impl.global_refs:
        if n == "__builtins__":
            continue
        d["refs"][n] = describe_ref(m, n)
    for n, s in m.spaces.items():
        d["spaces"][n] = describe_space(s)
    return d


def sanity(res=None):
    """The library's own consistency self-checks (System/Model/SpaceManager/ReferenceManager/IOManager)."""
    try:
        sysimpl()._check_sanity()
        return None
    except AssertionError as e:
        return "".join(traceback.format_exception_only(type(e), e)).strip() + " @ " + \
            traceback.format_tb(e.__traceback__)[-1].strip().replace("\n", " | ")


def main(prop, run):
    import argparse
    ap = argparse.ArgumentParser()
    ap.add_argument("--tier", default="quick")
    ap.add_argument("--seed", type=int, default=0)
    ap.add_argument("--out", default=None)
    ap.add_argument("--budget", type=float, default=None)
    a = ap.parse_args()
    budget = a.budget if a.budget else (75 if a.tier == "quick" else 900)
    res = Result(prop, a.tier, a.seed, budget)
    crash = None
    try:
        run(res, a.tier, a.seed)
    except BaseException as e:      # a crash of the driver is a checker fault, not a violation
        crash = "".join(traceback.format_exception(type(e), e, e.__traceback__))
    finally:
        try:
            reset()
        except Exception:
            pass
    out = res.to_json()
    out["crash"] = crash
    txt = json.dumps(out, indent=1, default=repr)
    if a.out:
        with open(a.out, "w") as f:
            f.write(txt)
    else:
        print(txt)
    sys.exit(3 if crash else 0)
