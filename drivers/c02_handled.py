"""C02 world "caught-failure": formulas that read a reference, THEN call a cells that raises, catch the exception
themselves (try/except) and return a value.  The value depends on the reference read before the failure, so a later
change of that reference must not leave it stale.

Importing this module appends the world to c02_worlds.WORLDS (c02.py imports it right after c02_worlds).

Systematic axes of the queries
  * how the reference is read before the failing call: attribute path through a reference bound to a space (pp.rate),
    through the model (_model.P.rate, _model.g), through the own space (_space.w), through a child space (Ch.y),
    plain name (w, g);
  * where the read stands: before the try, inside the try before the call, after the handler (control), in a CALLER
    of the handling formula (outer frame: reads, then calls the handler), in a caller in another space;
  * what fails: a cached cells, an uncached cells, a cells two calls deep, the same handler failing twice;
  * the handling formula cached / uncached; the argument that takes the error path (7) and one that does not (1).

The edits change the REFERENCES only (and clear values).  Nothing here edits a failing callee or anything a failing
callee reads: whether and how the callee fails depends on its argument alone.  (A handler keeps no dependency on
the callee whose failure it handled - a separate, known matter - so such edits are deliberately not part of this
world; the tag of that matter is not used here.)
"""
import c02_worlds as W
from c02_worlds import B, e, sref, sdel, mref

CAUGHT = "then:callee-failure-caught"


def handler(name, before="", intry="", after="", callee="bad", ret="base + extra", params="k", arg="k", twice=False):
    """def NAME(k): [base = <before>]; try: [base = <intry>]; extra = CALLEE(k) except KeyError: extra = 0;
    [base = <after>]; return <ret>"""
    L = ["def %s(%s):" % (name, params)]
    if before:
        L.append("    base = " + before)
    L.append("    try:")
    if intry:
        L.append("        base = " + intry)
    L.append("        extra = %s(%s)" % (callee, arg))
    L.append("    except KeyError:")
    L.append("        extra = 0")
    if twice:
        L += ["    try:", "        extra += %s(%s + 1)" % (callee, arg), "    except KeyError:", "        extra += 1"]
    if after:
        L.append("    base = " + after)
    L.append("    return " + ret)
    return "\n".join(L)


def hcells(space, name, cached=True, **kw):
    return "%s.new_cells(%r, formula=%r%s)" % (space, name, handler(name, **kw), "" if cached else ", is_cached=False")


b = B("caught-failure")
b.add("m.g = 2",
      "P = m.new_space('P')", "P.rate = 1", "P2 = m.new_space('P2')", "P2.rate = 9",
      "S = m.new_space('S')", "S.pp = P", "S.w = 3", "Ch = S.new_space('Ch')", "Ch.y = 4",
      # the failing callees: the outcome depends on the argument alone
      W.cells("S", "bad", "{1: 10, 2: 20}[k]", style="def", params="k"),
      W.cells("S", "badu", "{1: 30, 2: 40}[k]", params="k", cached=False),
      W.cells("S", "bad2", "bad(k) + 5", params="k"),
      # --- the handlers ---------------------------------------------------------------------------------
      hcells("S", "prem", before="pp.rate * 100"),
      hcells("S", "pm", before="_model.P.rate * 100"),
      hcells("S", "pg", before="_model.g * 100"),
      hcells("S", "ps", before="_space.w * 100"),
      hcells("S", "pc", before="Ch.y * 100"),
      hcells("S", "pn", before="w * 100 + g"),
      hcells("S", "pin", intry="pp.rate * 100"),
      hcells("S", "paf", after="pp.rate * 100"),
      hcells("S", "pu", before="pp.rate * 100", callee="badu"),
      hcells("S", "pd", before="pp.rate * 100", callee="bad2"),
      hcells("S", "p2", before="pp.rate * 100 + _model.g * 1000", twice=True),
      hcells("S", "pru", cached=False, before="pp.rate * 100"),
      W.cells("S", "pruc", "pru(7) + 1"),
      # callers of a handler that read the reference themselves before the call (outer frames)
      W.cells("S", "tot", "pp.rate * 1000 + prem(7) + prem(1)", style="def"),
      W.cells("S", "totg", "_model.g * 1000 + ps(7)"),
      W.cells("S", "tot2", "_space.w * 10000 + tot()"),
      "T = m.new_space('T')",
      W.cells("T", "tt", "_model.P.rate * 1000 + _model.S.pg(7)", style="def"),
      W.cells("T", "tq", "_model.S.prem(7) + 5000"),
      # the handler inside an ItemSpace
      "Q = m.new_space('Q', formula=lambda i: None)", "Q.pp = P",
      W.cells("Q", "bad", "{1: 10}[k]", params="k"),
      hcells("Q", "c", before="pp.rate * 100 + i", params="", arg="i"))
AT = "attr-refd-space-ref"
b.q("m.S.prem(7)", AT, CAUGHT)
b.q("m.S.prem(1)", AT)
b.q("m.S.pm(7)", "attr-model-space-ref", CAUGHT)
b.q("m.S.pg(7)", "attr-model-ref", CAUGHT)
b.q("m.S.ps(7)", "attr-self-space-ref", CAUGHT)
b.q("m.S.pc(7)", "attr-child-ref", CAUGHT)
b.q("m.S.pn(7)", "name-space-ref", "name-model-ref", CAUGHT)
b.q("m.S.pin(7)", AT, CAUGHT, "read:inside-try")
b.q("m.S.paf(7)", AT, CAUGHT, "read:after-handler")
b.q("m.S.pu(7)", AT, CAUGHT, "failing-callee:uncached")
b.q("m.S.pd(7)", AT, CAUGHT, "failing-callee:two-deep")
b.q("m.S.pd(1)", AT, "via:cached-callee")
b.q("m.S.p2(6)", AT, "attr-model-ref", CAUGHT, "two-failures-caught")
b.q("m.S.pruc()", AT, CAUGHT, "via:uncached-callee")
b.q("m.S.tot()", AT, CAUGHT, "read:in-caller-of-handler", "via:cached-callee")
b.q("m.S.totg()", "attr-model-ref", CAUGHT, "read:in-caller-of-handler", "via:cached-callee")
b.q("m.S.tot2()", "attr-self-space-ref", CAUGHT, "read:in-caller-of-handler", "via:cached-callee", "two-frames-up")
b.q("m.T.tt()", "attr-model-space-ref", CAUGHT, "read:in-caller-of-handler", "caller-in-other-space")
b.q("m.T.tq()", AT, CAUGHT, "via:cached-callee", "via:attr-cells", "caller-in-other-space")
b.q("m.Q[7].c()", AT, CAUGHT, "in-itemspace")
b.q("m.Q[1].c()", AT, "in-itemspace")
W.WORLDS.append(b.world([
    sref("m.P", "rate", 5),
    sref("m.P", "rate", 6),
    sdel("m.P", "rate"),
    mref("rate", 11, "same-name-as-space-ref"),
    sref("m.S", "pp", "m.P2", "ref-to-space-retarget"),
    mref("g", 7),
    sref("m.S", "w", 8),
    sref("m.S.Ch", "y", 9, "in-child-space"),
    e("m.S.clear_all()", "value-clear", "space-wide"),
]))
