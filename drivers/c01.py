"""C01 - memoisation is transparent: values equal uncached evaluation, computed once, one element per binding.

Bounded stand-in.  One fixed 3-space skeleton (A, A.Ch, B; <= 5 cells per space) whose target cells `A.t`
gets a formula drawn from a terminating expression grammar (atoms = every kind of name resolution and every
call/binding form; contexts = arithmetic, conditional, builtin call, nested call argument, try/except,
generator/lambda bodies).  Every model is queried in several orders and binding forms.

Oracles (from the statement only):
  value      every query returns what the independent uncached evaluator (c01_kit.PureModel: plain Python
             functions over hand-built namespaces, no modelx) returns for the same definitions
  once       the counting reference TICK shows every element's formula run at most once while it holds a value,
             and the set of elements run so far is exactly what the uncached evaluation reaches
  held       the keys held by each cells (len / iteration / `in`) are exactly the elements computed, with the
             evaluator's values
  same-elem  re-issuing every query in every binding form (positional, keyword, defaults, [], .value) runs no
             formula and returns the same value

A held value may be None (allow_none switched on for the cells, its space or the model): the skeleton `none` has
cells whose formula returns None for some arguments and cells with values assigned by the user (None among them); the
same four oracles apply - a held None is served without running the formula, an assigned value is a held value (its
formula never runs) and everything computed from it equals the uncached evaluation.
"""
from common import *
from c01_kit import *

# ------------------------------------------------------------------------------------------------ grammar

ATOMS = [
    # tag, source                          (context: cells t of space A, parameter x)
    ("const", "3"),
    ("param", "x"),
    ("own-ref", "r"),
    ("global-ref", "h"),
    ("shadowable-ref", "g"),
    ("child-attr-ref", "Ch.y"),
    ("space-attr-ref", "_space.r"),
    ("self-attr-ref", "_self.r"),
    ("model-attr-ref", "_model.h"),
    ("model-path-ref", "_model.B.z"),
    ("child-attr-global-ref", "Ch.h"),
    ("refspace-attr-ref", "rs.z"),
    ("parent-attr-ref", "Ch.parent.r"),
    ("builtin-abs", "abs(x - 5)"),
    ("builtin-max", "max(x, r)"),
    ("builtin-len", "len((x, r))"),
    ("builtin-sum", "sum([x, r])"),
    ("sib-call-pos", "p(x)"),
    ("sib-call-kw", "p(x=x)"),
    ("sib-call-expr", "p(x + 1)"),
    ("sib-call-default", "d(x)"),
    ("sib-call-default-explicit", "d(x, 2)"),
    ("sib-call-default-kw", "d(x, y=2)"),
    ("sib-call-kw-swapped", "d(y=2, x=x)"),
    ("sib-call-kw-default-omitted", "d(x=x)"),
    ("sib-call-nondefault", "d(x, 3)"),
    ("sib-scalar-call", "s()"),
    ("sib-scalar-value", "_space.s.value"),
    ("sib-scalar-attr-call", "_space.s()"),
    ("sib-sub", "_space.p[x]"),
    ("sib-sub-tuple", "_space.d[x, 2]"),
    ("sib-sub-default", "_space.d[x]"),
    ("child-call", "Ch.k(x)"),
    ("child-sub", "Ch.k[x]"),
    ("child-scalar-call", "Ch.ks()"),
    ("child-scalar-value", "Ch.ks.value"),
    ("child-samename-call", "Ch.p(x)"),
    ("refcells-call", "rc(x)"),
    ("refcells-kw", "rc(x=x)"),
    ("refspace-call", "rs.q(x)"),
    ("refspace-samename-call", "rs.p(x)"),
    ("refspace-scalar-value", "rs.qs.value"),
    ("model-path-call", "_model.B.q(x)"),
    ("model-path-self-call", "_model.A.p(x)"),
    ("model-path-scalar", "_model.B.qs()"),
    ("genexpr-call", "sum(p(i) for i in range(x + 1))"),
    ("listcomp-ref", "[r + i for i in (x, h)][1]"),
    ("lambda-call", "(lambda v: p(v) + r)(x)"),
    ("failing-call", "e(x)"),
    ("child-uses-parent", "Ch.kp(x)"),
]
# atoms whose value is not an int: used in the bare context only
TYPED_ATOMS = [
    ("value-zero", "x * 0"),
    ("value-float", "x / 2"),
    ("value-bool", "x > 0"),
    ("value-str", "str(x) + 'a'"),
    ("value-empty-str", "''"),
    ("value-tuple", "(x, r)"),
    ("value-empty-list", "[]"),
    ("value-dict", "{'k': p(x)}"),
    ("arg-str", "w('ab')"),
    ("arg-tuple", "w((1, x))"),
    ("arg-tuple-sub", "_space.w[((1, x),)]"),
    ("arg-tuple-kw", "w(k=(1, x))"),
    ("arg-negative", "d(-x, -2)"),
    ("arg-float", "d(x / 2 + 0.25)"),
]
COLLIDE_ATOMS = [
    ("collide-ref-over-childspace", "Cx"),      # model-level ref created after child space A.Cx: refs > spaces
    ("collide-cells-over-ref", "p(x)"),         # model-level ref p created after cells A.p: cells > refs
    ("collide-childspace-attr", "_model.A.Cx"),  # attribute access follows the same chain
]

CONTEXTS = [
    ("bare", 1, "{a}"),
    ("add", 2, "{a} + {b}"),
    ("mulsub", 2, "{a} * 2 - {b}"),
    ("cond", 2, "({a} if x > 0 else {b})"),
    ("builtin-arg", 2, "max({a}, {b})"),
    ("call-arg", 2, "p(({a}) % 4) + {b}"),
    ("call-arg2", 2, "d(({a}) % 3, ({b}) % 3)"),
    ("bool-shortcut", 2, "({a} > 3 and {b})"),
]
TRY_CONTEXT = ("try-except", 2)

SIGS = [
    ("pos", "x", None),
    ("default", "x=1", None),
    ("pos-default", "x, y=2", None),
    ("scalar", "", "x = 1"),
]


def target_src(sig, expr, ctxname=None, a=None, b=None):
    _, params, pre = sig
    key = {"x": "(x,)", "x=1": "(x,)", "x, y=2": "(x, y)", "": "()"}[params]
    L = ["def t(%s):" % params, "    TICK('A.t', %s)" % key]
    if pre:
        L.append("    " + pre)
    if ctxname == "try-except":
        L += ["    try:", "        v = %s" % a, "    except ZeroDivisionError:", "        v = -1",
              "    return v + %s" % b]
    else:
        L.append("    return " + expr)
    return "\n".join(L)


def skeleton(shadow, collide):
    sp = Spec()
    sp.ref("", "g", 7)
    sp.ref("", "h", 3)
    sp.space("A"); sp.space("A.Ch"); sp.space("B")
    if collide:
        sp.space("A.Cx")
    sp.ref("A", "r", 5)
    if shadow:
        sp.ref("A", "g", 11)
    sp.ref("A.Ch", "y", 2)
    sp.ref("B", "z", 4)
    sp.ref("A", "rc", Obj("B.q"))
    sp.ref("A", "rs", Obj("B"))
    sp.cell("A", "p", "def p(x):\n    TICK('A.p', (x,))\n    return 1 if x <= 0 else p(x - 1) + x")
    sp.cell("A", "d", "def d(x, y=2):\n    TICK('A.d', (x, y))\n    return x * 10 + y + r")
    sp.cell("A", "s", "def s():\n    TICK('A.s', ())\n    return r * 100 + g")
    sp.cell("A", "e", "def e(x):\n    TICK('A.e', (x,))\n    return 10 // (x - 1) + p(x)")
    sp.cell("A", "w", "def w(k):\n    TICK('A.w', (k,))\n    return len(k) + r")
    sp.cell("A.Ch", "k", "def k(x):\n    TICK('A.Ch.k', (x,))\n    return x * y + 1")
    sp.cell("A.Ch", "ks", "def ks():\n    TICK('A.Ch.ks', ())\n    return y + 40 + g")
    sp.cell("A.Ch", "p", "def p(x):\n    TICK('A.Ch.p', (x,))\n    return x + 1000")
    sp.cell("A.Ch", "kp", "def kp(x):\n    TICK('A.Ch.kp', (x,))\n    return _space.parent.p(x) + _space.parent.r + y")
    sp.cell("B", "q", "def q(x):\n    TICK('B.q', (x,))\n    return x + z + (q(x - 1) if x > 0 else 0)")
    sp.cell("B", "qs", "def qs():\n    TICK('B.qs', ())\n    return z * 10")
    sp.cell("B", "p", "def p(x):\n    TICK('B.p', (x,))\n    return x * 100")
    if collide:
        sp.late_refs.append(("", "p", 99))
        sp.late_refs.append(("", "Cx", 98))
    return sp


CELLS_OF_TAG = {"A.t": ("A", "t"), "A.w": ("A", "w"), "A.p": ("A", "p"), "A.d": ("A", "d"), "A.s": ("A", "s"), "A.e": ("A", "e"),
                "A.Ch.k": ("A.Ch", "k"), "A.Ch.ks": ("A.Ch", "ks"), "A.Ch.p": ("A.Ch", "p"),
                "A.Ch.kp": ("A.Ch", "kp"), "B.q": ("B", "q"), "B.qs": ("B", "qs"), "B.p": ("B", "p")}


def C(path, c, args=(), kwargs=None, form="call"):
    return ("call", path, c, tuple(args), dict(kwargs or {}), form)


TARGET_QUERIES = {
    "pos": [C("A", "t", (0,)), C("A", "t", (), {"x": 1}), C("A", "t", (2,), form="sub")],
    "default": [C("A", "t"), C("A", "t", (0,), form="sub"), C("A", "t", (), {"x": 2})],
    "pos-default": [C("A", "t", (1,)), C("A", "t", (0, 3)), C("A", "t", (), {"x": 2})],
    "scalar": [C("A", "t"), C("A", "t", form="value")],
}
HELPER_QUERIES = [C("A", "p", (30,)), C("A", "w", ("ab",)), C("A", "p", (1,)), C("A", "p", (3,), form="sub"), C("A", "d", (1,)), C("A", "d", (2, 3)), C("A", "d", (), {"x": 0}),
                  C("A", "s", form="value"), C("A.Ch", "k", (), {"x": 1}), C("A.Ch", "ks"),
                  C("B", "q", (2,)), C("A.Ch", "p", (1,)), C("B", "p", (1,), form="sub"), C("B", "qs", form="value")]


def forms_of(pure, op):
    """Every public binding form that denotes the same element as `op`."""
    _, path, c, args, kwargs, form = op
    pc = getattr(pure.space(path), c)
    key = pc.key_of(args, kwargs)
    names = list(pc.sig.parameters)
    defaults = [p.default for p in pc.sig.parameters.values()]
    out = [C(path, c, key), C(path, c, (), dict(zip(names, key)))]
    if names:
        out.append(C(path, c, key, form="sub"))
        out.append(C(path, c, (), dict(reversed(list(zip(names, key))))))
        if len(names) == 2:
            out.append(C(path, c, key[:1], {names[1]: key[1]}))
    else:
        out.append(C(path, c, form="value"))
    # drop trailing arguments equal to their defaults
    n = len(key)
    while n > 0 and defaults[n - 1] is not inspect.Parameter.empty and defaults[n - 1] == key[n - 1]:
        n -= 1
        out.append(C(path, c, key[:n]))
        if n:
            out.append(C(path, c, key[:n], form="sub"))
            out.append(C(path, c, (), dict(zip(names[:n], key[:n]))))
    return out


def reorder(qs, o):
    n = len(qs)
    if o == 0:
        return list(qs)
    if o == 1:
        return list(reversed(qs))
    if o == 2:
        return qs[n // 2:] + qs[:n // 2]
    if o == 3:
        return qs[0::2] + qs[1::2]
    if o == 4:
        return list(reversed(qs[1::2])) + qs[0::2]
    return list(reversed(qs[1:] + qs[:1]))


# ------------------------------------------------------------------------------------------------ one case

def make_case(item):
    sigi, ctxi, ai, bi, shadow, collide, order = item
    sig = SIGS[sigi]
    atoms = ATOMS + TYPED_ATOMS + (COLLIDE_ATOMS if collide else [])
    a = atoms[ai]
    b = atoms[bi] if bi is not None else None
    if ctxi == "try":
        ctx = ("try-except", 2, None)
        src = target_src(sig, None, "try-except", a[1], b[1])
    else:
        ctx = CONTEXTS[ctxi]
        expr = ctx[2].format(a="(" + a[1] + ")", b="(" + b[1] + ")" if b else "")
        src = target_src(sig, expr)
    sp = skeleton(shadow, collide)
    sp.cell("A", "t", src)
    tags = ["atom:" + a[0], "ctx:" + ctx[0], "sig:" + sig[0]]
    if b:
        tags.append("with:" + b[0])
    if shadow:
        tags.append("own-ref-shadows-global")
    if collide:
        tags.append("late-global-collision")
    return sp, sig, tags, src


def deep_case(item):
    """Random depth-3 formula: ('deep', seed, sigi, shadow, order)."""
    _, seed, sigi, shadow, order = item
    rng = random.Random(seed)

    def gen(depth):
        if depth == 0 or rng.random() < 0.25:
            return "(" + rng.choice(ATOMS)[1] + ")"
        ctx = rng.choice(CONTEXTS[1:])
        return "(" + ctx[2].format(a=gen(depth - 1), b=gen(depth - 1)) + ")"
    expr = gen(3)
    sig = SIGS[sigi]
    sp = skeleton(shadow, False)
    src = target_src(sig, expr)
    sp.cell("A", "t", src)
    return sp, sig, ["deep", "sig:" + sig[0]] + (["own-ref-shadows-global"] if shadow else []), src


def run_case(item):
    if item[0] == "deep":
        sp, sig, tags, src = deep_case(item)
    elif item[0] in ("dyn", "inh", "none"):
        return run_extra(item)
    else:
        sp, sig, tags, src = make_case(item)
    order = item[-1]
    key = (src, item[-3:] if item[0] != "deep" else item[3:])
    queries = reorder(TARGET_QUERIES[sig[0]] + HELPER_QUERIES, order)
    return check_model(sp, tags, queries, list(CELLS_OF_TAG.values()), key, {"formula": src, "order": order, "tags": tags}, order)


def check_model(sp, tags, queries, cells_list, key, sample, order):
    out = {"key": key, "fails": [], "nontrivial": True, "sample": sample}

    def fail(kind, what, ops, tail, extra=()):
        out["fails"].append((tuple(tags) + (kind, "order:%d" % order) + tuple(extra), what, script(sp, ops, tail)))

    pure = PureModel(sp, copy=False)

    # expectations from the uncached evaluator, query by query (each evaluated from scratch: it has no cache)
    exp_vals, reach = [], []
    for q in queries:
        pure.reset_logs()
        exp_vals.append(pure.query(q))
        reach.append(set(pure.ticks))
    failed = set(pure.failed)                # elements whose run did not complete

    run = MxRun(sp)
    try:
        if run.build_error:
            ln, err = run.build_error
            if any(ln.startswith("m.%s = " % n) for _, n, _ in sp.late_refs):
                out["nontrivial"] = False          # the colliding reference is not accepted: nothing to check
                return out
            fail("build-raises", "building the model raised at %r: %r" % (ln, err), [],
                 "sys.exit(0)")
            return out
        cum = set()
        done = []
        for i, q in enumerate(queries):
            v = run.query(q)
            done.append(q)
            cum |= reach[i]
            if not values_equal(v, exp_vals[i]):
                fail("value", "%s returned %r, uncached evaluation gives %r" % (line(q), v, exp_vals[i]), done,
                     _tail_value(i, exp_vals[i]), ("form:" + q[5] + ("-kw" if q[4] else ""),))
                return out
            ticks = run.ticks
            dup = sorted(t for t in set(ticks) if ticks.count(t) > 1 and t not in failed)
            if dup:
                fail("recomputed", "formula of %r ran %d times while its value was held (after %s)"
                     % (dup[0], ticks.count(dup[0]), line(q)), done,
                     "if TICKS.count(%r) > 1:\n    sys.exit(1)" % (dup[0],))
                return out
            if set(ticks) != cum:
                fail("computed-set", "after %s the formulas run are %r, uncached evaluation reaches %r"
                     % (line(q), sorted(set(ticks) - cum), sorted(cum - set(ticks))), done,
                     "if set(TICKS) != %r:\n    sys.exit(1)" % (cum,))
                return out
        # held elements
        nticks = len(run.ticks)
        held_exp = {}
        for tag, key in cum - failed:
            held_exp.setdefault(tag, set()).add(key)
        for p_, c_, key_, _v in sp.inputs:          # a value assigned by the user is held (and never computed)
            held_exp.setdefault(p_ + "." + c_, set()).add(repr(tuple(key_)))
        for path, cname in cells_list:
            tag = path + "." + cname
            c = run.obj(path + "." + cname)
            nparams = len(c.parameters)
            keys = set()
            for k in list(c):
                keys.add(repr((k,) if nparams == 1 else tuple(k)))
            want = held_exp.get(tag, set())
            if keys != want or len(c) != len(want):
                fail("held-set", "%s.%s holds %r (len %d), computed elements are %r" % (path, cname, sorted(keys), len(c), sorted(want)),
                     done, "c = m.%s.%s\nn = len(c.parameters)\nif set(repr((k,) if n == 1 else tuple(k)) for k in c) != %r or len(c) != %d:\n    sys.exit(1)"
                     % (path, cname, want, len(want)))
                return out
            pc = getattr(pure.space(path), cname)
            for kr in sorted(want):
                key = eval(kr)
                pv = pure.query(C(path, cname, key))
                try:
                    hv = c(*key)
                    inn = key in c
                except Exception as e:
                    hv, inn = Raised(e), False
                if not values_equal(hv, pv) or not inn:
                    fail("held-value", "held %s.%s%r is %r (in: %r), uncached evaluation gives %r" % (path, cname, key, hv, inn, pv),
                         done, "if %r not in m.%s.%s or m.%s.%s(*%r) != %r:\n    sys.exit(1)" % (key, path, cname, path, cname, key, pv))
                    return out
        if len(run.ticks) != nticks:
            fail("recomputed", "reading the held elements (iteration, len, in, call) ran formulas: %r" % (run.ticks[nticks:],), done,
                 "n = len(TICKS)\nfor c in (%s):\n    [c(*((k,) if len(c.parameters) == 1 else tuple(k))) for k in list(c)]\nif len(TICKS) != n:\n    sys.exit(1)"
                 % ", ".join("m.%s.%s" % pc_ for pc_ in cells_list))
            return out
        # every binding form of every successful query denotes the same element
        for i, q in enumerate(queries):
            if isinstance(exp_vals[i], Raised):
                continue
            for f in forms_of(pure, q):
                n0 = len(run.ticks)
                v = run.query(f)
                if not values_equal(v, exp_vals[i]) or len(run.ticks) != n0:
                    fail("same-element", "%s (same element as %s, held) returned %r and ran %r; expected %r and no run"
                         % (line(f), line(q), v, run.ticks[n0:], exp_vals[i]), done + [f],
                         "n = len(TICKS)\nw = %s\nif w != %r or len(TICKS) != n:\n    sys.exit(1)" % (line(f), exp_vals[i]),
                         ("form:" + f[5] + ("-kw" if f[4] else ""),))
                    return out
        return out
    finally:
        run.close()


# ------------------------------------------------------------------------------------------------ other namespaces
# the same checks on cells that live in an ItemSpace (parameter > base's refs > global) and on derived cells
# (names resolve in the SUB space, not in the space that defines the formula)

DYN_ATOMS = [("item-param", "i"), ("item-base-ref", "k"), ("item-global-ref", "g"), ("item-sibling-call", "pc(x)"),
             ("item-sibling-kw", "pc(x=x)"), ("item-space-sub", "_space.pc[x]"), ("item-self-via-model", "_model.P[i, h].pc(x)"),
             ("item-other-item", "_model.P(i + 1, h).pc(x)"), ("item-outside-call", "_model.A.p(x)"),
             ("item-param-shadows-global", "h"), ("item-recursion", "(t(x - 1) if x > 0 else i)")]
INH_ATOMS = [("derived-own-ref-override", "r"), ("derived-ref-inherited", "r2"), ("derived-global", "g"),
             ("derived-sibling-overridden", "p(x)"), ("derived-sibling-inherited", "p2(x)"),
             ("derived-space-attr", "_space.r"), ("derived-model-path-to-base", "_model.Base.r"),
             ("derived-model-path-to-base-cells", "_model.Base.p(x)"),
             ("derived-recursion", "(t(x - 1) if x > 0 else r)")]


def run_extra(item):
    if item[0] == "none":
        return run_none(item)
    kind, ai, ctxi, order = item
    sp = Spec()
    sp.ref("", "g", 7); sp.ref("", "h", 3)
    ctx = CONTEXTS[ctxi]
    if kind == "dyn":
        a = DYN_ATOMS[ai]
        b = DYN_ATOMS[(ai + 3) % len(DYN_ATOMS)]
        expr = ctx[2].format(a="(" + a[1] + ")", b="(" + b[1] + ")")
        sp.space("A"); sp.space("P", params=("i", "h"))
        sp.ref("A", "r", 5); sp.ref("P", "k", 30)
        sp.cell("A", "p", "def p(x):\n    TICK('A.p', (x,))\n    return 1 if x <= 0 else p(x - 1) + x")
        sp.cell("P", "pc", "def pc(x):\n    TICK('P[%d, %d].pc' % (i, h), (x,))\n    return x * 10 + i + k")
        src = "def t(x):\n    TICK('P[%d, %d].t' % (i, h), (x,))\n    return " + expr
        sp.cell("P", "t", src)
        queries = [C("P[1, 5]", "t", (1,)), C("P[2, 5]", "t", (2,), form="sub"), C("P[1, 5]", "pc", (1,)), C("P[1, 5]", "t", (), {"x": 0}),
                   C("A", "p", (2,)), C("P[2, 5]", "pc", (2,)), C("P[3, 5]", "pc", (2,))]
        cells_list = [("P[1, 5]", "t"), ("P[1, 5]", "pc"), ("P[2, 5]", "t"), ("P[2, 5]", "pc"), ("P[3, 5]", "pc"), ("A", "p")]
    else:
        a = INH_ATOMS[ai]
        b = INH_ATOMS[(ai + 3) % len(INH_ATOMS)]
        expr = ctx[2].format(a="(" + a[1] + ")", b="(" + b[1] + ")")
        sp.space("Base"); sp.space("Sub", bases=["Base"])
        sp.ref("Base", "r", 5); sp.ref("Base", "r2", 6); sp.ref("Sub", "r", 50)
        tg = "_space.fullname[2:] + "
        sp.cell("Base", "p", "def p(x):\n    TICK(%s'.p', (x,))\n    return x + r" % tg)
        sp.cell("Base", "p2", "def p2(x):\n    TICK(%s'.p2', (x,))\n    return x * r + r2" % tg)
        src = "def t(x):\n    TICK(%s'.t', (x,))\n    return %s" % (tg, expr)
        sp.cell("Base", "t", src)
        sp.cell("Sub", "p", "def p(x):\n    TICK(%s'.p', (x,))\n    return x + r + 1000" % tg, override=True)
        queries = [C("Sub", "t", (1,)), C("Base", "t", (1,)), C("Sub", "p", (1,), form="sub"), C("Base", "p", (), {"x": 1}),
                   C("Sub", "p2", (2,)), C("Base", "t", (2,)), C("Sub", "t", (), {"x": 2})]
        cells_list = [("Sub", "t"), ("Base", "t"), ("Sub", "p"), ("Base", "p"), ("Sub", "p2"), ("Base", "p2")]
    tags = ["atom:" + a[0], "ctx:" + ctx[0], "with:" + b[0], "skeleton:" + kind]
    return check_model(sp, tags, reorder(queries, order), cells_list, (kind, src, order),
                       {"formula": src, "order": order, "tags": tags}, order)


# ------------------------------------------------------------------------------------------------ held value None
# allow_none switched on at the cells / the space / the model; elements whose HELD value is None: computed (the
# formula returns None for some arguments, also in a child space, another space, through a reference bound to the
# cells, in an ItemSpace, with None as (default) argument) or assigned by the user; requested again directly in every
# binding form and through dependents.

def _nz(e):
    """int-valued reading of an expression that may be None; asks for the element twice (the 2nd is a hit)."""
    return "(-1 if %s is None else %s)" % (e, e)


NONE_ATOMS = [
    ("none-sib-call", _nz("opt(x)")),
    ("none-sib-call-shifted", "(opt(x + 1) or 7)"),
    ("none-sib-kw", "(opt(x=x) or 2)"),
    ("none-sib-sub", "(_space.opt[x] or 3)"),
    ("none-scalar-call", "(nul() or 4)"),
    ("none-scalar-value", "(_space.nul.value or 5)"),
    ("none-default-arg-none", _nz("dn(x)")),
    ("none-explicit-arg-none", "(dn(x, None) or 6)"),
    ("none-child-call", _nz("Ch.ko(x)")),
    ("none-refcells-call", "(rc(x + 1) or 8)"),
    ("none-model-path-call", "(_model.B.qn(x) or 9)"),
    ("none-genexpr-call", "sum((opt(i) or 1) for i in range(x + 2))"),
    ("none-assigned", _nz("inp(x)")),
    ("none-assigned-sub", "(_space.inp[1] or 12)"),
    ("none-assigned-scalar", "(ins() or 11)"),
    ("none-assigned-scalar-value", _nz("_space.ins.value")),
    ("none-itemspace-call", "(_model.P[1].pn(x) or 13)"),
    ("none-recursion", "((t(x - 1) or 0) + 1 if x > 0 else (nul() or 1))"),
]
# the target itself returns None: bare context only
NONE_TYPED_ATOMS = [
    ("returns-none", "None"),
    ("returns-none-for-some-args", "(None if x else 0)"),
    ("returns-none-of-callee", "opt(x)"),
    ("returns-none-assigned", "inp(x)"),
    ("returns-none-of-chain", "rc(x + 2)"),
]
NONE_WHERE = ("cells", "space", "model")
NONE_CTXS = (0, 1, 2, 3, 4, 7)         # the contexts that need no helper cells


def none_skeleton(where):
    sp = Spec()
    sp.ref("", "g", 7); sp.ref("", "h", 3)
    sp.space("A"); sp.space("A.Ch"); sp.space("B"); sp.space("P", params=("i",))
    sp.ref("A", "r", 5); sp.ref("A.Ch", "y", 2); sp.ref("B", "z", 4)
    sp.ref("A", "rc", Obj("B.qn"))
    sp.cell("A", "opt", "def opt(x):\n    TICK('A.opt', (x,))\n    return None if x % 2 else x * 10 + r")
    sp.cell("A", "nul", "def nul():\n    TICK('A.nul', ())\n    return None")
    sp.cell("A", "dn", "def dn(x, y=None):\n    TICK('A.dn', (x, y))\n    return None if (y is None and x > 0) else x + (y or 0)")
    sp.cell("A", "inp", "def inp(x):\n    TICK('A.inp', (x,))\n    return x + 100")
    sp.cell("A", "ins", "def ins():\n    TICK('A.ins', ())\n    return 200")
    sp.cell("A.Ch", "ko", "def ko(x):\n    TICK('A.Ch.ko', (x,))\n    return None if x > 0 else y")
    sp.cell("B", "qn", "def qn(x):\n    TICK('B.qn', (x,))\n    return qn(x - 1) if x > 1 else (None if x else z)")
    sp.cell("P", "pn", "def pn(x):\n    TICK('P[%d].pn' % i, (x,))\n    return None if (x + i) % 2 else x * i")
    if where == "cells":
        # (the cells of an ItemSpace do not take over the property of the cells they copy: P gets it as a space)
        sp.allow_none += ["A.t", "A.opt", "A.nul", "A.dn", "A.inp", "A.ins", "A.Ch.ko", "B.qn", "P"]
    elif where == "space":
        sp.allow_none += ["A", "B", "P"]        # A.Ch and the ItemSpaces of P look the property up in their parent
    else:
        sp.allow_none += [""]
    sp.inputs += [("A", "inp", (1,), None), ("A", "inp", (2,), 55), ("A", "ins", (), None)]
    return sp


NONE_QUERIES = [C("A", "t", (1,)), C("A", "t", (2,), form="sub"), C("A", "t", (), {"x": 0}),
                C("A", "opt", (1,)), C("A", "opt", (2,)), C("A", "opt", (3,), form="sub"), C("A", "nul"),
                C("A", "nul", form="value"), C("A", "dn", (1,)), C("A", "dn", (1, None)), C("A", "dn", (0, 3)),
                C("A", "inp", (1,)), C("A", "inp", (), {"x": 2}), C("A", "inp", (3,)), C("A", "ins", form="value"),
                C("A.Ch", "ko", (1,)), C("B", "qn", (3,)), C("B", "qn", (0,)), C("P[1]", "pn", (2,)),
                C("P[2]", "pn", (1,), form="sub"), C("A", "t", (1,))]
NONE_CELLS = [("A", "t"), ("A", "opt"), ("A", "nul"), ("A", "dn"), ("A", "inp"), ("A", "ins"), ("A.Ch", "ko"),
              ("B", "qn"), ("P[1]", "pn"), ("P[2]", "pn")]


def run_none(item):
    _, ai, ctxi, wi, order = item
    where = NONE_WHERE[wi]
    atoms = NONE_ATOMS + NONE_TYPED_ATOMS
    a = atoms[ai]
    ctx = CONTEXTS[ctxi]
    b = NONE_ATOMS[(ai + 5) % len(NONE_ATOMS)] if ctx[1] == 2 else None
    expr = ctx[2].format(a="(" + a[1] + ")", b="(" + b[1] + ")" if b else "")
    sp = none_skeleton(where)
    src = "def t(x):\n    TICK('A.t', (x,))\n    return " + expr
    sp.cell("A", "t", src)
    tags = ["atom:" + a[0], "ctx:" + ctx[0], "skeleton:none", "allow-none:" + where] + (["with:" + b[0]] if b else [])
    return check_model(sp, tags, reorder(NONE_QUERIES, order), NONE_CELLS, ("none", src, where, order),
                       {"formula": src, "order": order, "tags": tags}, order)


def _tail_value(i, exp):
    if isinstance(exp, Raised):
        return "if not (isinstance(v%d, tuple) and v%d[:1] == ('raised',)):\n    sys.exit(1)" % (i, i)
    return "if v%d != %r:\n    sys.exit(1)" % (i, exp)


# ------------------------------------------------------------------------------------------------ enumeration

def enumerate_items(tier, rng):
    items = []
    nA = len(ATOMS)
    norders = 3 if tier == "quick" else 6
    # depth 1: every atom x every signature x shadow x every order
    for ai in range(nA):
        for sigi in range(len(SIGS)):
            for shadow in (False, True):
                for o in range(norders):
                    items.append((sigi, 0, ai, None, shadow, False, o))
    nT = len(TYPED_ATOMS)
    for ai in range(nA, nA + nT):
        for sigi in range(len(SIGS)):
            for o in range(norders):
                items.append((sigi, 0, ai, None, bool((ai + o) % 2), False, o))
    # collisions created late (chain order cells > refs > child spaces)
    for ai in range(nA + nT, nA + nT + len(COLLIDE_ATOMS)):
        for sigi in range(len(SIGS)):
            for o in range(norders):
                items.append((sigi, 0, ai, None, False, True, o))
    for ai in (2, 4, 17, 25, 31, 36, 38):       # ordinary atoms still right when the colliding refs exist
        for o in range(2):
            items.append((ai % len(SIGS), 0, ai, None, True, True, o))
    # depth 2: atom x context x partner
    ctxs = list(range(1, len(CONTEXTS))) + ["try"]
    if tier == "quick":
        for ai in range(nA):
            for ci, ctx in enumerate(ctxs):
                for j in range(2):
                    bi = (ai * 7 + ci * 3 + j * 17 + 1) % nA
                    sigi = (ai + ci + j) % len(SIGS)
                    items.append((sigi, ctx, ai, bi, bool((ai + ci + j) % 2), False, (ai + ci + j) % norders))
    else:
        for ai in range(nA):
            for bi in range(nA):
                for ci, ctx in enumerate(ctxs):
                    sigi = (ai + bi + ci) % len(SIGS)
                    for o in (((ai + bi) % 6, (ai + bi + 3) % 6) if (ai + bi + ci) % 3 == 0 else ((ai + 2 * bi + ci) % 6,)):
                        items.append((sigi, ctx, ai, bi, bool((ai + bi + ci) % 2), False, o))
    for kind, atoms in (("dyn", DYN_ATOMS), ("inh", INH_ATOMS)):
        for ai in range(len(atoms)):
            for ci in ((0, 1, 3) if tier == "quick" else range(len(CONTEXTS))):
                for o in range(norders):
                    items.append((kind, ai, ci, o))
    # held value None: atom x context x where allow_none is switched on x order
    for ai in range(len(NONE_ATOMS) + len(NONE_TYPED_ATOMS)):
        typed = ai >= len(NONE_ATOMS)
        for ci in ((0,) if typed else ((0, 1, 3) if tier == "quick" else NONE_CTXS)):
            for wi in range(len(NONE_WHERE)):
                for o in range(norders):
                    items.append(("none", ai, ci, wi, o))
    random.Random(20261002).shuffle(items)        # fixed order: a run cut by the budget still spans every kind
    n_exh = len(items)
    # depth 3: sampled
    ndeep = 300 if tier == "quick" else 8000
    for i in range(ndeep):
        items.append(("deep", rng.randrange(1 << 30), rng.randrange(len(SIGS)), bool(rng.randrange(2)),
                      rng.randrange(norders)))
    return items, n_exh


def run(res, tier, seed):
    res.bound = ("3 spaces (A, A.Ch, B) x <= 6 cells, target formula = grammar of %d atoms x %d contexts, depth <= 2 "
                 "(quick: every atom x every context with 2 partners; thorough: every atom pair x every context), "
                 "depth 3 sampled; + 2 small skeletons (cells of an ItemSpace with 2 parameters: %d atoms; derived / overridden cells of a "
                 "sub space: %d atoms) x contexts; + 1 skeleton of elements holding None (4 spaces, 9 cells, %d atoms x contexts x "
                 "allow_none on the cells / the space / the model; None computed or assigned by the user; 21 queries); 4 target "
                 "signatures; <= %d query orders of 13-14 queries per model; every binding "
                 "form of every query") % (len(ATOMS) + len(TYPED_ATOMS) + len(COLLIDE_ATOMS), len(CONTEXTS) + 1, len(DYN_ATOMS), len(INH_ATOMS),
                                             len(NONE_ATOMS) + len(NONE_TYPED_ATOMS), 3 if tier == "quick" else 6)
    res.rule = ("exhaustive product listed in the bound, then seeded random depth-3 formulas; every case is "
                "non-trivial (the target and its helpers are computed and compared with the uncached evaluator) except "
                "when a colliding late reference is refused; distinct = distinct (target formula, shadow/collision "
                "flags, query order)")
    items, n_exh = enumerate_items(tier, res.rng)
    res.exhaustive = True
    n = 0
    for item, out in pmap(run_case, items, res):
        n += 1
        res.count(out["key"], out["nontrivial"])
        for tags, what, scr in out["fails"]:
            res.fail(tags, what, script=scr, case=out["key"])
        if n % 997 == 1:
            res.sample(out["sample"])
    res.exhaustive = n >= n_exh
    res.notes.append("%d enumerated + %d sampled cases" % (min(n, n_exh), max(0, n - n_exh)))


if __name__ == "__main__":
    main("C01", run)
