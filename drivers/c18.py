"""C18 - an IOSpec lives exactly as long as a reference to its value (bounded stand-in driver).

Histories over {new_pandas, new_module, bind to a further name, rebind, delete reference, delete
cells / space, update_pandas / update_module, add/remove bases, close, spec.path / spec.sheet, model
rename} on 2 models x (2 spaces + 1 child space) are enumerated symbolically by c18_model.Abs
(pure Python) and replayed on the real modelx.  After every step the real state is compared with the
abstract one:

  ref-state               the references are what the operations made them (needed to judge the rest)
  bound-value-lost-spec   a spec whose value is still bound to a reference must be registered/listed
  spec-not-listed         ... registered with the IO manager but absent from model.iospecs / get_spec
  spec-outlives-refs      a spec listed or registered for the model whose value is bound to no reference
  location-clash          two registered specs claim the same (file, sheet)
  rejected-op-left-trace  a refused operation changed references / specs / IO files
  unexpected-exception    modelx refused an operation the contract lets succeed
  sanity                  mxsys._check_sanity()
  V-map                   ReferenceManager._valid_to_refs == {id(value): defined references bound to it}
  write-read              after model.write / read_model every live spec's file exists and the value reads back equal

Only the first failing step of a history is reported (later ones are consequences); the subtree below a
failing prefix is skipped.
"""
from common import *          # noqa
import os, shutil, tempfile, inspect, pathlib, multiprocessing as mp
import pandas as pd
from c18_model import Abs, FS, MP, NAMES, model_of, enumerate_histories

VAR = {"M1": "m1", "M1.A": "A", "M1.A.C": "C", "M1.B": "B", "M2": "m2", "M2.A": "A2"}
MOD_SRC = {"modA": "def triple(x):\n    return 3 * x\n", "modB": "def triple(x):\n    return 4 * x\n\nK = 7\n"}
FIX_MODELS = '''m1 = mx.new_model("M1"); A = m1.new_space("A"); C = A.new_space("C"); B = m1.new_space("B")
m2 = mx.new_model("M2"); A2 = m2.new_space("A")
'''
FIX_CELLS = '''A.new_cells("c1", formula="lambda i: i"); A.new_cells("c0", formula="lambda: 0")
'''
FIX_VALUES = '''df1 = pd.DataFrame({"a": [1, 2]}); df2 = pd.DataFrame({"b": [1.5, 2.5]}, index=["x", "y"])
sr1 = pd.Series([1, 2, 3], name="s"); df3 = pd.DataFrame({"c": [7]})
df4 = pd.DataFrame({"a": [3, 4, 5]}); df5 = pd.DataFrame({"z": [0.5]}); dfU = pd.DataFrame({"u": [1]})
one = 1
'''
_CODE = {k: compile(v, "<fixture>", "exec") for k, v in (("m", FIX_MODELS), ("c", FIX_CELLS), ("v", FIX_VALUES))}
_VALUES = {}        # the pandas objects are made once per process (no operation mutates them)


def uses_cells(hist):
    """The cells c0 / c1 of M1.A exist only in histories that mention them (saves two formula parses)."""
    return any(x in ("c0", "c1") for op in hist for x in op if isinstance(x, str))


def fixture_text(hist):
    return FIX_MODELS + (FIX_CELLS if uses_cells(hist) else "") + FIX_VALUES + "ifB = B\n"


def purge_ios():
    """Hygiene between histories: forget IO entries leaked by earlier histories (never used as an oracle)."""
    iom = sysimpl().iomanager
    for k in list(iom.ios):
        try:
            del iom.ios[k]
        except Exception:
            pass


class Env:
    """One history's real modelx session."""

    def __init__(self, tmp, uid, hist):
        reset()
        if mx.get_models():          # (hygiene) entries a broken registry would not let reset() close
            try:
                sysimpl().models.clear()
            except Exception:
                pass
        purge_ios()
        self.tmp = tmp
        self.hist = hist
        self.absdir = os.path.join(tmp, "abs%d" % uid)
        if not _VALUES:
            exec(_CODE["v"], {"pd": pd}, _VALUES)
        ns = {"mx": mx, "pd": pd}
        exec(_CODE["m"], ns)
        if uses_cells(hist):
            exec(_CODE["c"], ns)
        self.obj = {loc: ns[v] for loc, v in VAR.items()}
        self.val = dict(_VALUES)
        self.val["ifB"] = ns["B"]
        self.specobj = {}          # abstract spec idx -> real spec
        self.creator = {}          # id(real spec) -> model token
        self.keep = []             # keep every spec object alive (ids must stay unique)
        self.lines = []            # replay script lines

    # ------------------------------------------------------------------ helpers
    def path_of(self, p):
        return os.path.join(self.absdir, p[1:]) if p.startswith("@") else p

    def path_code(self, p):
        return 'os.path.join(tmp, "%s")' % p[1:] if p.startswith("@") else repr(p)

    def registered(self):
        """[(model token or None, path, spec)] for every spec the IO manager knows in this session."""
        out = []
        for (group, path), io in list(sysimpl().iomanager.ios.items()):
            for sp in io.specs.values():
                if group is None:
                    tokn = self.creator.get(id(sp))
                else:
                    tokn = "M1" if group is self.obj["M1"] else "M2" if group is self.obj["M2"] else "?"
                out.append((tokn, path, sp))
        return out

    # ------------------------------------------------------------------ one operation on the real modelx
    def execute(self, op, a):
        """Run op; returns (accepted, exception text, new token).  `a` is the abstract state before."""
        k = op[0]
        newtok = None
        before = {id(sp) for _, _, sp in self.registered()}
        code = None
        try:
            if k == "np":
                _, loc, name, tok, fsk = op
                p, ftype, sheet = FS[fsk]
                if p.startswith("@"):
                    os.makedirs(self.absdir, exist_ok=True)
                code = "%s.new_pandas(%r, %s, %s, file_type=%r, sheet=%r)" % (
                    VAR[loc], name, self.path_code(p), tok, ftype, sheet)
                self.obj[loc].new_pandas(name, self.path_of(p), self.val[tok], file_type=ftype, sheet=sheet)
            elif k == "nm":
                _, loc, name, modkey, mpk = op
                newtok = "mod%d" % a.nmod
                code = "%s = %s.new_module(%r, %r, tmp + '/%s.py')" % (newtok, VAR[loc], name, MP[mpk], modkey)
                self.val[newtok] = self.obj[loc].new_module(name, MP[mpk], os.path.join(self.tmp, modkey + ".py"))
            elif k == "bind":
                _, loc, name, tok = op
                code = "%s.%s = %s" % (VAR[loc], name, tok)
                setattr(self.obj[loc], name, self.val[tok])
            elif k == "delref":
                code = "del %s.%s" % (VAR[op[1]], op[2])
                delattr(self.obj[op[1]], op[2])
            elif k == "delspace":
                parent, _, nm = op[1].rpartition(".")
                code = "del %s.%s" % (VAR[parent], nm)
                delattr(self.obj[parent], nm)
            elif k == "delcells":
                code = "del %s.%s" % (VAR[op[1]], op[2])
                delattr(self.obj[op[1]], op[2])
            elif k == "upd":
                _, via, old, new = op
                code = "%s.update_pandas(%s%s)" % (VAR[via], old, "" if new is None else ", " + new)
                if new is None:
                    self.obj[via].update_pandas(self.val[old])
                else:
                    self.obj[via].update_pandas(self.val[old], self.val[new])
            elif k == "updmod":
                _, via, old, modkey = op
                newtok = "mod%d" % a.nmod
                sp = a.spec_of(old, model_of(via))
                holder = a.holders(old, model_of(via))[0]
                code = "%s.update_module(%s%s); %s = %s.%s" % (
                    VAR[via], old, "" if modkey is None else ", tmp + '/%s.py'" % modkey,
                    newtok, VAR[holder[0]], holder[1])
                if modkey is None:
                    self.obj[via].update_module(self.val[old])
                else:
                    self.obj[via].update_module(self.val[old], os.path.join(self.tmp, modkey + ".py"))
                self.val[newtok] = self.obj[holder[0]].refs[holder[1]]
            elif k == "addb":
                code = "B.add_bases(A)"
                self.obj["M1.B"].add_bases(self.obj["M1.A"])
            elif k == "rmb":
                code = "B.remove_bases(A)"
                self.obj["M1.B"].remove_bases(self.obj["M1.A"])
            elif k == "close":
                code = "%s.close()" % VAR[op[1]]
                self.obj[op[1]].close()
            elif k == "setpath":
                s = a.specs[op[1]]
                code = "%s.get_spec(%s).path = %s" % (VAR[s.model], s.tok, self.path_code(op[2]))
                if op[2].startswith("@"):
                    os.makedirs(self.absdir, exist_ok=True)
                self.specobj[op[1]].path = self.path_of(op[2])
            elif k == "setsheet":
                s = a.specs[op[1]]
                code = "%s.get_spec(%s).sheet = %r" % (VAR[s.model], s.tok, op[2])
                self.specobj[op[1]].sheet = op[2]
            elif k == "mrename":
                code = "%s.rename(%r)" % (VAR[op[1]], op[2])
                self.obj[op[1]].rename(op[2])
            else:
                raise RuntimeError(op)
            accepted, exc = True, None
        except Exception as e:        # modelx refused (KeyError / ValueError / ...): judged by the caller
            if code is None:
                raise
            accepted, exc = False, "%s: %s" % (type(e).__name__, e)
            if k in ("nm", "updmod"):
                newtok = None
        self.lines.append((code, accepted))
        if k in ("np", "nm"):
            new = [(t, sp) for t, _, sp in self.registered() if id(sp) not in before]
            for t, sp in new:
                self.keep.append(sp)
                self.creator[id(sp)] = model_of(op[1])
            self.newspecs = [sp for _, sp in new]
        return accepted, exc, newtok

    # ------------------------------------------------------------------ observation of the real state
    def observe(self, a):
        refs = {}
        names = set(NAMES) | {n for (_, n) in a.refs}
        for loc in VAR:
            if not a.loc_ok(loc):
                continue
            view = self.obj[loc].refs
            for n in names:
                refs[(loc, n)] = view[n] if n in view else None
        listed = {m: (list(self.obj[m].iospecs) if a.open[m] else []) for m in ("M1", "M2")}
        reg = self.registered()
        return {"refs": refs, "listed": listed, "reg": reg}

    @staticmethod
    def fingerprint(o):
        return ({k: (id(v) if v is not None else None) for k, v in o["refs"].items()},
                {m: sorted(id(s) for s in l) for m, l in o["listed"].items()},
                sorted((str(t), str(p), id(sp), getattr(sp, "sheet", None)) for t, p, sp in o["reg"]),
                sorted((str(g is not None), str(p)) for (g, p) in sysimpl().iomanager.ios))

    def name_of(self, v):
        for t, x in self.val.items():
            if x is v:
                return t
        return type(v).__name__

    # ------------------------------------------------------------------ the contract, after a step
    def check(self, a, o):
        """First violated clause as (tag, extra tags, text), or None.  a: abstract state after the step."""
        s = sanity()
        if s:
            return "sanity", [], s
        for (loc, n), v in sorted(o["refs"].items()):
            tok = a.visible(loc, n)
            exp = self.val[tok] if tok is not None else None
            if v is not exp:
                return "ref-state", [], "%s.%s is %s, the operations made it %s" % (
                    loc, n, "absent" if v is None else self.name_of(v), tok)
        regobjs = {m: [sp for t, _, sp in o["reg"] if t == m] for m in ("M1", "M2")}
        for m in ("M1", "M2"):
            other = "M2" if m == "M1" else "M1"
            alive = a.live(m)
            listed = o["listed"][m]
            for s_ in alive:
                sp = self.specobj[s_.idx]
                v = self.val[s_.tok]
                where = "%s (%s %s) bound to %s" % (s_.tok, s_.file, s_.sheet, a.holders(s_.tok, m))
                if not any(x is sp for x in regobjs[m]):
                    return "bound-value-lost-spec", [s_.kind], "spec of " + where + " is no longer registered"
                if sp.value is not v:
                    return "spec-value-mismatch", [s_.kind], "spec of " + where + " holds another object"
                if not any(x is sp for x in listed):
                    return "spec-not-listed", [s_.kind], "spec of " + where + " is registered but not in iospecs"
            for s_ in alive:
                sp = self.specobj[s_.idx]
                try:
                    g = self.obj[m].get_spec(self.val[s_.tok])
                except ValueError:
                    g = None
                if g is not sp and not any(g is self.specobj[t.idx] for t in alive if t.tok == s_.tok):
                    return "spec-not-listed", [s_.kind, "get_spec"], "get_spec(%s) returns %r" % (s_.tok, g)
            aliveobjs = [self.specobj[s_.idx] for s_ in alive]
            foreign = [self.specobj[s_.idx] for s_ in a.live(other) if s_.tok in a.bound_toks(m)]
            for x in listed:
                if not any(x is y for y in aliveobjs) and not any(x is y for y in foreign):
                    return "spec-outlives-refs", ["listed"], "%s.iospecs has %r whose value is bound to no reference" % (m, x)
            for x in regobjs[m]:
                if not any(x is y for y in aliveobjs):
                    return "spec-outlives-refs", ["unlisted"] + ([] if a.open[m] else ["after-close"]), \
                        "IO manager keeps %r for %s: its value is bound to no reference" % (x, m)
        claims = {}
        for t, p, sp in o["reg"]:
            key = (None if pathlib.Path(p).is_absolute() else t, str(p), getattr(sp, "sheet", None)
                   if getattr(sp.io, "file_type", None) == "excel" else "*")
            if key in claims:
                return "location-clash", [], "%r and %r both claim %s" % (claims[key], sp, key[1:])
            claims[key] = sp
        for m in ("M1", "M2"):
            if not a.open[m]:
                continue
            V = getattr(self.obj[m]._impl.refmgr, "_valid_to_refs", None)
            if not isinstance(V, dict):
                continue
            exp = {}
            for (loc, n), tok in a.refs.items():
                if model_of(loc) == m and tok != "ifB":
                    exp[id(self.val[tok])] = exp.get(id(self.val[tok]), 0) + 1
            got = {k_: len(v) for k_, v in V.items()}
            dup = any(len({id(r) for r in v}) != len(v) for v in V.values())
            if got != exp or dup:
                return "V-map", [], "%s: _valid_to_refs has %s entries (ref counts %s), defined references give %s" % (
                    m, len(got), sorted(got.values()), sorted(exp.values()))
        return None

    # ------------------------------------------------------------------ write / read back
    def write_read(self, a):
        """(tag, extra, text) or None.  Every open model with a live spec is written, then read back and compared."""
        models = [m for m in ("M1", "M2") if a.open[m] and a.live(m)]
        roots = {m: os.path.join(self.tmp, "w_" + m) for m in models}
        rb = None
        try:
            for m in models:
                shutil.rmtree(roots[m], ignore_errors=True)
                try:
                    self.obj[m].write(roots[m])
                except Exception as e:
                    return "write-read", ["write-raises"], "write: %s: %s" % (type(e).__name__, e)
                for s_ in a.live(m):
                    f = self.path_of(s_.file) if s_.file.startswith("@") else os.path.join(roots[m], s_.file)
                    if not os.path.exists(f):
                        return "write-read", ["file-missing", s_.kind], "%s not written for %s" % (s_.file, s_.tok)
            if any(s_.file.startswith("@") for s_ in a.live()):
                # a file outside the model folders is shared by the whole session: the copies can only claim
                # it once the originals have released it
                for m in ("M1", "M2"):
                    if a.open[m]:
                        self.obj[m].close()
            for m in models:
                try:
                    rb = mx.read_model(roots[m], name="RB")
                except Exception as e:
                    return "write-read", ["read-raises"], "read_model: %s: %s" % (type(e).__name__, e)
                for s_ in a.live(m):
                    for (loc, n) in a.holders(s_.tok, m):
                        tgt = rb
                        for part in loc.split(".")[1:]:
                            tgt = tgt.spaces[part]
                        if n not in tgt.refs:
                            return "write-read", ["ref-missing", s_.kind], "%s.%s missing after read" % (loc, n)
                        v2 = tgt.refs[n]
                        if not values_equal(self.val[s_.tok], v2):
                            return "write-read", ["value-differs", s_.kind], "%s.%s reads back different" % (loc, n)
                        try:
                            sp2 = rb.get_spec(v2)
                        except ValueError:
                            return "write-read", ["spec-missing", s_.kind], "no spec for %s.%s after read" % (loc, n)
                        if not s_.file.startswith("@") and pathlib.Path(sp2.path) != pathlib.Path(s_.file):
                            return "write-read", ["path-differs", s_.kind], "%s: %s" % (s_.file, sp2.path)
                if len(rb.iospecs) != len(a.live(m)):
                    return "write-read", ["spec-count"], "%d specs read back, %d live" % (len(rb.iospecs), len(a.live(m)))
                rb.close()
                rb = None
        finally:
            if rb is not None:
                try:
                    rb.close()
                except Exception:
                    pass
            for r in roots.values():
                shutil.rmtree(r, ignore_errors=True)
        return None


def values_equal(v1, v2):
    if isinstance(v1, pd.DataFrame):
        return isinstance(v2, pd.DataFrame) and v1.shape == v2.shape and \
            list(map(str, v1.columns)) == list(map(str, v2.columns)) and \
            list(map(str, v1.index)) == list(map(str, v2.index)) and \
            bool((v1.to_numpy() == v2.to_numpy()).all())
    if isinstance(v1, pd.Series):
        return isinstance(v2, pd.Series) and v1.name == v2.name and len(v1) == len(v2) and \
            list(map(str, v1.index)) == list(map(str, v2.index)) and bool((v1.to_numpy() == v2.to_numpy()).all())
    if inspect.ismodule(v1):
        return inspect.ismodule(v2) and inspect.getsource(v1) == inspect.getsource(v2)
    return v1 == v2


# ---------------------------------------------------------------------------------- replay scripts
SCRIPT_HEAD = '''import modelx as mx, pandas as pd, sys, os, tempfile, shutil, warnings, inspect
warnings.simplefilter("ignore")
tmp = tempfile.mkdtemp(); bad = []
def bound(m):                 # ids of the values bound to any reference of model m
    ids = {id(v) for k, v in m.refs.items() if k != "__builtins__"}; todo = list(m.spaces.values())
    while todo:
        s = todo.pop(); todo += list(s.named_spaces.values())
        ids |= {id(v) for k, v in s.refs.items() if k != "__builtins__"}
    return ids
def registered(m, mine=()):   # specs the IO manager keeps for model m (mine: specs m created under absolute paths)
    return [sp for (g, p), io in mx.core.mxsys.iomanager.ios.items() for sp in io.specs.values()
            if g is m or (g is None and id(sp) in mine)]
def allspecs():
    return {id(sp): sp for io in mx.core.mxsys.iomanager.ios.values() for sp in io.specs.values()}
def snap(models):
    return ([sorted((s.fullname, k, id(v)) for s in walk(m) for k, v in s.refs.items() if k != "__builtins__") for m in models],
            sorted((str(g), str(p), sorted(io.specs)) for (g, p), io in mx.core.mxsys.iomanager.ios.items()))
def walk(m):
    out = [m]; todo = list(m.spaces.values())
    while todo:
        s = todo.pop(); out.append(s); todo += list(s.named_spaces.values())
    return out
def refused(f):
    try: f(); return False
    except Exception as e: print("  refused:", type(e).__name__, e); return True
def run(code):                # one operation of the history; a refusal is reported, not fatal
    try: exec(code, globals()); return True
    except Exception as e: print("  refused: %s -> %s: %s" % (code, type(e).__name__, e)); return False
def is_open(m):
    return any(v is m for v in mx.get_models().values())
def holders(m, v):            # [(space path, name)] of the references of m bound to v
    return [((s.fullname.split(".")[1:] if s is not m else []), k) for s in walk(m) for k, x in s.refs.items() if x is v]
def write_read(models):       # every live spec's value is written to its file and read back equal
    info = []
    for i, m in enumerate(models):
        root = os.path.join(tmp, "w%d" % i); m.write(root); specs = list(m.iospecs)
        for sp in specs:
            if not sp.path.is_absolute() and not os.path.exists(os.path.join(root, str(sp.path))): bad.append("%s not written" % sp.path)
        info.append((root, [(sp.value, holders(m, sp.value)) for sp in specs], len(specs)))
    if any(sp.path.is_absolute() for m in models for sp in m.iospecs):
        for m in (m1, m2):    # a file outside the model folders is shared by the session: release it first
            if is_open(m): m.close()
    for root, vals, n in info:
        rb = mx.read_model(root, name="RB")
        for v, hs in vals:
            for parts, k in hs:
                t = rb
                for p in parts: t = t.spaces[p]
                if k not in t.refs or not same(v, t.refs[k]): bad.append("%s.%s reads back different" % (".".join(parts), k))
                elif refused(lambda: rb.get_spec(t.refs[k])): bad.append("%s.%s has no spec after reading" % (".".join(parts), k))
        if len(rb.iospecs) != n: bad.append("%d specs read back, %d written" % (len(rb.iospecs), n))
        rb.close()
def same(v1, v2):
    if inspect.ismodule(v1): return inspect.getsource(v1) == inspect.getsource(v2)
    return type(v1) is type(v2) and v1.shape == v2.shape and (v1.to_numpy() == v2.to_numpy()).all() \\
        and list(map(str, v1.index)) == list(map(str, v2.index))
try:
    for n, s in @@MOD_SRC@@.items(): open(os.path.join(tmp, n + ".py"), "w").write(s)
'''.replace("@@MOD_SRC@@", repr(MOD_SRC))


def make_script(env, a, tag, nsteps, expected_ok_failed=False, rejected_step=False):
    """Self-contained replay: exits 1 iff the property is violated at the end of the (truncated) history.
    Every operation goes through run() (a refusal is printed and the replay goes on), so the script also
    terminates normally on a tree where modelx accepts / refuses other operations than it did here."""
    L = [SCRIPT_HEAD]
    ind = "    "
    for ln in fixture_text(env.hist).strip().split("\n"):
        L.append(ind + ln)
    L.append(ind + "mine = {'M1': set(), 'M2': set()}")
    lines = env.lines[:nsteps]
    for i, (code, accepted) in enumerate(lines):
        last = i == len(lines) - 1
        is_create = ".new_pandas(" in code or ".new_module(" in code
        if last and rejected_step:
            L.append(ind + "before = snap([m for m in (m1, m2) if is_open(m)])")
        if is_create:
            L.append(ind + "known = set(allspecs())")
        if last and expected_ok_failed:
            L.append(ind + "if not run(%r): bad.append('modelx refused an operation that must succeed')" % code)
        elif last and rejected_step:
            L.append(ind + "if not run(%r) and snap([m for m in (m1, m2) if is_open(m)]) != before: "
                           "bad.append('the refused operation changed references / specs / IO files')" % code)
        else:
            L.append(ind + "run(%r)" % code)
        if is_create:
            mtok = "M2" if code.startswith("A2.") or code.startswith("m2.") or " = A2." in code or " = m2." in code else "M1"
            L.append(ind + "mine[%r] |= set(allspecs()) - known" % mtok)
    # generic end-of-history checks, straight from the statement
    L.append(ind + "try: mx.core.mxsys._check_sanity()")
    L.append(ind + "except AssertionError as e: bad.append('_check_sanity: %r' % (e,))")
    for m in ("M1", "M2"):
        v = VAR[m]
        L.append(ind + "if is_open(%s):" % v)
        L.append(ind * 2 + "for sp in list(%s.iospecs) + registered(%s, mine[%r]):" % (v, v, m))
        L.append(ind * 3 + "if id(sp.value) not in bound(%s): bad.append('%s: %%r has no reference to its value' %% sp)" % (v, m))
        L.append(ind * 2 + "if {id(s) for s in registered(%s, mine[%r])} - {id(s) for s in %s.iospecs}: "
                           "bad.append('%s: a registered spec is not in iospecs')" % (v, m, v, m))
        for s_ in a.live(m):
            L.append(ind * 2 + "if id(%s) in bound(%s) and not any(sp.value is %s for sp in registered(%s, mine[%r])): "
                               "bad.append('%s is bound in %s but its spec is gone')" % (s_.tok, v, s_.tok, v, m, s_.tok, m))
        if tag == "ref-state" and a.open[m]:
            for (loc, n) in sorted({(l, n) for l in VAR if a.loc_ok(l) and model_of(l) == m for n in NAMES}):
                tok = a.visible(loc, n)
                if tok is None:
                    L.append(ind * 2 + "if %r in %s.refs: bad.append('%s.%s exists')" % (n, VAR[loc], loc, n))
                else:
                    L.append(ind * 2 + "if %r not in %s.refs or %s.refs[%r] is not %s: bad.append('%s.%s is not %s')" % (
                        n, VAR[loc], VAR[loc], n, tok, loc, n, tok))
        L.append(ind + "elif registered(%s, mine[%r]): bad.append('%s is closed but the IO manager keeps %%r' %% registered(%s, mine[%r]))" % (v, m, m, v, m))
    L.append(ind + "claims = [(str(g), str(p), getattr(sp, 'sheet', None) if getattr(io, 'file_type', '') == 'excel' else '*')")
    L.append(ind + "          for (g, p), io in mx.core.mxsys.iomanager.ios.items() for sp in io.specs.values()]")
    L.append(ind + "if len(claims) != len(set(claims)): bad.append('two specs claim the same location')")
    if tag == "V-map":
        for m in ("M1", "M2"):
            if a.open[m]:
                L.append(ind + "if set(%s._impl.refmgr._valid_to_refs) - bound(%s): bad.append('%s: _valid_to_refs keeps an unbound value')" % (VAR[m], VAR[m], m))
                n = sum(1 for (loc, _), t in a.refs.items() if model_of(loc) == m and t != "ifB")
                L.append(ind + "if sum(map(len, %s._impl.refmgr._valid_to_refs.values())) != %d: bad.append('%s: _valid_to_refs does not hold the %d defined references')" % (VAR[m], n, m, n))
    if tag == "write-read":
        L.append(ind + "try: write_read([m for m in (m1, m2) if is_open(m) and m.iospecs])")
        L.append(ind + "except Exception as e: bad.append('write/read: %s: %s' % (type(e).__name__, e))")
    L.append("finally:")
    L.append(ind + "shutil.rmtree(tmp, ignore_errors=True)")
    L.append("print(bad); sys.exit(1 if bad else 0)")
    return "\n".join(L) + "\n"


# ---------------------------------------------------------------------------------- one history
class Outcome:
    __slots__ = ("nontrivial", "fail", "fail_step", "steps", "wr_done", "monitors", "sig")


def run_history(hist, tmp, uid, do_write, seen_sigs):
    """Replay one history on the real modelx.  Returns an Outcome."""
    out = Outcome()
    out.nontrivial = False; out.fail = None; out.fail_step = None; out.steps = 0; out.wr_done = False
    out.monitors = []; out.sig = None
    env = Env(tmp, uid, hist)
    a = Abs()
    if not uses_cells(hist):
        a.cells = {}
    o_prev = env.observe(a)
    fp_prev = env.fingerprint(o_prev)
    last_feats = []
    diverged_accept = False
    for i, op in enumerate(hist):
        expected, predicted = a.predict(op)
        feats = last_feats = a.features(op)
        refmodes = None
        if op[0] in ("upd", "updmod"):
            refmodes = _refmodes(env, a, op)
        accepted, exc, newtok = env.execute(op, a)
        out.steps = i + 1
        b = a.copy()
        b.apply(op, accepted, newtok)
        # bind newly created real specs to the abstract ones
        problem = None
        if op[0] in ("np", "nm"):
            out.nontrivial = True
            if accepted:
                if len(env.newspecs) != 1:
                    problem = ("creation-spec-count", [], "accepted creation registered %d specs" % len(env.newspecs))
                else:
                    env.specobj[len(b.specs) - 1] = env.newspecs[0]
        if a.live() or b.live():
            out.nontrivial = True
        if problem is None and not accepted and expected == "ok":
            problem = ("unexpected-exception", [], "%s refused: %s" % (env.lines[-1][0], exc))
        o = env.observe(b)
        if problem is None:
            problem = env.check(b, o)
        fp = env.fingerprint(o)
        if problem is None and not accepted and fp != fp_prev:
            problem = ("rejected-op-left-trace", [], "%s was refused (%s) but the session changed" % (env.lines[-1][0], exc))
        if refmodes is not None and accepted:
            after = _refmodes(env, b, ("upd", op[1], newtok or (op[3] if op[0] == "upd" and op[3] else op[2]), None))
            # only the references that were bound to the updated value are compared (the new value may already have been
            # bound to other names, which then show up in `after` as well)
            _keys = {tuple(r[:2]) for r in refmodes}
            _ok = sorted(map(repr, refmodes)) == sorted(repr(r) for r in after if tuple(r[:2]) in _keys)
            out.monitors.append(("update-keeps-refmode", _ok))
            if not _ok:
                import os
                if os.environ.get("C18_DEBUG"):
                    print("REFMODE-DIFF", sorted(map(repr, refmodes)), "->", sorted(map(repr, after)), [l[0] for l in env.lines][-6:], flush=True)
        if problem is not None:
            tag, extra, text = problem
            out.fail_step = i + 1
            out.fail = {
                "tags": [tag] + list(extra) + feats,
                "what": "step %d %s: %s" % (i + 1, env.lines[-1][0], text),
                "script": make_script(env, b, tag, i + 1,
                                      expected_ok_failed=(tag == "unexpected-exception"),
                                      rejected_step=(tag == "rejected-op-left-trace")),
                "case": tuple(hist[:i + 1]),
            }
            return out
        a = b
        fp_prev = fp
        if accepted != predicted:
            # the enumeration assumed the other outcome: the rest of the history is not defined; an operation that
            # was accepted although the model expected a refusal gets its write/read-back checked right here
            diverged_accept = accepted
            break
    else:
        diverged_accept = False
    if (do_write or diverged_accept) and a.live():
        sig = (tuple(sorted(a.refs.items())), tuple((s.model, s.file, s.sheet, s.tok, s.alive) for s in a.specs),
               tuple(sorted(a.spaces)), a.inh)
        out.sig = sig
        if diverged_accept or sig not in seen_sigs:
            seen_sigs.add(sig)
            out.wr_done = True
            problem = env.write_read(a)
            if problem is not None:
                tag, extra, text = problem
                last = hist[out.steps - 1]
                out.fail_step = out.steps
                out.fail = {
                    "tags": [tag] + list(extra) + sorted({s.ftype for s in a.live()}) + sorted(a.marks) +
                            (["abs-path"] if any(s.file.startswith("@") for s in a.live()) else []) +
                            (["after-update"] if any(h[0] in ("upd", "updmod") for h in hist[:out.steps]) else []) +
                            (["after-setpath"] if any(h[0] == "setpath" for h in hist[:out.steps]) else []) +
                            (["after-setsheet"] if any(h[0] == "setsheet" for h in hist[:out.steps]) else []) +
                            (["shared-file"] if len({(s.model, s.file) for s in a.live()}) < len(a.live()) else []) +
                            (["after-accepted-" + t for t in last_feats if t.startswith("location-")]
                             if diverged_accept else []),
                    "what": "after %s: %s" % ("; ".join(c for c, _ in env.lines), text),
                    "script": make_script(env, a, "write-read", out.steps),
                    "case": tuple(hist[:out.steps]) + ("write-read",),
                }
    return out


def _refmodes(env, a, op):
    res = []
    for (loc, n) in a.holders(op[2], model_of(op[1])):
        try:
            impl = env.obj[loc]._impl
            r = impl.own_refs[n] if loc != model_of(loc) else impl.global_refs[n]
            res.append((loc, n, r.refmode))
        except Exception:
            res.append((loc, n, "?"))
    return res


# ---------------------------------------------------------------------------------- workers
def _worker(task):
    """task = (kind, payload, deadline, write_cap).  Returns a partial result dict."""
    kind, payload, deadline, write_cap = task
    part = {"evaluations": 0, "distinct": set(), "failures": [], "monitors": {}, "samples": [],
            "complete": True, "writes": 0}
    tmp = tempfile.mkdtemp(prefix="c18_")
    try:
        for k_, s in MOD_SRC.items():
            with open(os.path.join(tmp, k_ + ".py"), "w") as f:
                f.write(s)
        seen = set()
        if kind == "dfs":
            prefix, depth, min_ext, max_ext = payload
            gen = enumerate_histories(prefix, depth, max_ext, min_ext)
        else:
            gen = payload                       # explicit list of histories (random part / write-read part)
        skip = None
        uid = 0
        for hist in gen:
            if skip is not None and tuple(hist[:len(skip)]) == skip:
                continue
            skip = None
            if time.time() > deadline:
                part["complete"] = False
                break
            uid += 1
            if kind == "wr":
                seen = set()
            out = run_history(hist, tmp, uid, part["writes"] < write_cap, seen)
            part["evaluations"] += 1
            if out.wr_done:
                part["writes"] += 1
            key = tuple(hist[:out.steps]) + (("write-read",) if out.wr_done else ())
            if out.nontrivial:
                part["distinct"].add(hashlib.md5(repr(key).encode()).digest()[:8])
            for name, ok in out.monitors:
                m = part["monitors"].setdefault(name, [0, 0])
                m[0] += 1
                m[1] += 0 if ok else 1
            if out.fail is not None:
                part["failures"].append(out.fail)
                skip = tuple(hist[:out.fail_step])      # the histories below this prefix are skipped
            if len(part["samples"]) < 1 and out.nontrivial and out.fail is None:
                part["samples"].append([repr(x) for x in key])
    finally:
        reset()
        shutil.rmtree(tmp, ignore_errors=True)
    return part


def _random_histories(rng, n, lo, hi):
    hs = []
    for _ in range(n):
        a = Abs()
        h = []
        L = rng.randint(lo, hi)
        while len(h) < L:
            core, ext = a.enabled()
            ops = core + ext if rng.random() < 0.5 else core
            if not ops:
                break
            op = ops[rng.randrange(len(ops))]
            a.apply(op, a.predict(op)[1])
            h.append(op)
        hs.append(h)
    return hs


def wr_signature(a, h):
    """What matters for write/read-back: file layout, value kinds, the levels of the holders, what was updated/moved."""
    return (tuple(sorted((s.model, s.file, s.sheet, s.tok[:2],
                          tuple(sorted({k[0].count(".") for k in a.holders(s.tok, s.model)})))
                         for s in a.specs if s.alive)),
            a.inh and any(k[0] == "M1.A" for s in a.specs if s.alive for k in a.holders(s.tok, s.model)),
            tuple(sorted(a.marks)),
            tuple(sorted({op[0] + (":" + str(op[3]) if op[0] in ("upd", "updmod") else "")
                          for op in h if op[0] in ("upd", "updmod", "setpath", "setsheet", "mrename")})))


def wr_representatives(plan, cap):
    """One history per distinct final configuration with a live spec (first in enumeration order), thinned to cap."""
    sigs = {}
    for depth, min_ext, max_ext in plan:
        for h in enumerate_histories([], depth, max_ext, min_ext):
            a = Abs()
            for op in h:
                a.apply(op, a.predict(op)[1])
            if a.live():
                s = wr_signature(a, h)
                if s not in sigs:
                    sigs[s] = h
    hs = list(sigs.values())
    random.Random(0).shuffle(hs)          # so that an unfinished run still covers every kind of configuration
    return hs[:cap], len(sigs)


def dfs_tasks(depth, min_ext, max_ext, deadline):
    """Split one enumeration on its first two ops."""
    tasks = []
    a0 = Abs()
    c0, e0 = a0.enabled()
    for op1 in c0 + (e0 if max_ext > 0 else []):
        a1 = a0.copy(); a1.apply(op1, a1.predict(op1)[1])
        ext1 = 0 if op1 in c0 else 1
        c1, e1 = a1.enabled()
        nxt = c1 + (e1 if max_ext - ext1 > 0 else [])
        if not nxt or depth < 2:
            tasks.append(("dfs", ([op1], depth, min_ext, max_ext), deadline, 0))
            continue
        for op2 in nxt:
            tasks.append(("dfs", ([op1, op2], depth, min_ext, max_ext), deadline, 0))
    # interleave the first ops, so that an unfinished run has touched every kind of first operation
    by1 = {}
    for t in tasks:
        by1.setdefault(t[1][0][0], []).append(t)
    out = []
    while any(by1.values()):
        for k in list(by1):
            if by1[k]:
                out.append(by1[k].pop(0))
    return out


def run(res, tier, seed):
    quick = tier == "quick"
    nproc = max(1, min(14, (os.cpu_count() or 2) - 2))
    # (label, depth, min_ext, max_ext): disjoint parts, most valuable first; a part is either finished or reported unfinished
    if quick:
        parts = [("len<=3, <=2 extended ops", 3, 0, 2), ("WR", [(3, 0, 2)], 1500),
                 ("len 3, 3 extended ops", 3, 3, 3), ("len 4, <=1 extended op", 4, 0, 1)]
    else:
        parts = [("len<=3, any ops", 3, 0, 3), ("WR", [(3, 0, 3), (4, 0, 1)], 4000),
                 ("len 4, <=2 extended ops", 4, 0, 2), ("RANDOM", 5, 8),
                 ("len 6, core ops", 6, 0, 0), ("len 5, <=1 extended op", 5, 0, 1)]
    res.bound = ("2 models (M1: spaces A, A.C, B; M2: space A), names d/e, <= 3 specs, values 2 DataFrames + 1 Series + "
                 "1 module + plain/interface values, files: 2 excel files x 2 sheets / default sheet, csv, absolute path, "
                 "module files; histories: " +
                 ("all of length <= 3 over the full alphabet, length 4 with <= 1 extended op" if quick else
                  "length <= 4 with <= 2 extended ops, length 5 with <= 1, length 6 over the core alphabet, "
                  "plus seeded random histories of length 5-8 over the full alphabet") +
                 " (see notes for the parts finished within the time budget)")
    res.rule = ("histories are enumerated symbolically (c18_model.Abs.enabled: core ops = create / bind further name / "
                "rebind same object or scalar / delete ref / delete space / update / add-remove bases / close; extended ops "
                "vary one dimension: location, name kind (cells, space, invalid, own ref), file kind, value kind, spec path/"
                "sheet, second model, model rename) and replayed on modelx, the contract being checked after every step; "
                "write + read-back runs on one history per distinct final configuration (files, sheets, value kinds, holder "
                "locations, update/move marks); the subtree below a failing prefix is skipped. "
                "non-trivial = an IOSpec creation was attempted or a spec was live during the history; "
                "distinct = distinct executed op sequence (+ 'write-read')")
    deadline = res.t0 + res.budget_s * (0.78 if quick else 0.88)
    reported = set()
    ctx = mp.get_context("fork")
    with ctx.Pool(nproc) as pool:
        # the parts are queued one after the other, except the last two of the thorough tier, which are queued
        # alternately (both progress when time is short)
        plan = []                                     # (label, [tasks])
        for p in parts:
            if p[0] == "WR":
                # (computed in the main process; the workers are already busy with the parts queued before)
                plan.append(("WR", p))
            elif p[0] == "RANDOM":
                ts = []
                for i in range(nproc * 4):
                    rng = random.Random("%d/%d" % (seed, i))
                    ts.append(("list", _random_histories(rng, 1500, p[1], p[2]), deadline, 5))
                plan.append(("random histories of length %d-%d" % (p[1], p[2]), ts))
            else:
                plan.append((p[0], dfs_tasks(p[1], p[2], p[3], deadline)))
        groups = []                                   # [label, [async results]]
        nseq = len(plan) if quick else len(plan) - 2
        for label, ts in plan[:nseq]:
            if label == "WR":
                hs, nsig = wr_representatives(ts[1], ts[2])
                n = max(1, len(hs) // (nproc * 6))
                groups.append(["write/read-back on %d of %d distinct final configurations" % (len(hs), nsig),
                               [pool.apply_async(_worker, (("wr", hs[i:i + n], deadline, 10 ** 9),))
                                for i in range(0, len(hs), n)]])
            else:
                groups.append([label, [pool.apply_async(_worker, (t,)) for t in ts]])
        rest = [[label, list(ts)] for label, ts in plan[nseq:]]
        tail = [[label, []] for label, _ in rest]
        while any(ts for _, ts in rest):
            for j, (_, ts) in enumerate(rest):
                if ts:
                    tail[j][1].append(pool.apply_async(_worker, (ts.pop(0),)))
        groups += tail
        all_complete = True
        for label, asyncs in groups:
            complete = True
            n_eval = 0
            for ar in asyncs:
                part = ar.get()
                n_eval += part["evaluations"]
                res.evaluations += part["evaluations"]
                res._distinct |= part["distinct"]
                for f in part["failures"]:
                    if f["case"] in reported:      # the same failing prefix reached from another task
                        continue
                    reported.add(f["case"])
                    res.fail(f["tags"], f["what"], script=f["script"], case=f["case"])
                for name, (n_, bad) in part["monitors"].items():
                    m = res.monitors.setdefault(name, {"evaluations": 0, "failed": 0})
                    m["evaluations"] += n_
                    m["failed"] += bad
                for s in part["samples"]:
                    res.sample(s)
                complete = complete and part["complete"]
            res.notes.append("%s: %d histories, %s" % (label, n_eval, "finished" if complete else "NOT finished (time budget)"))
            all_complete = all_complete and complete
    res.exhaustive = all_complete


if __name__ == "__main__":
    main("C18", run)
