"""Vocabulary of the C02 driver: small worlds, their queries (with dependency-path tags) and edit operations
(with edit-kind tags).  Every line is plain modelx user code executed with `m` bound to the model.

Values are chosen so that every definition contributes a distinguishable amount to every answer that depends
on it (a stale answer therefore differs from the fresh one).

An edit may carry a `probe`: an expression evaluated on a finished replay model (definitions only) that
returns extra, state-dependent tags for the edit ("creates" / "changes" / "shadows a model-level ref" ...).
Probes only refine failure tags; they never decide pass/fail.
"""
from collections import namedtuple

Q = namedtuple("Q", "expr tags probe")
E = namedtuple("E", "line tags probe")
World = namedtuple("World", "name build queries edits")


def q(expr, *tags, unc=()):
    """A query.  `unc`: dotted paths of cells on its dependency path whose cached flag some edit may change; the
    tag via:uncached-callee is then added when one of them is uncached in the state that held the value."""
    tags = list(tags)
    if any(t == "attr-any-kind" or (t.startswith("attr-") and t.endswith("-ref")) for t in tags):
        tags.append("attr-ref")
    probe = "_unc(m, %s)" % ", ".join(repr(u) for u in unc) if unc else None
    return Q(expr, tuple("path:" + t if ":" not in t else t for t in tags), probe)


def e(line, *tags, probe=None):
    return E(line, tuple("edit:" + t if ":" not in t else t for t in tags), probe)


def cells(space, name, body, cached=True, style="lambda", params=""):
    """A build/edit line creating cells `name` in `space` (an expression) returning `body`."""
    extra = "" if cached else ", is_cached=False"
    return "%s.new_cells(%r, formula=%r%s)" % (space, name, fsrc(name, body, style, params), extra)


def fsrc(name, body, style="lambda", params=""):
    if style == "lambda":
        return "lambda %s: %s" % (params, body)
    return "def %s(%s):\n    return %s" % (name, params, body)


# ---------------------------------------------------------------------------------------------- probes
def _space_ref_kind(m, space, name):
    try:
        impl = space._impl
        if name in impl.own_refs:
            return ("edit:space-ref-override-derived",) if impl.own_refs[name].is_derived() \
                else ("edit:space-ref-change",)
        if name in m._impl.global_refs:
            return ("edit:space-ref-create", "shadows-model-ref")
        return ("edit:space-ref-create",)
    except Exception:
        return ("edit:space-ref-create",)


def _model_ref_kind(m, name):
    try:
        return ("edit:model-ref-change",) if name in m._impl.global_refs else ("edit:model-ref-create",)
    except Exception:
        return ()


def _space_ref_del_kind(m, space, name):
    try:
        return ("uncovers-model-ref",) if name in m._impl.global_refs else ()
    except Exception:
        return ()


def _uncached(m, *paths):
    for p in paths:
        try:
            o = m
            for part in p.split("."):
                o = getattr(o, part)
            if o.is_cached is False:
                return ("via:uncached-callee",)
        except Exception:
            pass
    return ()


PROBE_ENV = {"_srk": _space_ref_kind, "_mrk": _model_ref_kind, "_sdk": _space_ref_del_kind, "_unc": _uncached}


def sref(space, name, value, *tags, how="attr"):
    """Edit: set reference `name` of `space` to `value` (source text)."""
    if how == "attr":
        line = "%s.%s = %s" % (space, name, value)
    elif how in ("absolute", "relative", "auto"):
        line = "%s.set_ref(%r, %s, %r)" % (space, name, value, how)
        tags = tags + ("refmode-" + how,)
    return e(line, "space-ref-set", *tags, probe="_srk(m, %s, %r)" % (space, name))


def sdel(space, name, *tags):
    return e("del %s.%s" % (space, name), "space-ref-delete", *tags, probe="_sdk(m, %s, %r)" % (space, name))


def mref(name, value, *tags):
    return e("m.%s = %s" % (name, value), "model-ref-set", *tags, probe="_mrk(m, %r)" % name)


def mdel(name, *tags):
    return e("del m.%s" % name, "model-ref-delete", *tags)


WORLDS = []

# ------------------------------------------------------------------------------------------------------------
# W1  a reference of a space (S.x), reached by name, through cached / uncached cells, from another space by
#     attribute path, through a reference to the space; the model-level x behind it (fallback / shadowing).
WORLDS.append(World(
    "space-ref",
    build=[
        "S = m.new_space('S')",
        "S.x = 3",
        "T = m.new_space('T')",
        "T.s = S",
        cells("S", "a", "x"),
        cells("S", "ca", "a() + 100", style="def"),
        cells("S", "u", "x * 2", cached=False),
        cells("S", "cu", "u() + 200"),
        cells("S", "ccu", "cu() + 1000"),
        cells("S", "sp", "_space.x + 300"),
        cells("T", "t", "_model.S.x + 400", style="def"),
        cells("T", "ts", "s.x + 500"),
        cells("T", "tu", "_model.S.x + 600", cached=False),
        cells("T", "ctu", "tu() + 1"),
        cells("T", "ta", "_model.S.a() + 700"),
        cells("T", "txu", "_model.S.u() + 800"),
    ],
    queries=[
        q("m.S.a()", "name-space-ref"),
        q("m.S.ca()", "name-space-ref", "via:cached-callee"),
        q("m.S.cu()", "name-space-ref", "via:uncached-callee"),
        q("m.S.ccu()", "name-space-ref", "via:uncached-callee", "via:cached-callee"),
        q("m.S.sp()", "attr-self-space-ref"),
        q("m.T.t()", "attr-model-space-ref"),
        q("m.T.ts()", "attr-refd-space-ref"),
        q("m.T.ctu()", "attr-model-space-ref", "via:uncached-callee"),
        q("m.T.ta()", "name-space-ref", "via:cached-callee", "via:attr-cells"),
        q("m.T.txu()", "name-space-ref", "via:uncached-callee", "caller-in-other-space"),
    ],
    edits=[
        sref("m.S", "x", 5),
        sref("m.S", "x", 7),
        sdel("m.S", "x"),
        mref("x", 11, "same-name-as-space-ref"),
        mref("x", 13, "same-name-as-space-ref"),
        mdel("x", "same-name-as-space-ref"),
        sref("m.S", "x", 17, how="absolute"),
        sref("m.T", "s", "m.T", "ref-to-space-retarget"),
        sref("m.T", "x", 19, "other-space"),
        e("m.S.a.formula = 'lambda: x + 10000'", "formula-set"),
        e("m.S.a = 23", "value-assign"),
        e("m.S.a.clear_all()", "value-clear"),
    ],
))

# ------------------------------------------------------------------------------------------------------------
# W2  a child space: its reference read by attribute path (Ch.y), its cells called by attribute path, deeper
#     paths from another space; deletion / re-creation / renaming of the child and of the parent.
WORLDS.append(World(
    "child-space",
    build=[
        "S = m.new_space('S')",
        "Ch = S.new_space('Ch')",
        "Ch.y = 4",
        "S.z = 2",
        "T = m.new_space('T')",
        "T.y = 1",
        cells("Ch", "up", "_space.parent.z + 600"),
        cells("Ch", "f", "y + 10"),
        cells("S", "c", "Ch.y", style="def"),
        cells("S", "cf", "Ch.f() + 100"),
        cells("S", "u", "Ch.y * 2", cached=False),
        cells("S", "cu", "u() + 200"),
        cells("S", "uf", "Ch.f() * 2", cached=False),
        cells("S", "cuf", "uf() + 300"),
        cells("T", "tc", "_model.S.Ch.y + 400"),
        cells("T", "tf", "_model.S.Ch.f() + 500", style="def"),
    ],
    queries=[
        q("m.S.Ch.f()", "name-space-ref"),
        q("m.S.c()", "attr-child-ref"),
        q("m.S.cf()", "attr-child-cells"),
        q("m.S.cu()", "attr-child-ref", "via:uncached-callee"),
        q("m.S.cuf()", "attr-child-cells", "via:uncached-callee"),
        q("m.T.tc()", "attr-deep-ref"),
        q("m.T.tf()", "attr-deep-cells"),
        q("m.S.Ch.up()", "attr-parent-ref"),
    ],
    edits=[
        sref("m.S.Ch", "y", 6),
        sdel("m.S.Ch", "y"),
        mref("y", 8, "same-name-as-space-ref"),
        mdel("y", "same-name-as-space-ref"),
        e("del m.S.Ch", "space-delete"),
        e("m.S.new_space('Ch')", "space-create"),
        e("m.S.new_space('Ch', refs={'y': 9})", "space-create"),
        e("m.S.Ch.rename('Kid')", "space-rename"),
        e("m.S.Kid.rename('Ch')", "space-rename"),
        e("m.S.Ch = m.T", "space-ref-set", "ref-takes-name-of-deleted-space"),
        e("m.S.Ch.f.formula = 'lambda: y + 20'", "formula-set"),
        e("del m.S.Ch.f", "cells-delete"),
        e(cells("m.S.Ch", "f", "y + 30"), "cells-create"),
        e(cells("m.T", "f", "y + 40"), "cells-create", "other-space"),
        e("m.S.Ch.f.rename('f2')", "cells-rename"),
        e("m.S.rename('S2')", "space-rename", "parent-space"),
        sref("m.S", "z", 5, "in-parent-space"),
    ],
))

# ------------------------------------------------------------------------------------------------------------
# W3  a model-level reference g: by name from two spaces, as _model.g, through a space (_model.S.g), shadowed
#     and unshadowed in the space, read in an ItemSpace.
WORLDS.append(World(
    "model-ref",
    build=[
        "m.g = 1",
        "S = m.new_space('S')",
        "T = m.new_space('T')",
        "P = m.new_space('P', formula=lambda i: None)",
        cells("S", "b", "g"),
        cells("S", "cb", "b() + 100"),
        cells("S", "ub", "g * 2", cached=False),
        cells("S", "cub", "ub() + 200", style="def"),
        cells("T", "tg", "_model.g + 300"),
        cells("T", "tsg", "_model.S.g + 400"),
        cells("T", "tb", "g + 500"),
        cells("T", "utsg", "_model.S.g + 600", cached=False),
        cells("T", "cutsg", "utsg() + 1"),
        cells("P", "pg", "g + i * 1000"),
    ],
    queries=[
        q("m.S.b()", "name-model-ref"),
        q("m.S.cb()", "name-model-ref", "via:cached-callee"),
        q("m.S.cub()", "name-model-ref", "via:uncached-callee"),
        q("m.T.tg()", "attr-model-ref"),
        q("m.T.tsg()", "attr-space-model-ref"),
        q("m.T.tb()", "name-model-ref", "other-space"),
        q("m.T.cutsg()", "attr-space-model-ref", "via:uncached-callee"),
        q("m.P[1].pg()", "name-model-ref", "in-itemspace"),
    ],
    edits=[
        mref("g", 7),
        mref("g", 9),
        mdel("g"),
        sref("m.S", "g", 20),
        sref("m.S", "g", 30),
        sdel("m.S", "g"),
        sref("m.T", "g", 40),
        sdel("m.T", "g"),
        sref("m.P", "g", 50),
        sdel("m.P", "g"),
        mref("h", 60, "unrelated-name"),
        e("m.new_space('g')", "space-create", "takes-name-of-deleted-model-ref"),
        e("del m.S", "space-delete"),
    ],
))

# ------------------------------------------------------------------------------------------------------------
# W4  inheritance: two bases defining the same reference and cells, a sub space and a sub-sub space; derived
#     members read by name inside the sub and by attribute path from outside; overriding, deleting, add/remove
#     bases, deleting a base space.
WORLDS.append(World(
    "inheritance",
    build=[
        "B1 = m.new_space('B1')",
        "B1.r = 1",
        "B2 = m.new_space('B2')",
        "B2.r = 2",
        cells("B1", "foo", "r + 10"),
        cells("B2", "foo", "r + 20"),
        cells("B2", "bar", "foo() + 100", style="def"),
        "Sub = m.new_space('Sub', bases=[B1, B2])",
        "Sub2 = m.new_space('Sub2', bases=Sub)",
        "T = m.new_space('T')",
        cells("T", "t", "_model.Sub.r + 1000"),
        cells("T", "t2", "_model.Sub2.r + 2000"),
        cells("T", "tf", "_model.Sub.foo() + 3000"),
        cells("T", "ut", "_model.Sub.r + 4000", cached=False),
        cells("T", "cut", "ut() + 1"),
    ],
    queries=[
        q("m.B1.foo()", "name-space-ref", "in-base"),
        q("m.Sub.foo()", "name-derived-ref", "derived-cells"),
        q("m.Sub.bar()", "name-derived-ref", "derived-cells", "via:cached-callee", unc=("Sub.foo",)),
        q("m.Sub2.bar()", "name-derived-ref", "derived-cells", "via:cached-callee", "second-level-sub",
          unc=("Sub2.foo",)),
        q("m.T.t()", "attr-derived-ref"),
        q("m.T.t2()", "attr-derived-ref", "second-level-sub"),
        q("m.T.tf()", "attr-derived-cells", "caller-in-other-space", unc=("Sub.foo",)),
        q("m.T.cut()", "attr-derived-ref", "via:uncached-callee"),
    ],
    edits=[
        sref("m.B1", "r", 3, "in-base"),
        sref("m.B2", "r", 4, "in-base"),
        sdel("m.B1", "r", "in-base"),
        sref("m.Sub", "r", 5, "in-sub"),
        sdel("m.Sub", "r", "in-sub"),
        e("m.B1.foo.formula = 'lambda: r + 30'", "formula-set", "in-base"),
        e("m.Sub.foo.formula = 'lambda: r + 40'", "formula-set", "in-sub", "overrides-derived-cells"),
        e("del m.B1.foo", "cells-delete", "in-base"),
        e("del m.Sub.foo", "cells-delete", "in-sub"),
        e(cells("m.B1", "bar", "foo() + 200"), "cells-create", "in-base"),
        e("m.Sub.remove_bases(m.B1)", "remove-bases"),
        e("m.Sub.add_bases(m.B1)", "add-bases"),
        e("m.Sub.remove_bases(m.B2)", "remove-bases"),
        e("del m.B1", "space-delete", "base-space"),
        e("m.B1.foo.is_cached = False", "cached-flag", "in-base"),
        e("m.B2.bar.rename('bar2')", "cells-rename", "in-base"),
    ],
))

# ------------------------------------------------------------------------------------------------------------
# W5  cells with arguments: formula changes, deletion / re-creation / renaming, cached flag, values, reached by
#     name, through cached and uncached callers, by attribute path, through a reference bound to the cells
#     object, and as derived cells of a sub space.
WORLDS.append(World(
    "cells-life",
    build=[
        "S = m.new_space('S')",
        "S.x = 1",
        cells("S", "f", "x + i", style="def", params="i"),
        cells("S", "g", "f(1) + f(2) * 10"),
        cells("S", "h", "g() + 100", style="def"),
        cells("S", "u", "f(1) * 3", cached=False),
        cells("S", "cu", "u() + 200"),
        "T = m.new_space('T')",
        "T.fr = S.f",
        cells("T", "tf", "_model.S.f(1) + 1000"),
        cells("T", "tr", "fr(2) + 2000"),
        "Sub = m.new_space('Sub', bases=S)",
    ],
    queries=[
        q("m.S.f(1)", "own-value"),
        q("m.S.g()", "call-by-name", unc=("S.f",)),
        q("m.S.h()", "call-by-name", "via:cached-callee", unc=("S.f",)),
        q("m.S.cu()", "call-by-name", unc=("S.f", "S.u")),
        q("m.T.tf()", "call-by-attr", "caller-in-other-space", unc=("S.f",)),
        q("m.T.tr()", "call-by-ref-to-cells", "caller-in-other-space", unc=("S.f",)),
        q("m.Sub.g()", "call-by-name", "derived-cells", unc=("Sub.f",)),
        q("m.Sub.f(2)", "own-value", "derived-cells"),
        q("m.S.f9(1)", "own-value", "renamed"),
    ],
    edits=[
        e("m.S.f.formula = %r" % fsrc("f", "x + i * 2", "def", "i"), "formula-set"),
        e("m.S.f.formula = 'lambda i: x + i * 3'", "formula-set"),
        e("del m.S.f", "cells-delete"),
        e(cells("m.S", "f", "x + i * 4", params="i"), "cells-create"),
        e("m.S.f.rename('f9')", "cells-rename"),
        e("m.S.f9.rename('f')", "cells-rename"),
        e("m.S.g.formula = 'lambda: f(1) + f(3) * 10'", "formula-set", "caller"),
        e("m.S.f.is_cached = False", "cached-flag"),
        e("m.S.f.is_cached = True", "cached-flag"),
        e("m.S.u.is_cached = True", "cached-flag"),
        e("m.S.f[1] = 50", "value-assign"),
        e("m.S.f.clear_all()", "value-clear"),
        e("m.Sub.f.formula = 'lambda i: x + i * 5'", "formula-set", "in-sub", "overrides-derived-cells"),
        e("del m.S.f.formula", "formula-delete"),
        e("m.S.f.doc = 'doc'", "formula-set", "doc"),
        e("m.S.sort_cells()", "cells-sort"),
    ],
))

# ------------------------------------------------------------------------------------------------------------
# W6  ItemSpaces: cells of an ItemSpace read references of the parametric space by name, the dynamic copy of a
#     child space, a parameter formula that reads a reference and calls cells; callers outside reach into the
#     ItemSpace by attribute path.
WORLDS.append(World(
    "itemspace",
    build=[
        "m.g = 1",
        "P = m.new_space('P', formula=lambda i: None)",
        "P.x = 2",
        cells("P", "c", "x + i * 10 + g * 100"),
        cells("P", "d", "c() + 1000", style="def"),
        "PC = P.new_space('PC')",
        "PC.y = 3",
        cells("PC", "ee", "y + 5"),
        cells("P", "k", "PC.y + 7"),
        "R = m.new_space('R')",
        "R.z = 4",
        cells("R", "base", "z * 2"),
        "R.formula = lambda j: {'refs': {'kk': base() + j}}",
        cells("R", "v", "kk + 1"),
        "T = m.new_space('T')",
        cells("T", "t", "_model.P[1].c() + 7000"),
        cells("T", "tv", "_model.R[1].v() + 8000"),
    ],
    queries=[
        q("m.P[1].c()", "name-space-ref", "in-itemspace"),
        q("m.P[1].d()", "name-space-ref", "in-itemspace", "via:cached-callee"),
        q("m.P[2].c()", "name-space-ref", "in-itemspace", "second-item"),
        q("m.P[1].PC.ee()", "name-space-ref", "in-dynamic-child"),
        q("m.P[1].k()", "attr-child-ref", "in-itemspace"),
        q("m.R[1].v()", "name-itemspace-ref", "param-formula-calls-cells"),
        q("m.R.base()", "name-space-ref"),
        q("m.T.t()", "attr-into-itemspace"),
        q("m.T.tv()", "attr-into-itemspace", "param-formula-calls-cells"),
    ],
    edits=[
        sref("m.P", "x", 5),
        sdel("m.P", "x"),
        mref("g", 6),
        mref("x", 8, "same-name-as-space-ref"),
        sref("m.P.PC", "y", 9, "in-child-space"),
        sref("m.R", "z", 11),
        e("m.R.base.formula = 'lambda: z * 3'", "formula-set", "called-by-param-formula"),
        e("m.R.base = 70", "value-assign", "called-by-param-formula"),
        e("m.R.base.clear_all()", "value-clear", "called-by-param-formula"),
        e("m.R.formula = lambda j: {'refs': {'kk': base() + j * 2}}", "space-formula-set"),
        e("m.P.formula = lambda i: {'refs': {'x': 50}}", "space-formula-set"),
        e("m.P.c.formula = 'lambda: x + i * 20 + g * 100'", "formula-set"),
        e("try:\n    del m.P[1]\nexcept KeyError:\n    pass", "itemspace-delete"),
        e("m.P.clear_items()", "itemspace-delete"),
        e("m.P.clear_all()", "value-clear", "space-wide"),
        e(cells("m.P", "n", "x"), "cells-create"),
        e("del m.P.PC", "space-delete", "child-of-parametric-space"),
    ],
))

# ------------------------------------------------------------------------------------------------------------
# W7  values: assigning, overwriting, clearing elements of a recursive cells and its callers, space- and
#     model-wide clearing, together with a reference change.
WORLDS.append(World(
    "values",
    build=[
        "S = m.new_space('S')",
        "S.x = 1",
        cells("S", "f", "f(n - 1) + x if n > 0 else 10", style="def", params="n"),
        cells("S", "g", "f(n) * 2", params="n"),
        cells("S", "h", "g(2) + f(1) + 1000"),
        cells("S", "uf", "f(n) + 5", params="n", cached=False),
        cells("S", "k", "uf(2) + 3000"),
        "T = m.new_space('T')",
        cells("T", "t", "_model.S.f(2) + 7000"),
    ],
    queries=[
        q("m.S.f(0)", "own-value"),
        q("m.S.f(2)", "call-by-name", "recursive"),
        q("m.S.f(3)", "call-by-name", "recursive"),
        q("m.S.g(2)", "call-by-name"),
        q("m.S.h()", "call-by-name", "via:cached-callee"),
        q("m.S.k()", "call-by-name", "via:uncached-callee"),
        q("m.T.t()", "call-by-attr"),
    ],
    edits=[
        e("m.S.f[0] = 100", "value-assign"),
        e("m.S.f[1] = 200", "value-assign"),
        e("m.S.f[1] = 300", "value-assign"),
        e("m.S.f.clear_at(1)", "value-clear"),
        e("m.S.f.clear_at(0)", "value-clear"),
        e("m.S.f.clear()", "value-clear", "computed-only"),
        e("m.S.f.clear_all()", "value-clear"),
        e("m.S.g[2] = 7", "value-assign", "caller"),
        e("m.S.h = 9", "value-assign", "scalar"),
        e("del m.S.h.value", "value-clear", "scalar"),
        e("m.S.clear_all()", "value-clear", "space-wide"),
        e("m.S.clear_cells()", "value-clear", "space-wide", "computed-only"),
        e("m.clear_all()", "value-clear", "model-wide"),
        sref("m.S", "x", 2),
    ],
))

# ------------------------------------------------------------------------------------------------------------
# W8  references bound to objects: a cells object, a space object; re-targeting, deleting and renaming the
#     target; a reference of a base to its own cells (relative in the sub space).
WORLDS.append(World(
    "object-refs",
    build=[
        "A = m.new_space('A')",
        "A.v = 1",
        cells("A", "foo", "v + 10"),
        "A2 = m.new_space('A2')",
        "A2.v = 2",
        cells("A2", "foo", "v + 20"),
        "S = m.new_space('S')",
        "S.r = A.foo",
        "S.sp = A",
        cells("S", "c", "r() + 100"),
        cells("S", "d", "sp.foo() + 200", style="def"),
        cells("S", "ee", "sp.v + 300"),
        "B = m.new_space('B')",
        "B.w = 5",
        cells("B", "own", "w + 40"),
        "B.rf = B.own",
        cells("B", "qq", "rf() + 400"),
        "Sub = m.new_space('Sub', bases=B)",
        "T = m.new_space('T')",
        cells("T", "t", "_model.S.r() + 500"),
    ],
    queries=[
        q("m.S.c()", "call-by-ref-to-cells"),
        q("m.S.d()", "attr-refd-space-cells"),
        q("m.S.ee()", "attr-refd-space-ref"),
        q("m.B.qq()", "call-by-ref-to-cells", "in-base"),
        q("m.Sub.qq()", "call-by-ref-to-cells", "derived-relative-ref"),
        q("m.T.t()", "attr-space-ref-to-cells"),
    ],
    edits=[
        sref("m.S", "r", "m.A2.foo", "ref-to-cells-retarget"),
        sref("m.S", "sp", "m.A2", "ref-to-space-retarget"),
        sref("m.A", "v", 6, "in-target-space"),
        e("m.A.foo.formula = 'lambda: v + 30'", "formula-set", "in-target-space"),
        e("del m.A.foo", "cells-delete", "ref-target"),
        e("m.A.foo.rename('foo2')", "cells-rename", "ref-target"),
        e("del m.A", "space-delete", "ref-target"),
        e("m.A.rename('A9')", "space-rename", "ref-target"),
        sref("m.B", "w", 7, "in-base"),
        sref("m.Sub", "w", 8, "in-sub"),
        e("m.B.own.formula = 'lambda: w + 50'", "formula-set", "in-base"),
        e("m.Sub.own.formula = 'lambda: w + 60'", "formula-set", "in-sub", "overrides-derived-cells"),
        sref("m.B", "rf", "m.A2.foo", "ref-to-cells-retarget", "in-base"),
        sref("m.Sub", "rf", "m.A2.foo", "ref-to-cells-retarget", "in-sub"),
        sref("m.S", "r", "m.A.foo", "ref-to-cells-retarget", how="absolute"),
    ],
))

# ------------------------------------------------------------------------------------------------------------
# W9  one name, successively a model-level reference, a reference / a cells / a child space of S (each shadows
#     the model-level one): read by name in S and by attribute path from T.  `val` calls callables.
WORLDS.append(World(
    "name-kinds",
    build=[
        "m.val = lambda v: v() if callable(v) else v",
        "m.n = 5",
        "S = m.new_space('S')",
        "T = m.new_space('T')",
        cells("S", "p", "val(n) + 100"),
        cells("S", "cp", "p() + 1000", style="def"),
        cells("S", "up", "val(n) + 200", cached=False),
        cells("S", "cup", "up() + 2000"),
        cells("T", "t", "val(_model.S.n) + 300"),
        cells("T", "tp", "_model.S.p() + 400"),
    ],
    queries=[
        q("m.S.p()", "name-any-kind"),
        q("m.S.cp()", "name-any-kind", "via:cached-callee"),
        q("m.S.cup()", "name-any-kind", "via:uncached-callee"),
        q("m.T.t()", "attr-any-kind"),
        q("m.T.tp()", "name-any-kind", "via:cached-callee", "via:attr-cells"),
    ],
    edits=[
        mref("n", 6),
        mdel("n"),
        sref("m.S", "n", 7),
        sref("m.S", "n", 8),
        e(cells("m.S", "n", "9"), "cells-create", "may-shadow-model-ref"),
        e("m.S.n.formula = 'lambda: 10'", "formula-set"),
        sref("m.S", "n", 11, "or-scalar-cells-value"),
        e("m.S.new_space('n')", "space-create", "may-shadow-model-ref"),
        e("del m.S.n", "delete-by-name-any-kind"),
        e("m.S.n.rename('n2')", "rename-any-kind"),
        e("m.S.n2.rename('n')", "rename-any-kind"),
        sref("m.T", "n", 12, "other-space"),
    ],
))

# ------------------------------------------------------------------------------------------------------------
# W10  parametric spaces and inheritance: a parametric space derived from two bases (ItemSpaces serve derived
#      cells and references), an ItemSpace whose base is another space chosen by the parameter formula.
WORLDS.append(World(
    "param-inherit",
    build=[
        "B1 = m.new_space('B1')",
        "B1.r = 1",
        cells("B1", "foo", "r + 10"),
        "B2 = m.new_space('B2')",
        "B2.r = 2",
        cells("B2", "foo", "r + 20"),
        "P = m.new_space('P', bases=[B1, B2], formula=lambda i: None)",
        cells("P", "c", "foo() * 10 + i", style="def"),
        "X = m.new_space('X')",
        "X.w = 3",
        cells("X", "h", "w + kk * 100"),
        "X.kk = 0",
        "D = m.new_space('D', formula=lambda k: {'base': _model.X, 'refs': {'kk': k}})",
        "T = m.new_space('T')",
        cells("T", "t", "_model.P[1].foo() + 5000"),
        cells("T", "td", "_model.D[2].h() + 6000"),
    ],
    queries=[
        q("m.P.foo()", "name-derived-ref", "derived-cells"),
        q("m.P[1].foo()", "name-derived-ref", "derived-cells", "in-itemspace"),
        q("m.P[1].c()", "name-derived-ref", "derived-cells", "in-itemspace", "via:cached-callee", unc=("P.foo",)),
        q("m.P[2].c()", "name-derived-ref", "derived-cells", "in-itemspace", "via:cached-callee", "second-item",
          unc=("P.foo",)),
        q("m.D[2].h()", "name-space-ref", "in-itemspace", "itemspace-of-other-base"),
        q("m.X.h()", "name-space-ref"),
        q("m.T.t()", "attr-into-itemspace", "derived-cells", "caller-in-other-space", unc=("P.foo",)),
        q("m.T.td()", "attr-into-itemspace", "itemspace-of-other-base"),
    ],
    edits=[
        sref("m.B1", "r", 3, "in-base"),
        sdel("m.B1", "r", "in-base"),
        sref("m.P", "r", 4, "in-sub"),
        e("m.B1.foo.formula = 'lambda: r + 30'", "formula-set", "in-base"),
        e("m.P.foo.formula = 'lambda: r + 40'", "formula-set", "in-sub", "overrides-derived-cells"),
        e("del m.B1.foo", "cells-delete", "in-base"),
        e("m.P.remove_bases(m.B1)", "remove-bases"),
        e("m.P.add_bases(m.B1)", "add-bases"),
        e("del m.B1", "space-delete", "base-space"),
        e("m.B1.foo.is_cached = False", "cached-flag", "in-base"),
        sref("m.X", "w", 5, "in-itemspace-base"),
        e("m.X.h.formula = 'lambda: w + kk * 200'", "formula-set", "in-itemspace-base"),
        e("m.X.h = 77", "value-assign", "in-itemspace-base"),
        e("m.D.formula = lambda k: {'base': _model.X, 'refs': {'kk': k + 1}}", "space-formula-set"),
        e("m.D.formula = lambda k: {'base': _model.B1, 'refs': {'h': (lambda: 9)}}", "space-formula-set", "other-base"),
        e("m.P.formula = lambda i, j=0: None", "space-formula-set", "parameters"),
    ],
))
