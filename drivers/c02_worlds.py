"""Vocabulary of the C02 driver: small worlds, their queries (with dependency-path tags) and edit operations
(with edit-kind tags).  Every line is plain modelx user code executed with `m` bound to the model.

Values are chosen so that every definition contributes a distinguishable amount to every answer that depends
on it (a stale answer therefore differs from the fresh one).

An edit may carry a `probe`: an expression evaluated on a finished replay model (definitions only) that
returns extra, state-dependent tags for the edit ("creates" / "changes" / "shadows a model-level ref" ...).
Probes only refine failure tags; they never decide pass/fail.
"""
from collections import namedtuple

Q = namedtuple("Q", "expr tags probe")
E = namedtuple("E", "line tags probe")
World = namedtuple("World", "name build queries edits")


def q(expr, *tags, unc=()):
    """A query.  `unc`: dotted paths of cells on its dependency path whose cached flag some edit may change; the
    tag via:uncached-callee is then added when one of them is uncached in the state that held the value."""
    tags = list(tags)
    if any(t == "attr-any-kind" or (t.startswith("attr-") and t.endswith("-ref")) for t in tags):
        tags.append("attr-ref")
    probe = "_unc(m, %s)" % ", ".join(repr(u) for u in unc) if unc else None
    return Q(expr, tuple("path:" + t if ":" not in t else t for t in tags), probe)


def e(line, *tags, probe=None):
    return E(line, tuple("edit:" + t if ":" not in t else t for t in tags), probe)


def cells(space, name, body, cached=True, style="lambda", params=""):
    """A build/edit line creating cells `name` in `space` (an expression) returning `body`."""
    extra = "" if cached else ", is_cached=False"
    return "%s.new_cells(%r, formula=%r%s)" % (space, name, fsrc(name, body, style, params), extra)


def fsrc(name, body, style="lambda", params=""):
    if style == "lambda":
        return "lambda %s: %s" % (params, body)
    return "def %s(%s):\n    return %s" % (name, params, body)


# ---------------------------------------------------------------------------------------------- probes
def _space_ref_kind(m, space, name):
    try:
        impl = space._impl
        if name in impl.own_refs:
            return ("edit:space-ref-override-derived",) if impl.own_refs[name].is_derived() \
                else ("edit:space-ref-change",)
        if name in m._impl.global_refs:
            return ("edit:space-ref-create", "shadows-model-ref")
        return ("edit:space-ref-create",)
    except Exception:
        return ("edit:space-ref-create",)


def _model_ref_kind(m, name):
    try:
        return ("edit:model-ref-change",) if name in m._impl.global_refs else ("edit:model-ref-create",)
    except Exception:
        return ()


def _space_ref_del_kind(m, space, name):
    try:
        return ("uncovers-model-ref",) if name in m._impl.global_refs else ()
    except Exception:
        return ()


def _uncached(m, *paths):
    for p in paths:
        try:
            o = m
            for part in p.split("."):
                o = getattr(o, part)
            if o.is_cached is False:
                return ("via:uncached-callee",)
        except Exception:
            pass
    return ()


PROBE_ENV = {"_srk": _space_ref_kind, "_mrk": _model_ref_kind, "_sdk": _space_ref_del_kind, "_unc": _uncached}


def sref(space, name, value, *tags, how="attr"):
    """Edit: set reference `name` of `space` to `value` (source text)."""
    if how == "attr":
        line = "%s.%s = %s" % (space, name, value)
    elif how in ("absolute", "relative", "auto"):
        line = "%s.set_ref(%r, %s, %r)" % (space, name, value, how)
        tags = tags + ("refmode-" + how,)
    return e(line, "space-ref-set", *tags, probe="_srk(m, %s, %r)" % (space, name))


def sdel(space, name, *tags):
    return e("del %s.%s" % (space, name), "space-ref-delete", *tags, probe="_sdk(m, %s, %r)" % (space, name))


def mref(name, value, *tags):
    return e("m.%s = %s" % (name, value), "model-ref-set", *tags, probe="_mrk(m, %r)" % name)


def mdel(name, *tags):
    return e("del m.%s" % name, "model-ref-delete", *tags)


WORLDS = []


class B:
    """Collects the build lines and queries of one world.  `leaf` adds a cells that reads the thing under test
    plus the standard wrappers around it, so that every kind of leaf path is also exercised through a cached
    caller, through an uncached intermediate, and from a caller in another space (Z)."""

    def __init__(self, name):
        self.name = name
        self.build = ["Z = m.new_space('Z')"]
        self.late = []              # cells of Z (appended after everything else exists)
        self.queries = []

    def add(self, *lines):
        self.build.extend(lines)
        return self

    def q(self, expr, *tags, unc=()):
        self.queries.append(q(expr, *tags, unc=unc))
        return self

    def leaf(self, var, path, name, body, *tags, wrap="cuxy", style="lambda", unc=()):
        dotted = "_model" + path[1:]            # "m.S.Ch" -> "_model.S.Ch"
        dyn = bool(unc)                         # cached flags may change: uncached-ness is tagged dynamically
        self.build.append(cells(var, name, body, style=style))
        self.q("%s.%s()" % (path, name), *tags)
        if "c" in wrap:
            self.build.append(cells(var, name + "_c", "%s() + 1" % name))
            self.q("%s.%s_c()" % (path, name), *tags, "via:cached-callee", unc=unc)
        if "u" in wrap:
            self.build.append(cells(var, name + "_u", body, cached=False))
            self.build.append(cells(var, name + "_uc", "%s_u() + 2" % name, style="def"))
            self.q("%s.%s_uc()" % (path, name), *tags, *(() if dyn else ("via:uncached-callee",)),
                   unc=tuple(unc) + ((path[2:] + "." + name + "_u",) if dyn else ()))
        if "x" in wrap:
            self.late.append(cells("Z", name + "_x", "%s.%s() + 3" % (dotted, name)))
            self.q("m.Z.%s_x()" % name, *tags, "via:cached-callee", "via:attr-cells", "caller-in-other-space", unc=unc)
        if "y" in wrap:
            assert "u" in wrap
            self.late.append(cells("Z", name + "_y", "%s.%s_u() + 4" % (dotted, name)))
            self.q("m.Z.%s_y()" % name, *tags, *(() if dyn else ("via:uncached-callee",)), "via:attr-cells",
                   "caller-in-other-space", unc=tuple(unc) + ((path[2:] + "." + name + "_u",) if dyn else ()))
        return self

    def world(self, edits):
        return World(self.name, self.build + self.late, self.queries, edits)


# ------------------------------------------------------------------------------------------------------------
# W1  a reference of a space (S.x), reached by name, through cached / uncached cells, from another space by
#     attribute path, through a reference to the space; the model-level x behind it (fallback / shadowing).
b = B("space-ref")
b.add("S = m.new_space('S')", "S.x = 3", "T = m.new_space('T')", "T.s = S")
b.leaf("S", "m.S", "a", "x", "name-space-ref", style="def")
b.leaf("S", "m.S", "sp", "_space.x + 300", "attr-self-space-ref", wrap="cu")
b.leaf("T", "m.T", "t", "_model.S.x + 400", "attr-model-space-ref", wrap="cu")
b.leaf("T", "m.T", "ts", "s.x + 500", "attr-refd-space-ref", wrap="c")
WORLDS.append(b.world([
    sref("m.S", "x", 5),
    sref("m.S", "x", 7),
    sdel("m.S", "x"),
    mref("x", 11, "same-name-as-space-ref"),
    mref("x", 13, "same-name-as-space-ref"),
    mdel("x", "same-name-as-space-ref"),
    sref("m.S", "x", 17, how="absolute"),
    e("m.S.absref(x=18)", "space-ref-set", "refmode-absolute", probe="_srk(m, m.S, 'x')"),
    sref("m.T", "s", "m.T", "ref-to-space-retarget"),
    sref("m.T", "x", 19, "other-space"),
    e("m.S.a.formula = 'lambda: x + 10000'", "formula-set"),
    e("m.S.a = 23", "value-assign"),
    e("m.S.a.clear_all()", "value-clear"),
]))

# ------------------------------------------------------------------------------------------------------------
# W2  a child space: its reference read by attribute path (Ch.y), its cells called by attribute path, deeper
#     paths from another space, the parent's reference read from the child; deletion / re-creation / renaming
#     of the child and of the parent.
b = B("child-space")
b.add("S = m.new_space('S')", "Ch = S.new_space('Ch')", "Ch.y = 4", "S.z = 2", "T = m.new_space('T')", "T.y = 1")
b.leaf("Ch", "m.S.Ch", "f", "y + 10", "name-space-ref", wrap="c")
b.leaf("S", "m.S", "c", "Ch.y", "attr-child-ref", wrap="cuxy", style="def")
b.leaf("S", "m.S", "cf", "Ch.f() + 100", "attr-child-cells", wrap="u")
b.leaf("T", "m.T", "tc", "_model.S.Ch.y + 400", "attr-deep-ref", wrap="c")
b.leaf("T", "m.T", "tf", "_model.S.Ch.f() + 500", "attr-deep-cells", wrap="", style="def")
b.leaf("Ch", "m.S.Ch", "up", "_space.parent.z + 600", "attr-parent-ref", wrap="c")
WORLDS.append(b.world([
    sref("m.S.Ch", "y", 6),
    sdel("m.S.Ch", "y"),
    mref("y", 8, "same-name-as-space-ref"),
    mdel("y", "same-name-as-space-ref"),
    e("del m.S.Ch", "space-delete"),
    e("m.S.new_space('Ch')", "space-create"),
    e("m.S.new_space('Ch', refs={'y': 9})", "space-create"),
    e("m.S.Ch.rename('Kid')", "space-rename"),
    e("m.S.Kid.rename('Ch')", "space-rename"),
    e("m.S.Ch = m.T", "space-ref-set", "ref-takes-name-of-deleted-space"),
    e("m.S.Ch.f.formula = 'lambda: y + 20'", "formula-set"),
    e("del m.S.Ch.f", "cells-delete"),
    e(cells("m.S.Ch", "f", "y + 30"), "cells-create"),
    e(cells("m.T", "f", "y + 40"), "cells-create", "other-space"),
    e("m.S.Ch.f.rename('f2')", "cells-rename"),
    e("m.S.rename('S2')", "space-rename", "parent-space"),
    sref("m.S", "z", 5, "in-parent-space"),
]))

# ------------------------------------------------------------------------------------------------------------
# W3  a model-level reference g: by name from two spaces, as _model.g, through a space (_model.S.g), shadowed
#     and unshadowed in the space, read in an ItemSpace.
b = B("model-ref")
b.add("m.g = 1", "S = m.new_space('S')", "T = m.new_space('T')", "P = m.new_space('P', formula='lambda i: None')")
b.leaf("S", "m.S", "b", "g", "name-model-ref", wrap="cuxy")
b.leaf("T", "m.T", "tg", "_model.g + 300", "attr-model-ref", wrap="cu")
b.leaf("T", "m.T", "tsg", "_model.S.g + 400", "attr-space-model-ref", wrap="cu", style="def")
b.leaf("T", "m.T", "tb", "g + 500", "name-model-ref", "other-space", wrap="")
b.add(cells("P", "pg", "g + i * 1000"))
b.q("m.P[1].pg()", "name-model-ref", "in-itemspace")
WORLDS.append(b.world([
    mref("g", 7),
    mref("g", 9),
    mdel("g"),
    sref("m.S", "g", 20),
    sref("m.S", "g", 30),
    sdel("m.S", "g"),
    sref("m.T", "g", 40),
    sdel("m.T", "g"),
    sref("m.P", "g", 50),
    sdel("m.P", "g"),
    mref("h", 60, "unrelated-name"),
    e("m.new_space('g')", "space-create", "takes-name-of-deleted-model-ref"),
    e("del m.S", "space-delete"),
]))

# ------------------------------------------------------------------------------------------------------------
# W4  inheritance: two bases defining the same reference and cells, a sub space and a sub-sub space; derived
#     members read by name inside the sub and by attribute path from outside; overriding, deleting, add/remove
#     bases, deleting a base space.
b = B("inheritance")
b.add("B1 = m.new_space('B1')", "B1.r = 1", "B2 = m.new_space('B2')", "B2.r = 2",
      cells("B1", "foo", "r + 10"), cells("B2", "foo", "r + 20"), cells("B2", "bar", "foo() + 100", style="def"),
      cells("B1", "baz", "nr + 50"),
      "Sub = m.new_space('Sub', bases=[B1, B2])", "Sub2 = m.new_space('Sub2', bases=Sub)", "T = m.new_space('T')")
b.q("m.B1.foo()", "name-space-ref", "in-base")
b.q("m.Sub.foo()", "name-derived-ref", "derived-cells")
b.q("m.Sub.bar()", "name-derived-ref", "derived-cells", "via:cached-callee", unc=("Sub.foo",))
b.q("m.Sub2.bar()", "name-derived-ref", "derived-cells", "via:cached-callee", "second-level-sub", unc=("Sub2.foo",))
b.leaf("T", "m.T", "t", "_model.Sub.r + 1000", "attr-derived-ref", wrap="cu")
b.leaf("T", "m.T", "t2", "_model.Sub2.r + 2000", "attr-derived-ref", "second-level-sub", wrap="")
b.add(cells("T", "tf", "_model.Sub.foo() + 3000"))
b.q("m.T.tf()", "attr-derived-cells", "caller-in-other-space", unc=("Sub.foo",))
b.q("m.Sub3.bar()", "name-derived-ref", "derived-cells", "via:cached-callee", "sub-created-later", unc=("Sub3.foo",))
b.q("m.Sub.baz()", "name-derived-ref", "derived-cells", "ref-created-later")
b.q("m.Sub2.baz()", "name-derived-ref", "derived-cells", "ref-created-later", "second-level-sub")
WORLDS.append(b.world([
    sref("m.B1", "r", 3, "in-base"),
    sref("m.B2", "r", 4, "in-base"),
    sdel("m.B1", "r", "in-base"),
    sref("m.Sub", "r", 5, "in-sub"),
    sdel("m.Sub", "r", "in-sub"),
    e("m.B1.foo.formula = 'lambda: r + 30'", "formula-set", "in-base"),
    e("m.Sub.foo.formula = 'lambda: r + 40'", "formula-set", "in-sub", "overrides-derived-cells"),
    e("del m.B1.foo", "cells-delete", "in-base"),
    e("del m.Sub.foo", "cells-delete", "in-sub"),
    e(cells("m.B1", "bar", "foo() + 200"), "cells-create", "in-base"),
    e("m.Sub.remove_bases(m.B1)", "remove-bases"),
    e("m.Sub.add_bases(m.B1)", "add-bases"),
    e("m.Sub.remove_bases(m.B2)", "remove-bases"),
    e("del m.B1", "space-delete", "base-space"),
    e("m.B1.foo.is_cached = False", "cached-flag", "in-base"),
    e("m.B2.bar.rename('bar2')", "cells-rename", "in-base"),
    e("m.new_space('Sub3', bases=m.Sub)", "space-create", "new-sub-space"),
    sref("m.B1", "nr", 6, "in-base"),
    sdel("m.B1", "nr", "in-base"),
]))

# ------------------------------------------------------------------------------------------------------------
# W5  cells with arguments: formula changes, deletion / re-creation / renaming, cached flag, values, reached by
#     name, through cached and uncached callers, by attribute path, through a reference bound to the cells
#     object, and as derived cells of a sub space; a value assigned earlier at the key that is computed later (the
#     assignment is dropped by a formula change / renaming / re-derivation), then a change of the reference read.
b = B("cells-life")
b.add("S = m.new_space('S')", "S.x = 1", cells("S", "f", "x + i", style="def", params="i"),
      cells("S", "g", "f(1) + f(2) * 10"), cells("S", "h", "g() + 100", style="def"),
      cells("S", "u", "f(1) * 3", cached=False), cells("S", "cu", "u() + 200"),
      "T = m.new_space('T')", "T.fr = S.f", cells("T", "tf", "_model.S.f(1) + 1000"), cells("T", "tr", "fr(2) + 2000"),
      "Sub = m.new_space('Sub', bases=S)")
b.q("m.S.f(1)", "own-value")
b.q("m.S.g()", "call-by-name", unc=("S.f",))
b.q("m.S.h()", "call-by-name", "via:cached-callee", unc=("S.f",))
b.q("m.S.cu()", "call-by-name", unc=("S.f", "S.u"))
b.q("m.T.tf()", "call-by-attr", "caller-in-other-space", unc=("S.f",))
b.q("m.T.tr()", "call-by-ref-to-cells", "caller-in-other-space", unc=("S.f",))
b.q("m.Sub.g()", "call-by-name", "derived-cells", unc=("Sub.f",))
b.q("m.Sub.f(2)", "own-value", "derived-cells")
b.q("m.S.f9(1)", "own-value", "renamed")
WORLDS.append(b.world([
    e("m.S.f.formula = %r" % fsrc("f", "x + i * 2", "def", "i"), "formula-set"),
    e("m.S.f.formula = 'lambda i: x + i * 3'", "formula-set"),
    e("del m.S.f", "cells-delete"),
    e("del m.T.fr", "space-ref-delete", "ref-to-cells"),
    e(cells("m.S", "f", "x + i * 4", params="i"), "cells-create"),
    e("m.S.f.rename('f9')", "cells-rename"),
    e("m.S.f9.rename('f')", "cells-rename"),
    e("m.S.g.formula = 'lambda: f(1) + f(3) * 10'", "formula-set", "caller"),
    e("m.S.f.is_cached = False", "cached-flag"),
    e("m.S.f.is_cached = True", "cached-flag"),
    e("m.S.u.is_cached = True", "cached-flag"),
    e("m.S.f[1] = 50", "value-assign"),
    e("m.S.f.clear_all()", "value-clear"),
    e("m.Sub.f.formula = 'lambda i: x + i * 5'", "formula-set", "in-sub", "overrides-derived-cells"),
    e("del m.S.f.formula", "formula-delete"),
    e("m.S.f.doc = 'doc'", "formula-set", "doc"),
    e("m.S.sort_cells()", "cells-sort"),
    sref("m.S", "x", 2),
    e("m.Sub.f[2] = 60", "value-assign", "in-sub", "derived-cells"),
]))

# ------------------------------------------------------------------------------------------------------------
# W6  ItemSpaces: cells of an ItemSpace read references of the parametric space by name, the dynamic copy of a
#     child space, a parameter formula that reads a reference and calls cells; callers outside reach into the
#     ItemSpace by attribute path.
b = B("itemspace")
b.add("m.g = 1", "P = m.new_space('P', formula=lambda i: None)", "P.x = 2",
      cells("P", "c", "x + i * 10 + g * 100"), cells("P", "d", "c() + 1000", style="def"),
      "PC = P.new_space('PC')", "PC.y = 3", cells("PC", "ee", "y + 5"), cells("P", "k", "PC.y + 7"),
      cells("P", "ku", "PC.y + 8", cached=False), cells("P", "kuc", "ku() + 1"),
      "R = m.new_space('R')", "R.z = 4", cells("R", "base", "z * 2"),
      "R.formula = \"lambda j: {'refs': {'kk': base() + j}}\"", cells("R", "v", "kk + 1"),
      "T = m.new_space('T')", cells("T", "t", "_model.P[1].c() + 7000"), cells("T", "tv", "_model.R[1].v() + 8000"))
b.q("m.P[1].c()", "name-space-ref", "in-itemspace")
b.q("m.P[1].d()", "name-space-ref", "in-itemspace", "via:cached-callee")
b.q("m.P[2].c()", "name-space-ref", "in-itemspace", "second-item")
b.q("m.P[1].PC.ee()", "name-space-ref", "in-dynamic-child")
b.q("m.P[1].k()", "attr-child-ref", "in-itemspace")
b.q("m.P[1].kuc()", "attr-child-ref", "in-itemspace", "via:uncached-callee")
b.q("m.R[1].v()", "name-itemspace-ref", "param-formula-calls-cells")
b.q("m.R.base()", "name-space-ref")
b.q("m.T.t()", "attr-into-itemspace", "caller-in-other-space")
b.q("m.T.tv()", "attr-into-itemspace", "param-formula-calls-cells", "caller-in-other-space")
b.q("m.P[1].n()", "created-cells", "in-itemspace")
WORLDS.append(b.world([
    sref("m.P", "x", 5),
    sdel("m.P", "x"),
    mref("g", 6),
    mref("x", 8, "same-name-as-space-ref"),
    sref("m.P.PC", "y", 9, "in-child-space"),
    sref("m.R", "z", 11),
    e("m.R.base.formula = 'lambda: z * 3'", "formula-set", "called-by-param-formula"),
    e("m.R.base = 70", "value-assign", "called-by-param-formula"),
    e("m.R.base.clear_all()", "value-clear", "called-by-param-formula"),
    e("m.R.formula = lambda j: {'refs': {'kk': base() + j * 2}}", "space-formula-set"),
    e("m.P.formula = \"lambda i: {'refs': {'x': 50}}\"", "space-formula-set"),
    e("m.P.formula = lambda i, j=0: None", "space-formula-set", "parameters"),
    e("del m.R.formula", "space-formula-delete"),
    e("m.P.c.formula = 'lambda: x + i * 20 + g * 100'", "formula-set"),
    e("try:\n    del m.P[1]\nexcept KeyError:\n    pass", "itemspace-delete"),
    e("m.P.clear_items()", "itemspace-delete"),
    e("m.P.clear_all()", "value-clear", "space-wide"),
    e(cells("m.P", "n", "x"), "cells-create"),
    e("m.P.c.rename('c9')", "cells-rename"),
    e("del m.P.PC", "space-delete", "child-of-parametric-space"),
]))

# ------------------------------------------------------------------------------------------------------------
# W7  values: assigning, overwriting, clearing elements of a recursive cells and its callers, space- and
#     model-wide clearing, together with a reference change.
b = B("values")
b.add("S = m.new_space('S')", "S.x = 1",
      cells("S", "f", "f(n - 1) + x if n > 0 else 10", style="def", params="n"),
      cells("S", "g", "f(n) * 2", params="n"), cells("S", "h", "g(2) + f(1) + 1000"),
      cells("S", "uf", "f(n) + 5", params="n", cached=False), cells("S", "k", "uf(2) + 3000"),
      "T = m.new_space('T')", cells("T", "t", "_model.S.f(2) + 7000"), cells("T", "tu", "_model.S.uf(1) + 8000"))
b.q("m.S.f(0)", "own-value")
b.q("m.S.f(2)", "call-by-name", "recursive")
b.q("m.S.f(3)", "call-by-name", "recursive")
b.q("m.S.g(2)", "call-by-name")
b.q("m.S.h()", "call-by-name", "via:cached-callee")
b.q("m.S.k()", "call-by-name", "via:uncached-callee")
b.q("m.T.t()", "call-by-attr", "caller-in-other-space")
b.q("m.T.tu()", "call-by-attr", "caller-in-other-space", "via:uncached-callee")
WORLDS.append(b.world([
    e("m.S.f[0] = 100", "value-assign"),
    e("m.S.f[1] = 200", "value-assign"),
    e("m.S.f[1] = 300", "value-assign"),
    e("m.S.f.clear_at(1)", "value-clear"),
    e("m.S.f.clear_at(0)", "value-clear"),
    e("m.S.f.clear()", "value-clear", "computed-only"),
    e("m.S.f.clear_all()", "value-clear"),
    e("m.S.g[2] = 7", "value-assign", "caller"),
    e("m.S.h = 9", "value-assign", "scalar"),
    e("del m.S.h.value", "value-clear", "scalar"),
    e("m.S.clear_all()", "value-clear", "space-wide"),
    e("m.S.clear_cells()", "value-clear", "space-wide", "computed-only"),
    e("m.clear_all()", "value-clear", "model-wide"),
    sref("m.S", "x", 2),
    e("m.S.f.formula = %r" % fsrc("f", "f(n - 1) + x * 2 if n > 0 else 20", "def", "n"), "formula-set"),
]))

# ------------------------------------------------------------------------------------------------------------
# W8  references bound to objects: a cells object, a space object; re-targeting, deleting and renaming the
#     target; a reference of a base to its own cells (relative in the sub space).
b = B("object-refs")
b.add("A = m.new_space('A')", "A.v = 1", cells("A", "foo", "v + 10"),
      "A2 = m.new_space('A2')", "A2.v = 2", cells("A2", "foo", "v + 20"),
      "S = m.new_space('S')", "S.r = A.foo", "S.sp = A",
      "B = m.new_space('B')", "B.w = 5", cells("B", "own", "w + 40"), "B.rf = B.own", cells("B", "qq", "rf() + 400"),
      "Sub = m.new_space('Sub', bases=B)")
b.leaf("S", "m.S", "c", "r() + 100", "call-by-ref-to-cells", wrap="cux")
b.leaf("S", "m.S", "d", "sp.foo() + 200", "attr-refd-space-cells", wrap="c", style="def")
b.leaf("S", "m.S", "ee", "sp.v + 300", "attr-refd-space-ref", wrap="cu")
b.q("m.B.qq()", "call-by-ref-to-cells", "in-base")
b.q("m.Sub.qq()", "call-by-ref-to-cells", "derived-relative-ref")
b.leaf("Z", "m.Z", "t", "_model.S.r() + 500", "attr-space-ref-to-cells", wrap="c")
WORLDS.append(b.world([
    sref("m.S", "r", "m.A2.foo", "ref-to-cells-retarget"),
    sref("m.S", "sp", "m.A2", "ref-to-space-retarget"),
    sdel("m.S", "r", "ref-to-cells"),
    sdel("m.S", "sp", "ref-to-space"),
    sref("m.A", "v", 6, "in-target-space"),
    e("m.A.foo.formula = 'lambda: v + 30'", "formula-set", "in-target-space"),
    e("del m.A.foo", "cells-delete", "ref-target"),
    e("m.A.foo.rename('foo2')", "cells-rename", "ref-target"),
    e("del m.A", "space-delete", "ref-target"),
    e("m.A.rename('A9')", "space-rename", "ref-target"),
    sref("m.B", "w", 7, "in-base"),
    sref("m.Sub", "w", 8, "in-sub"),
    e("m.B.own.formula = 'lambda: w + 50'", "formula-set", "in-base"),
    e("m.Sub.own.formula = 'lambda: w + 60'", "formula-set", "in-sub", "overrides-derived-cells"),
    sref("m.B", "rf", "m.A2.foo", "ref-to-cells-retarget", "in-base"),
    sref("m.Sub", "rf", "m.A2.foo", "ref-to-cells-retarget", "in-sub"),
    sref("m.S", "r", "m.A.foo", "ref-to-cells-retarget", how="absolute"),
]))

# ------------------------------------------------------------------------------------------------------------
# W9  one name, successively a model-level reference, a reference / a cells / a child space of S (each shadows
#     the model-level one): read by name in S and by attribute path from T.  `val` calls callables.
b = B("name-kinds")
b.add("m.val = lambda v: v() if callable(v) else v", "m.n = 5", "S = m.new_space('S')", "T = m.new_space('T')")
b.leaf("S", "m.S", "p", "val(n) + 100", "name-any-kind", wrap="cuxy")
b.leaf("T", "m.T", "t", "val(_model.S.n) + 300", "attr-any-kind", wrap="cu")
WORLDS.append(b.world([
    mref("n", 6),
    mdel("n"),
    sref("m.S", "n", 7),
    sref("m.S", "n", 8),
    e(cells("m.S", "n", "9"), "cells-create", "may-shadow-model-ref"),
    e("m.S.n.formula = 'lambda: 10'", "formula-set"),
    sref("m.S", "n", 11, "or-scalar-cells-value"),
    e("m.S.new_space('n')", "space-create", "may-shadow-model-ref"),
    e("del m.S.n", "delete-by-name-any-kind"),
    e("m.S.n.rename('n2')", "rename-any-kind"),
    e("m.S.n2.rename('n')", "rename-any-kind"),
    sref("m.T", "n", 12, "other-space"),
]))

# ------------------------------------------------------------------------------------------------------------
# W10  parametric spaces and inheritance: a parametric space derived from two bases (ItemSpaces serve derived
#      cells and references), an ItemSpace whose base is another space chosen by the parameter formula.
b = B("param-inherit")
b.add("B1 = m.new_space('B1')", "B1.r = 1", cells("B1", "foo", "r + 10"),
      "B2 = m.new_space('B2')", "B2.r = 2", cells("B2", "foo", "r + 20"),
      "P = m.new_space('P', bases=[B1, B2], formula=lambda i: None)", cells("P", "c", "foo() * 10 + i", style="def"),
      "X = m.new_space('X')", "X.w = 3", cells("X", "h", "w + kk * 100"), "X.kk = 0",
      "D = m.new_space('D', formula=\"lambda k: {'base': _model.X, 'refs': {'kk': k}}\")",
      "T = m.new_space('T')", cells("T", "t", "_model.P[1].foo() + 5000"), cells("T", "td", "_model.D[2].h() + 6000"))
b.q("m.P.foo()", "name-derived-ref", "derived-cells")
b.q("m.P[1].foo()", "name-derived-ref", "derived-cells", "in-itemspace")
b.q("m.P[1].c()", "name-derived-ref", "derived-cells", "in-itemspace", "via:cached-callee", unc=("P.foo",))
b.q("m.P[2].c()", "name-derived-ref", "derived-cells", "in-itemspace", "via:cached-callee", "second-item",
    unc=("P.foo",))
b.q("m.D[2].h()", "name-space-ref", "in-itemspace", "itemspace-of-other-base")
b.q("m.X.h()", "name-space-ref")
b.q("m.T.t()", "attr-into-itemspace", "derived-cells", "caller-in-other-space", unc=("P.foo",))
b.q("m.T.td()", "attr-into-itemspace", "itemspace-of-other-base", "caller-in-other-space")
b.q("m.D[2].nn()", "created-cells", "in-itemspace", "itemspace-of-other-base")
WORLDS.append(b.world([
    sref("m.B1", "r", 3, "in-base"),
    sdel("m.B1", "r", "in-base"),
    sref("m.P", "r", 4, "in-sub"),
    e("m.B1.foo.formula = 'lambda: r + 30'", "formula-set", "in-base"),
    e("m.P.foo.formula = 'lambda: r + 40'", "formula-set", "in-sub", "overrides-derived-cells"),
    e("del m.B1.foo", "cells-delete", "in-base"),
    e("m.P.remove_bases(m.B1)", "remove-bases"),
    e("m.P.add_bases(m.B1)", "add-bases"),
    e("del m.B1", "space-delete", "base-space"),
    e("m.B1.foo.is_cached = False", "cached-flag", "in-base"),
    sref("m.X", "w", 5, "in-itemspace-base"),
    e("m.X.h.formula = 'lambda: w + kk * 200'", "formula-set", "in-itemspace-base"),
    e(cells("m.X", "nn", "w + 1"), "cells-create", "in-itemspace-base"),
    e("m.X.h = 77", "value-assign", "in-itemspace-base"),
    e("m.D.formula = lambda k: {'base': _model.X, 'refs': {'kk': k + 1}}", "space-formula-set"),
    e("m.D.formula = lambda k: {'base': _model.B1, 'refs': {'h': (lambda: 9)}}", "space-formula-set", "other-base"),
    e("m.P.formula = lambda i, j=0: None", "space-formula-set", "parameters"),
]))

# ------------------------------------------------------------------------------------------------------------
# W11  the cached flag of a cells is switched on / off (Cells.is_cached = ...; mx.defcells(..., is_cached=...) on
#      the existing cells): callees that read a reference by name (u, c) and by attribute path (ua, ca), two of
#      them uncached to begin with, called from cached cells of the same space, of other spaces (by attribute
#      path from the model, through a reference bound to the space) and through an uncached cells of another
#      space; interleaved with changes of the references read, a formula change and value assignment / clearing.
b = B("cached-flag")
b.add("m.x = 1", "S = m.new_space('S')", "S.x = 3", "Ch = S.new_space('Ch')", "Ch.y = 4",
      "T = m.new_space('T')", "T.s = S",
      cells("S", "u", "x + 10", cached=False, style="def"), cells("S", "ua", "Ch.y + 20", cached=False),
      cells("S", "c", "x + 30"), cells("S", "ca", "_space.Ch.y + 40", style="def"),
      cells("S", "ku", "u() + 100"), cells("S", "kua", "ua() + 200", style="def"),
      cells("S", "kc", "c() + 300", style="def"), cells("S", "kca", "ca() + 400"),
      cells("T", "tu", "s.u() + 500"), cells("T", "tc", "s.c() + 700", style="def"), cells("T", "tca", "s.ca() + 800"))
b.late += [cells("Z", "zu", "_model.S.u() + 550", style="def"), cells("Z", "zua", "_model.S.ua() + 600"),
           cells("Z", "zc", "_model.S.c() + 750"),
           cells("Z", "w", "_model.S.u() + 1000", cached=False), cells("Z", "wc", "w() + 1")]
SAME, OTHER = "caller:same-space", "caller:other-space"
b.q("m.S.u()", "name-space-ref", "flag-flipped-cells", unc=("S.u",))
b.q("m.S.ua()", "attr-child-ref", "flag-flipped-cells", unc=("S.ua",))
b.q("m.S.c()", "name-space-ref", "flag-flipped-cells", unc=("S.c",))
b.q("m.S.ca()", "attr-child-ref", "flag-flipped-cells", unc=("S.ca",))
b.q("m.S.ku()", "name-space-ref", "via:cached-callee", SAME, unc=("S.u",))
b.q("m.S.kua()", "attr-child-ref", "via:cached-callee", SAME, unc=("S.ua",))
b.q("m.S.kc()", "name-space-ref", "via:cached-callee", SAME, unc=("S.c",))
b.q("m.S.kca()", "attr-child-ref", "via:cached-callee", SAME, unc=("S.ca",))
b.q("m.T.tu()", "name-space-ref", "via:cached-callee", "via:ref-to-space", OTHER, unc=("S.u",))
b.q("m.T.tc()", "name-space-ref", "via:cached-callee", "via:ref-to-space", OTHER, unc=("S.c",))
b.q("m.T.tca()", "attr-child-ref", "via:cached-callee", "via:ref-to-space", OTHER, unc=("S.ca",))
b.q("m.Z.zu()", "name-space-ref", "via:cached-callee", "via:attr-cells", OTHER, unc=("S.u",))
b.q("m.Z.zua()", "attr-child-ref", "via:cached-callee", "via:attr-cells", OTHER, unc=("S.ua",))
b.q("m.Z.zc()", "name-space-ref", "via:cached-callee", "via:attr-cells", OTHER, unc=("S.c",))
b.q("m.Z.wc()", "name-space-ref", "via:cached-callee", "via:attr-cells", "via:uncached-caller-in-other-space", OTHER,
    unc=("S.u", "Z.w"))
WORLDS.append(b.world([
    e("m.S.u.is_cached = True", "cached-flag-on", "reads-by-name"),
    e("m.S.u.is_cached = False", "cached-flag-off", "reads-by-name"),
    e("m.S.ua.is_cached = True", "cached-flag-on", "reads-by-attr-path"),
    e("m.S.ua.is_cached = False", "cached-flag-off", "reads-by-attr-path"),
    e("m.S.c.is_cached = False", "cached-flag-off", "reads-by-name"),
    e("m.S.c.is_cached = True", "cached-flag-on", "reads-by-name"),
    e("m.S.ca.is_cached = False", "cached-flag-off", "reads-by-attr-path"),
    e("m.S.ca.is_cached = True", "cached-flag-on", "reads-by-attr-path"),
    e("m.Z.w.is_cached = True", "cached-flag-on", "caller-in-other-space"),
    e("mx.defcells(space=m.S, name='ua', is_cached=True)(m.S.ua.formula.func)", "cached-flag-on",
      "reads-by-attr-path", "by-defcells"),
    sref("m.S", "x", 5),
    sdel("m.S", "x"),
    sref("m.S.Ch", "y", 6, "in-child-space"),
    mref("x", 7, "same-name-as-space-ref"),
    e("m.S.u.formula = 'lambda: x + 11'", "formula-set"),
    e("m.S.c = 99", "value-assign"),
    e("m.S.c.clear_all()", "value-clear"),
]))
