"""Helpers of the C04 driver: public description of a model, value plans, file listings, case evaluation.

Everything between the two PRELUDE markers is copied verbatim into replay scripts, so it only depends
on modelx and the standard library.
"""
import inspect, os, sys, re, shutil, tempfile, zipfile, warnings, math, traceback

# ======================================================================== PRELUDE-BEGIN
import modelx as mx


class Box:
    """A picklable user object (may hold modelx objects)."""

    def __init__(self, a, b=None):
        self.a = a
        self.b = b


def norm(v, model):
    """Comparable normal form of a value; modelx objects by their path inside `model`."""
    from modelx.core.base import Interface
    import types
    if isinstance(v, Interface):
        if not v._is_valid():
            return ("<mx-null>",)
        if v is model:
            return ("<mx>", "Model", "")
        fn = v.fullname
        if v.model is model:
            return ("<mx>", type(v).__name__, fn.split(".", 1)[1] if "." in fn else "")
        return ("<mx-foreign>", type(v).__name__, fn)
    if v is None or type(v) in (bool, int, float, str, bytes, complex):
        return (type(v).__name__, repr(v))
    if type(v) in (list, tuple):
        return (type(v).__name__, [norm(x, model) for x in v])
    if type(v) in (set, frozenset):
        return (type(v).__name__, sorted((norm(x, model) for x in v), key=repr))
    if type(v) is dict:
        return ("dict", [(norm(k, model), norm(x, model)) for k, x in v.items()])
    if isinstance(v, types.ModuleType):
        return ("module", v.__name__)
    tn = type(v).__module__ + "." + type(v).__qualname__
    if tn == "numpy.ndarray":
        return ("ndarray", str(v.dtype), tuple(v.shape), norm(v.tolist(), model))
    if tn.startswith("pandas.") and hasattr(v, "to_dict"):
        if hasattr(v, "dtypes") and hasattr(v, "columns"):
            return ("DataFrame", norm(v.to_dict("split"), model), [str(t) for t in v.dtypes])
        return ("Series", norm(list(v.index), model), norm(list(v.values), model), str(v.dtype), repr(v.name))
    if callable(v) and hasattr(v, "__qualname__"):
        return ("callable", getattr(v, "__module__", None), v.__qualname__)
    if hasattr(v, "__dict__") and type(v).__name__ == "Box":
        return ("Box", norm(vars(v), model))
    return ("repr", type(v).__name__, repr(v))


def _inputs(c, model):
    impl = c._impl
    return sorted(((norm(k, model), norm(impl.data[k], model)) for k in impl.input_keys), key=repr)


def _relname(obj, model):
    fn = obj.fullname
    return fn.split(".", 1)[1] if "." in fn else ""


def _walk_dynamic(sp, model, acc, path):
    """Inputs held inside dynamic (item) spaces below `sp`; item spaces are named by their arguments."""
    for args, isp in sp.itemspaces.items():
        _walk_dynamic_space(isp, model, acc, path + "[%r]" % (norm(args, model),))


def _walk_dynamic_space(dsp, model, acc, path):
    for n, c in dsp.cells.items():
        for k, val in _inputs(c, model):
            acc.append((path, n, k, val))
    for n, ch in dsp.named_spaces.items():
        _walk_dynamic_space(ch, model, acc, path + "." + n)
    _walk_dynamic(dsp, model, acc, path)


def describe(m):
    """Flat public description {path tuple: comparable value} of model `m` (no evaluation)."""
    D = {}
    D[("model", "doc")] = m.doc
    D[("model", "allow_none")] = m.allow_none
    names = sorted(n for n in m.refs if not n.startswith("_"))
    D[("model", "refnames")] = names
    for n in names:
        D[("model", "ref", n, "value")] = norm(m.refs[n], m)
    D[("model", "spaces")] = sorted(m.spaces)

    def dspace(s, P):
        f = s.formula
        D[P + ("space", "formula")] = f.source if f is not None else None
        D[P + ("space", "params")] = tuple(s.parameters) if s.parameters is not None else None
        D[P + ("space", "bases")] = [_relname(b, m) for b in s._direct_bases]
        D[P + ("space", "mro")] = [_relname(b, m) for b in s.bases]
        D[P + ("space", "doc")] = s.doc
        D[P + ("space", "allow_none")] = s.allow_none
        D[P + ("space", "spaces")] = sorted(s.named_spaces)
        D[P + ("space", "cellnames")] = sorted(s.cells)
        for n, c in s.cells.items():
            Q = P + ("cells", n)
            D[Q + ("formula",)] = c.formula.source if c.formula is not None else None
            D[Q + ("params",)] = tuple(c.parameters)
            D[Q + ("allow_none",)] = c.allow_none
            D[Q + ("is_cached",)] = c.is_cached
            D[Q + ("doc",)] = c.doc
            D[Q + ("derived",)] = c._is_derived()
            D[Q + ("inputs",)] = _inputs(c, m)
        rnames = sorted(n for n in s.refs if not n.startswith("_"))
        D[P + ("space", "refnames")] = rnames
        for n in rnames:
            px = s._get_object(n, as_proxy=True)
            Q = P + ("ref", n)
            D[Q + ("value",)] = norm(s.refs[n], m)
            D[Q + ("refmode",)] = getattr(px, "refmode", None)
            D[Q + ("derived",)] = px.is_derived() if hasattr(px, "is_derived") else None
        acc = []
        _walk_dynamic(s, m, acc, _relname(s, m))
        D[P + ("space", "itemspace_inputs")] = sorted(acc, key=repr)
        for n, ch in s.named_spaces.items():
            dspace(ch, P + (n,))

    for n, s in m.spaces.items():
        dspace(s, (n,))
    return D


ARGPOOL = {0: [()], 1: [(0,), (1,), (3,)], 2: [(1, 2), (0, 0)], 3: [(1, 2, 3)]}


def value_plan(m):
    """[(navigation steps, cells name, args)] built from the static tree of `m` (and its item spaces)."""
    plan = []

    def cells_of(sp, steps):
        for n, c in sp.cells.items():
            k = len(c.parameters)
            for args in ARGPOOL.get(k, [tuple(range(1, k + 1))]):
                plan.append((steps, n, args))
            if k >= 1:      # fewer arguments: defaults apply (or the call fails the same way)
                plan.append((steps, n, ARGPOOL[k][0][:-1]))

    def space(sp, steps, depth):
        cells_of(sp, steps)
        if sp.parameters and depth < 2:
            k = len(sp.parameters)
            pool = list(ARGPOOL.get(k, [tuple(range(1, k + 1))]))[:2]
            for key in sp.itemspaces:
                key = key if isinstance(key, tuple) else (key,)
                if key not in pool:
                    pool.append(key)
            for args in pool:
                try:
                    isp = sp(*args)
                except Exception:
                    plan.append((steps + (("item", args),), None, None))
                    continue
                space(isp, steps + (("item", args),), depth + 1)
        for n, ch in sp.named_spaces.items():
            space(ch, steps + (("sp", n),), depth)

    for n, s in m.spaces.items():
        space(s, (("sp", n),), 0)
    return plan


def run_plan(m, plan):
    out = []
    for steps, cname, args in plan:
        try:
            o = m
            for kind, x in steps:
                o = o.spaces[x] if kind == "sp" else o(*x)
            if cname is None:
                out.append((steps, None, ("ok", "itemspace")))
                continue
            v = o.cells[cname](*args)
            out.append((steps, cname, args, ("ok", norm(v, m))))
        except Exception as e:
            out.append((steps, cname, args, ("err", type(e).__name__)))
    return out


def diff(d0, d1):
    keys = sorted(set(d0) | set(d1), key=repr)
    return [(k, d0.get(k, "<absent>"), d1.get(k, "<absent>")) for k in keys
            if repr(d0.get(k, "<absent>")) != repr(d1.get(k, "<absent>"))]

def quick_check(m):
    """Write `m` to a directory and a zip, read both back; list every deviation from the C04 statement."""
    import os, shutil, tempfile, zipfile
    bad = []
    tmp = tempfile.mkdtemp()
    try:
        d0 = describe(m)
        p, z = os.path.join(tmp, "model"), os.path.join(tmp, "model.zip")
        m.write(p)
        m.zip(z)
        bad += [("writing altered the model",) + x for x in diff(d0, describe(m))]
        files = sorted(os.path.relpath(os.path.join(d, f), p).replace(os.sep, "/")
                       for d, _, fs in os.walk(p) for f in fs)
        members = sorted(zipfile.ZipFile(z).namelist())
        if files != members:
            bad.append(("directory and zip hold different files", files, members))
        plan = value_plan(m)
        v0 = run_plan(m, plan)
        for i, src in enumerate((p, z)):
            try:
                r = mx.read_model(src, name="R%d" % i)
            except Exception as e:
                bad.append(("written without error but unreadable", os.path.basename(src), repr(e)))
                continue
            bad += [(os.path.basename(src),) + x for x in diff(d0, describe(r))]
            bad += [(os.path.basename(src), "value") + (a, b) for a, b in zip(v0, run_plan(r, plan)) if repr(a) != repr(b)]
            p2 = os.path.join(tmp, "again%d" % i)
            r.write(p2)
            files2 = sorted(os.path.relpath(os.path.join(d, f), p2).replace(os.sep, "/")
                            for d, _, fs in os.walk(p2) for f in fs)
            if files2 != files:
                bad.append(("write-read-write changes the file list", files, files2))
    finally:
        shutil.rmtree(tmp, ignore_errors=True)
    return bad
# ======================================================================== PRELUDE-END


def prelude_text():
    src = open(__file__.replace(".pyc", ".py"), encoding="utf-8").read()
    a = src.index("# ======================================================================== PRELUDE-BEGIN")
    b = src.index("# ======================================================================== PRELUDE-END")
    return "import warnings; warnings.filterwarnings('ignore')\nimport os, sys, shutil, tempfile, math\n" + src[a:b]


_ID_PATTERNS = [
    (re.compile(r'\("Pickle", \d+(, "[a-z]+")?\)'), lambda mo: '("Pickle", <id>%s)' % (mo.group(1) or "")),
    (re.compile(r'\("IOSpec", \d+, \d+(, "[a-z]+")?\)'), lambda mo: '("IOSpec", <id>, <id>%s)' % (mo.group(1) or "")),
]
_IFACE = re.compile(r'\("Interface", \((.*?)\)(, "[a-z]+")?\)$', re.M)


def normalise_text(relpath, text):
    """Replace object ids (which legitimately differ between two writes) by a placeholder."""
    if "/_data/" in "/" + relpath:
        return re.sub(r"\b\d+\b", "<id>", text)
    for pat, rep in _ID_PATTERNS:
        text = pat.sub(rep, text)
    if relpath == "__init__.py":
        text = re.sub(r'^_name = "[^"\n]*"$', '_name = <name>', text, flags=re.M)
    text = _IFACE.sub(lambda mo: mo.group(0).replace(mo.group(1), re.sub(r"(?<![\w\"])\d+(?![\w\"])", "<id>", mo.group(1))), text)
    return text


def list_dir(root):
    out = {}
    for d, _, files in os.walk(root):
        for f in files:
            p = os.path.join(d, f)
            rel = os.path.relpath(p, root).replace(os.sep, "/")
            with open(p, "rb") as fh:
                out[rel] = fh.read()
    return out


def list_zip(path):
    out = {}
    with zipfile.ZipFile(path) as z:
        for info in z.infolist():
            if info.is_dir():
                continue
            out.setdefault(info.filename, []).append(z.read(info))
    return out


def is_text(rel):
    return not rel.endswith(".pickle")


def field_tag(path):
    """Generalised name of a description field: ('S','cells','f','is_cached') -> 'cells.is_cached'."""
    if path[0] == "model":
        return "model." + (path[1] if len(path) == 2 else "ref." + path[-1])
    if len(path) >= 2 and path[-2] == "space":
        return "space." + path[-1]
    if len(path) >= 3 and path[-3] in ("cells", "ref"):
        return path[-3] + "." + path[-1]
    return ".".join(str(x) for x in path[-2:])


# ---------------------------------------------------------------------------- case evaluation
BASE = None     # scratch directory created and removed by the driver's main process (workers may be killed mid-case)

def build(lines):
    ns = {"mx": mx, "Box": Box, "math": math}
    for code in lines:
        exec(code, ns)
    return ns["m"], ns


def _close_all():
    for mm in list(mx.get_models().values()):
        try:
            mm.close()
        except Exception:
            pass


def _exc(e):
    return "%s: %s" % (type(e).__name__, str(e).splitlines()[0][:160] if str(e) else "")


def _cmp_describe(d0, d1, stage, fails, prefix="diff"):
    dd = diff(d0, d1)
    bytag = {}
    for k, a, b in dd:
        bytag.setdefault(field_tag(k), []).append((k, a, b))
    for t, items in sorted(bytag.items()):
        k, a, b = items[0]
        fails.append(((stage, "%s:%s" % (prefix, t)),
                      "%s: %s %r -> %r%s" % (stage, "/".join(map(str, k)), a, b,
                                              " (+%d more)" % (len(items) - 1) if len(items) > 1 else "")))
    return not dd


def _cmp_values(v0, v1, stage, fails):
    bad = [(a, b) for a, b in zip(v0, v1) if repr(a) != repr(b)]
    if bad or len(v0) != len(v1):
        a, b = bad[0] if bad else (len(v0), len(v1))
        fails.append(((stage, "diff:value"), "%s: cells value differs: %r vs %r (+%d more)" % (stage, a, b, max(0, len(bad) - 1))))


def _drop_empty_dynamic(files):
    """An empty _dynamic_inputs member carries no information (it is written whenever an ItemSpace exists)."""
    def empty(v):
        return all(not x for x in v) if isinstance(v, list) else not v
    return {k: v for k, v in files.items() if not (k.endswith("/_dynamic_inputs") and empty(v))}


def _cmp_files(f0, f1, stage, what, fails, tag):
    if tag == "fixpoint":
        f0, f1 = _drop_empty_dynamic(f0), _drop_empty_dynamic(f1)
    n0, n1 = sorted(f0), sorted(f1)
    if n0 != n1:
        fails.append(((stage, tag + ":names"), "%s: %s: only in first %s, only in second %s" % (
            stage, what, sorted(set(n0) - set(n1)), sorted(set(n1) - set(n0)))))
        return
    for rel in n0:
        a, b = f0[rel], f1[rel]
        if isinstance(a, list) or isinstance(b, list):
            la = a if isinstance(a, list) else [a]
            lb = b if isinstance(b, list) else [b]
            if len(la) != 1 or len(lb) != 1:
                fails.append(((stage, tag + ":duplicate-member"), "%s: %s: member %s stored %d/%d times" % (stage, what, rel, len(la), len(lb))))
                continue
            a, b = la[0], lb[0]
        if is_text(rel):
            ta = normalise_text(rel, a.decode("utf-8"))
            tb = normalise_text(rel, b.decode("utf-8"))
            if ta != tb:
                fails.append(((stage, tag + ":text"), "%s: %s: contents of %s differ:\n%s\n---\n%s" % (stage, what, rel, ta[:600], tb[:600])))


def evaluate(lines, eval_first=False, light=False, chains=True):
    """Run the whole C04 contract on the model built by `lines`.

    Returns (status, failures); status in {'unbuildable', 'ok'}; failures = [(check tags, text)].
    """
    fails = []
    _close_all()
    try:
        m, ns = build(lines)
    except Exception as e:
        _close_all()
        return "unbuildable: " + _exc(e), fails
    tmp = tempfile.mkdtemp(prefix="c04_", dir=BASE)
    try:
        plan = v0 = None
        if eval_first:
            plan = value_plan(m)
            v0 = run_plan(m, plan)
        d0 = describe(m)
        pdir, pzip = os.path.join(tmp, "model"), os.path.join(tmp, "model.zip")
        # ---- writing: succeeds, alters nothing but path
        try:
            m.write(pdir)
        except Exception as e:
            fails.append((("stage:write-dir", "write-raises"), "write raised " + _exc(e)))
            return "ok", fails
        if str(m.path) != pdir:
            fails.append((("stage:write-dir", "path-not-set"), "model.path is %r after write(%r)" % (m.path, pdir)))
        _cmp_describe(d0, describe(m), "stage:write-dir", fails, prefix="write-alters")
        if light:       # directory only: write, read under a new name, compare description and values (used while shrinking)
            try:
                r = mx.read_model(pdir, name="R_dir")
            except Exception as e:
                fails.append((("stage:read-dir", "read-raises"), "read_model(dir) raised " + _exc(e)))
                return "ok", fails
            _cmp_describe(d0, describe(r), "stage:read-dir", fails)
            if plan is None:
                plan = value_plan(m)
                v0 = run_plan(m, plan)
            _cmp_values(v0, run_plan(r, plan), "stage:read-dir", fails)
            return "ok", fails
        try:
            m.zip(pzip)
        except Exception as e:
            fails.append((("stage:write-zip", "write-raises"), "zip raised " + _exc(e)))
            pzip = None
        if pzip:
            if str(m.path) != pzip:
                fails.append((("stage:write-zip", "path-not-set"), "model.path is %r after zip(%r)" % (m.path, pzip)))
            _cmp_describe(d0, describe(m), "stage:write-zip", fails, prefix="write-alters")
            if not zipfile.is_zipfile(pzip):
                fails.append((("stage:write-zip", "not-a-zip"), "zip() did not produce a zip file"))
            else:
                _cmp_files(list_dir(pdir), list_zip(pzip), "stage:listing", "directory vs zip", fails, "dir-vs-zip")
        # ---- reading back (original still open, new names)
        readers = {}
        for label, src in (("dir", pdir), ("zip", pzip)):
            if not src:
                continue
            try:
                readers[label] = mx.read_model(src, name="R_" + label)
            except Exception as e:
                fails.append((("stage:read-" + label, "read-raises"), "read_model(%s) raised %s" % (label, _exc(e))))
                continue
            r = readers[label]
            if r.name != "R_" + label:
                fails.append((("stage:read-" + label, "name"), "read name %r" % r.name))
            _cmp_describe(d0, describe(r), "stage:read-" + label, fails)
        if m.name != "M" or "M" not in mx.get_models() or mx.get_models()["M"] is not m:
            fails.append((("stage:read", "original-renamed"), "original model is now %r" % m.name))
        _cmp_describe(d0, describe(m), "stage:read", fails, prefix="read-alters-original")
        # ---- second generation written before any evaluation: fixpoint on files
        pdir2 = os.path.join(tmp, "again_dir")
        if "dir" in readers:
            try:
                mx.write_model(readers["dir"], pdir2)
                _cmp_files(list_dir(pdir), list_dir(pdir2), "stage:rewrite-dir", "write vs write(read(write))", fails, "fixpoint")
            except Exception as e:
                fails.append((("stage:rewrite-dir", "write-raises"), "second write raised " + _exc(e)))
                pdir2 = None
        else:
            pdir2 = None
        pzip2 = os.path.join(tmp, "again.zip")
        if "zip" in readers:
            try:
                mx.zip_model(readers["zip"], pzip2)
                _cmp_files(list_zip(pzip), list_zip(pzip2), "stage:rewrite-zip", "zip vs zip(read(zip))", fails, "fixpoint")
            except Exception as e:
                fails.append((("stage:rewrite-zip", "write-raises"), "second zip raised " + _exc(e)))
                pzip2 = None
        else:
            pzip2 = None
        # ---- values
        if plan is None:
            plan = value_plan(m)
            v0 = run_plan(m, plan)
        for label, r in readers.items():
            _cmp_values(v0, run_plan(r, plan), "stage:read-" + label, fails)
        _cmp_describe(d0, describe(m), "stage:evaluate", fails, prefix="evaluation-alters")
        # ---- a copy written after evaluation: computed values must not come back as inputs
        if "zip" in readers and chains:
            p4 = os.path.join(tmp, "evaluated.zip")
            try:
                readers["zip"].zip(p4)
                r4 = mx.read_model(p4, name="R_evaluated")
                _cmp_describe(d0, describe(r4), "stage:read-evaluated", fails)
                _cmp_values(v0, run_plan(r4, plan), "stage:read-evaluated", fails)
            except Exception as e:
                fails.append((("stage:read-evaluated", "read-raises"), "write/read after evaluation raised " + _exc(e)))
        # ---- chains: read the second generation, crossing containers
        for label, src in (("dir2", pdir2), ("zip2", pzip2)):
            if not src or not chains:
                continue
            try:
                r = mx.read_model(src, name="R_" + label)
            except Exception as e:
                fails.append((("stage:read-" + label, "read-raises"), "read_model(%s) raised %s" % (label, _exc(e))))
                continue
            _cmp_describe(d0, describe(r), "stage:read-" + label, fails)
            _cmp_values(v0, run_plan(r, plan), "stage:read-" + label, fails)
            if label == "dir2":     # cross the container: dir -> zip -> read
                p3 = os.path.join(tmp, "cross.zip")
                try:
                    r.zip(p3)
                    r3 = mx.read_model(p3, name="R_cross")
                    _cmp_describe(d0, describe(r3), "stage:read-cross", fails)
                except Exception as e:
                    fails.append((("stage:read-cross", "read-raises"), "dir->zip chain raised " + _exc(e)))
        # ---- same name, fresh session
        _close_all()
        try:
            r = mx.read_model(pdir)
            if r.name != "M":
                fails.append((("stage:read-samename", "name"), "read name %r, written name 'M'" % r.name))
            if str(r.path) != pdir:
                fails.append((("stage:read-samename", "path-not-set"), "path %r" % r.path))
            _cmp_describe(d0, describe(r), "stage:read-samename", fails)
            if len(mx.get_models()) != 1:
                fails.append((("stage:read-samename", "extra-models"), "models after read: %r" % list(mx.get_models())))
        except Exception as e:
            fails.append((("stage:read-samename", "read-raises"), "read_model(dir) in a fresh session raised " + _exc(e)))
        return "ok", fails
    finally:
        _close_all()
        shutil.rmtree(tmp, ignore_errors=True)


def make_script(lines):
    body = "\n".join(lines)
    return (prelude_text() + "\n\n" + body + "\n\nbad = quick_check(m)\nfor b in bad:\n    print(b)\n"
            "print('C04 violated' if bad else 'C04 holds for this model')\nsys.exit(1 if bad else 0)\n")
