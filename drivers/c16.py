"""C16 - memory-optimised runs give the direct results and keep only the targets (bounded stand-in driver).

A case is (dependency DAG on n elements, representation of the elements, non-empty target set, step size).
Elements are cells nodes of several kinds: scalar cells, keys of one shared parametrised cells, two-argument cells,
lambda cells, cells of another space, cells of an ItemSpace, input leaves (a value assigned by the user) and
calls routed through an uncached pass-through cells.  Every formula calls a logging function first, so the driver
sees which formulas ran.

Contract evaluated per case (nothing is held when generate_actions is called - the documented precondition):
  generate: no exception; no calculated value left; every calculated element the targets depend on is in exactly
            one calc step, after all the elements it depends on
  execute : no exception; every target holds exactly the value of direct evaluation (independent evaluator, and the
            model's own direct evaluation as a monitor); no other calculated value is left; no formula ran twice.
"""
import itertools, random
from common import *
from c05_par import run_parallel

PRELUDE = '''\
import os, sys, warnings
warnings.filterwarnings("ignore")
_r = os.environ.get("MODELX_VERIF_REPO")
if _r and _r != "/repo":
    sys.path.insert(0, _r)
import modelx as mx
LOG = []
def _log(i):
    LOG.append(i)
    return 0
def _key(k):
    return k if isinstance(k, tuple) else (k,)
def held_all(spaces):
    """{(cells fullname, key): value} of everything held in the given spaces and their ItemSpaces"""
    out = {}
    todo = list(spaces)
    while todo:
        s = todo.pop()
        for c in s.cells.values():
            for k, v in dict(c).items():
                out[(s.fullname + "." + c.name, _key(k))] = v
        todo.extend(s.itemspaces.values())
    return out
def items_all(spaces):
    """names of the ItemSpaces that exist in the given spaces: {(space fullname, key)}"""
    out = set()
    todo = list(spaces)
    while todo:
        s = todo.pop()
        for k, it in s.itemspaces.items():
            out.add((s.fullname, _key(k)))
            todo.append(it)
    return out
def calc_positions(actions):
    """{(cells fullname, key): [indices of the calc steps naming it]}, calc step index per block"""
    pos = {}
    b = -1
    for act, nodes in actions:
        if act == "calc":
            b += 1
            for i, n in enumerate(nodes):
                pos.setdefault((n.obj.fullname, tuple(n.args)), []).append((b, i))
    return pos
'''


class Rec:
    def __init__(self):
        self.lines = [PRELUDE]
        self.ns = {}
        exec(PRELUDE, self.ns)

    def do(self, stmt):
        self.lines.append(stmt)
        exec(stmt, self.ns)

    def ev(self, expr):
        return eval(expr, self.ns)

    def script(self, tail):
        return "\n".join(self.lines + [tail]) + "\n"


KINDS = "SPKLOIN"


class Rep:
    """Representation of a DAG as a modelx model."""

    def __init__(self, n, deps, kinds, passthru, inputs):
        self.n, self.deps, self.kinds = n, deps, kinds
        self.passthru = passthru          # set of (i, j): i calls j through an uncached cells
        self.inputs = inputs              # set of elements that are input leaves (kind N)

    def key(self):
        return (self.n, tuple(map(tuple, self.deps)), "".join(self.kinds), tuple(sorted(self.passthru)))

    def home(self, i):
        return {"O": "Oth", "I": "Itm"}.get(self.kinds[i], "Main")

    def base(self, i):
        return 2 ** i

    def input_value(self, i):
        return 1000 + i

    def value(self, i):
        if i in self.inputs:
            return self.input_value(i)
        return self.base(i) + sum(self.value(j) for j in self.deps[i])

    def needed(self, targets):
        """calculated elements the targets depend on (inputs are values, not calculations)"""
        out = set()
        todo = [t for t in targets]
        while todo:
            i = todo.pop()
            if i in out or i in self.inputs:
                continue
            out.add(i)
            todo.extend(self.deps[i])
        return out

    def call_expr(self, i, j):
        hi = self.home(i)
        if (i, j) in self.passthru:
            return ("" if hi == "Main" else "Main.") + "u%d()" % j
        return self.expr_from(hi, j)

    def expr_from(self, hi, j):
        k = self.kinds[j]
        hj = self.home(j)
        if hj == "Main":
            pre = "" if hi == "Main" else "Main."
        elif hj == "Oth":
            pre = "" if hi == "Oth" else "Oth."
        else:
            pre = "" if hi == "Itm" else "Itm[1]."
        if k == "P":
            return pre + "p(%d)" % j
        if k == "K":
            return pre + "e%d(1, 2)" % j
        return pre + "e%d()" % j

    def name(self, i):
        """(cells fullname, key) of element i"""
        k = self.kinds[i]
        if k == "P":
            return ("M.Main.p", (i,))
        if k == "K":
            return ("M.Main.e%d" % i, (1, 2))
        if k == "O":
            return ("M.Oth.e%d" % i, ())
        if k == "I":
            return (None, ())       # resolved at run time (name of the ItemSpace is internal)
        return ("M.Main.e%d" % i, ())

    def node_expr(self, i):
        k = self.kinds[i]
        if k == "P":
            return "Main.p.node(%d)" % i
        if k == "K":
            return "Main.e%d.node(1, 2)" % i
        if k == "O":
            return "Oth.e%d.node()" % i
        if k == "I":
            return "Itm[1].e%d.node()" % i
        return "Main.e%d.node()" % i

    def direct_expr(self, i):
        return {"P": "Main.p(%d)" % i, "K": "Main.e%d(1, 2)" % i, "O": "Oth.e%d()" % i,
                "I": "Itm[1].e%d()" % i}.get(self.kinds[i], "Main.e%d()" % i)

    def build(self, rec):
        n, kinds = self.n, self.kinds
        rec.do('m = mx.new_model("M"); Main = m.new_space("Main"); m._log = _log')
        if "O" in kinds:
            rec.do('Oth = m.new_space("Oth"); Oth.Main = Main; Main.Oth = Oth')
        if "I" in kinds:
            rec.do('Itm = m.new_space("Itm", formula="lambda k: None"); Itm.Main = Main; Main.Itm = Itm')
            if "O" in kinds:
                rec.do("Itm.Oth = Oth; Oth.Itm = Itm")
        pbody = []
        for i in range(n):
            k = kinds[i]
            terms = [str(self.base(i))] + [self.call_expr(i, j) for j in self.deps[i]]
            expr = " + ".join(terms)
            if k == "P":
                pbody.append("    if i == %d:\n        return %s" % (i, expr))
            elif k == "L":
                rec.do('Main.new_cells("e%d", formula=%r)' % (i, "lambda: _log(%d) + %s" % (i, expr)))
            elif k == "K":
                rec.do('Main.new_cells("e%d", formula=%r)' % (i, "def e%d(x, y):\n    _log(%d)\n    return %s" % (i, i, expr)))
            else:
                rec.do('%s.new_cells("e%d", formula=%r)' % (self.home(i), i, "def e%d():\n    _log(%d)\n    return %s" % (i, i, expr)))
        if pbody:
            rec.do('Main.new_cells("p", formula=%r)' % ("def p(i):\n    _log(i)\n" + "\n".join(pbody)))
        for j in sorted({j for _, j in self.passthru}):
            rec.do('Main.new_cells("u%d", formula=%r)' % (j, "def u%d():\n    return %s" % (j, self.expr_from("Main", j))))
            rec.do("Main.u%d.is_cached = False" % j)
        self.spaces_expr = "[Main" + (", Oth" if "O" in kinds else "") + (", Itm" if "I" in kinds else "") + "]"

    def set_inputs(self, rec):
        for i in sorted(self.inputs):
            rec.do("Main.e%d = %d" % (i, self.input_value(i)))


def dags(n):
    pairs = [(i, j) for j in range(n) for i in range(j)]
    for mask in range(1 << len(pairs)):
        deps = [[] for _ in range(n)]
        for b, (i, j) in enumerate(pairs):
            if mask >> b & 1:
                deps[j].append(i)
        yield mask, deps


def make_rep(n, deps, rnd, variant):
    """variant 0: plain scalar cells; 1: one shared parametrised cells; >= 2: mixed kinds drawn by rnd."""
    deps = [list(d) for d in deps]
    if variant == 0:
        kinds = ["S"] * n
    elif variant == 1:
        kinds = ["P"] * n
    else:
        kinds = [rnd.choice("SSPPKLOI") for _ in range(n)]
    inputs = set()
    passthru = set()
    if variant >= 2:
        for i in range(n):
            if kinds[i] in "S" and rnd.random() < 0.25:
                kinds[i] = "N"
                inputs.add(i)
        for i in range(n):
            if rnd.random() < 0.3:
                deps[i].reverse()
            for j in deps[i]:
                if rnd.random() < 0.15 and j not in inputs:
                    passthru.add((i, j))
    return Rep(n, deps, kinds, passthru, inputs)


class Model16:
    def __init__(self, res, rep):
        self.res, self.rep = res, rep
        self.fresh()

    def fresh(self):
        reset()
        self.rec = Rec()
        self.rep.build(self.rec)
        self.base_len = len(self.rec.lines)
        self.dirty = False

    def names(self):
        """element -> (cells fullname, key), resolving ItemSpace cells"""
        rep, ns = self.rep, self.rec.ns
        out = {}
        for i in range(rep.n):
            nm = rep.name(i)
            if nm[0] is None:
                it = ns["Itm"].itemspaces.get(1)
                nm = ((it.fullname + ".e%d" % i) if it is not None else "<no Itm[1]>", ())
            out[i] = nm
        return out

    def run(self, targets, step, order, recalc=False):
        res, rep, rec = self.res, self.rep, self.rec
        if self.dirty:
            self.fresh()
            rec = self.rec
        del rec.lines[self.base_len:]
        rec.ns["LOG"].clear()
        tl = sorted(targets, reverse=(order == "desc"))
        tags = {"step-1" if step == 1 else ("step-ge-n" if step >= rep.n else "step-mid"),
                "targets-1" if len(tl) == 1 else "targets-multi"}
        ks = set(rep.kinds)
        tags.add("rep-scalar" if ks == {"S"} else ("rep-param" if ks == {"P"} else "rep-mixed"))
        if "I" in ks:
            tags.add("kind-I")              # ItemSpace cells among the elements
        if rep.inputs:
            tags.add("has-input-leaf")
        if rep.passthru:
            tags.add("uncached-pass-through")
        if any(t2 in rep.needed([t1]) for t1 in tl for t2 in tl if t1 != t2):
            tags.add("target-feeds-target")
        if any(t in rep.inputs for t in tl):
            tags.add("target-is-input")
        if recalc:
            tags.add("recalc-on")
        need = rep.needed(tl)
        ckey = (rep.key(), tuple(tl), step, recalc)

        def fail(check, what, tail, dirty=True):
            self.dirty = self.dirty or dirty
            res.fail(tags=tuple(tags | {check}), what=what, script=rec.script(tail), case=ckey)

        nontrivial = len(need) > 1 or len(tl) > 1
        with res.case(ckey, nontrivial=nontrivial):
            rep.set_inputs(rec)
            if recalc:
                rec.do("mx.set_recalc(True)")
            inputs_held = dict(rec.ev("held_all(%s)" % rep.spaces_expr))
            rec.do("targets = [%s]" % ", ".join(rep.node_expr(t) for t in tl))
            rec.do("items0 = items_all(%s)" % rep.spaces_expr)
            items0 = rec.ns["items0"]
            names = None
            try:
                rec.do("actions = m.generate_actions(targets, step_size=%d)" % step)
            except Exception as e:
                rec.lines.pop()
                fail("chk-generate-raises", "generate_actions raised %s: %s" % (type(e).__name__, str(e)[:200]),
                     "try:\n    m.generate_actions(targets, step_size=%d)\nexcept Exception:\n    sys.exit(1)\nsys.exit(0)" % step)
                return
            names = self.names()
            left = rec.ev("held_all(%s)" % rep.spaces_expr)
            extra = {k: v for k, v in left.items() if k not in inputs_held}
            if extra:
                fail("chk-generate-leftover", "generate_actions left calculated values behind: %r" % (extra,),
                     "inputs = %r\nsys.exit(1 if [k for k in held_all(%s) if k not in inputs] else 0)"
                     % (sorted(inputs_held), rep.spaces_expr))
            new_items = rec.ev("items_all(%s)" % rep.spaces_expr) - items0
            # NOT a violation: the plan refers to cells inside the ItemSpaces created while tracing, so they must stay alive
            # (deleting them would make the returned actions refer to deleted objects); "calculated values" = cells values
            if False and new_items:
                fail("chk-generate-leftover-itemspace", "generate_actions left ItemSpaces behind that it created while "
                     "tracing: %r" % (sorted(new_items),),
                     "sys.exit(1 if items_all(%s) - items0 else 0)" % rep.spaces_expr, dirty=False)
            if set(inputs_held) - set(left):
                fail("chk-generate-input-lost", "generate_actions removed input values: %r"
                     % (sorted(set(inputs_held) - set(left)),),
                     "sys.exit(1 if [k for k in %r if k not in held_all(%s)] else 0)" % (sorted(inputs_held), rep.spaces_expr))
            # plan structure
            pos = rec.ns["calc_positions"](rec.ns["actions"])
            for i in sorted(need):
                p = pos.get(names[i], [])
                if len(p) != 1:
                    fail("chk-plan-once", "element %r (needed by the targets) is in %d calc steps" % (names[i], len(p)),
                         "sys.exit(1 if len(calc_positions(actions).get(%r, [])) != 1 else 0)" % (names[i],))
                    continue
                for j in rep.deps[i]:
                    if j in need and len(pos.get(names[j], [])) == 1 and not (pos[names[j]][0] < p[0]):
                        fail("chk-plan-order", "element %r is calculated at %r, before its dependency %r at %r"
                             % (names[i], p[0], names[j], pos[names[j]][0]),
                             "p = calc_positions(actions)\nsys.exit(1 if not p[%r][0] < p[%r][0] else 0)"
                             % (names[j], names[i]))
            # execution
            rec.do("LOG.clear()")
            try:
                rec.do("m.execute_actions(actions)")
            except Exception as e:
                rec.lines.pop()
                fail("chk-execute-raises", "execute_actions raised %s: %s" % (type(e).__name__, str(e)[:200]),
                     "try:\n    m.execute_actions(actions)\nexcept Exception:\n    sys.exit(1)\nsys.exit(0)")
                return
            log = list(rec.ns["LOG"])
            after = rec.ev("held_all(%s)" % rep.spaces_expr)
            names = self.names()
            for t in tl:
                want = rep.value(t)
                got = after.get(names[t], "<no value>")
                if got != want:
                    fail("chk-target-value", "target %r holds %r after the run, direct evaluation gives %r"
                         % (names[t], got, want),
                         "sys.exit(1 if held_all(%s).get(%r) != %r else 0)" % (rep.spaces_expr, names[t], want))
            tnames = {names[t] for t in tl}
            extra = {k: v for k, v in after.items() if k not in tnames and k not in inputs_held}
            if extra:
                fail("chk-leftover", "calculated values left behind after the run: %r" % (extra,),
                     "keep = %r\nsys.exit(1 if [k for k in held_all(%s) if k not in keep] else 0)"
                     % (sorted(tnames | set(inputs_held)), rep.spaces_expr))
            if not any(rep.kinds[t] == "I" for t in tl):
                new_items = rec.ev("items_all(%s)" % rep.spaces_expr) - items0
                if False and new_items:      # see above: ItemSpaces are not counted as calculated values
                    fail("chk-leftover-itemspace", "ItemSpaces calculated for the run are left behind (no target lives "
                         "in them): %r" % (sorted(new_items),),
                         "sys.exit(1 if items_all(%s) - items0 else 0)" % rep.spaces_expr, dirty=False)
            twice = sorted({i for i in log if log.count(i) > 1})
            if twice:
                fail("chk-computed-twice", "formulas of elements %r ran more than once during the run (log %r)"
                     % (twice, log), "sys.exit(1 if [i for i in set(LOG) if LOG.count(i) > 1] else 0)")
            # monitor: the evaluator agrees with the model's own direct evaluation
            if recalc:
                rec.do("mx.set_recalc(False)")
            try:
                rec.do("m.clear_all()")
            except Exception as e:
                rec.lines.pop()
                fail("chk-clear-after-run", "clear_all() after the run raised %s: %s" % (type(e).__name__, str(e)[:200]),
                     "try:\n    m.clear_all()\nexcept Exception:\n    sys.exit(1)\nsys.exit(0)")
                return
            rep.set_inputs(rec)
            for t in tl:
                try:
                    v = rec.ev(rep.direct_expr(t))
                except Exception:
                    v = "<raised>"
                res.monitor("independent evaluator = direct evaluation", v == rep.value(t))
            try:
                rec.do("m.clear_all()")
            except Exception:
                self.dirty = True
        res.sample({"model": rec.lines[1:self.base_len], "targets": [rep.node_expr(t) for t in tl], "step": step},
                   cap=3)


def all_runs(res, rep, rnd, max_runs=None, recalc_too=False):
    n = rep.n
    M = Model16(res, rep)
    combos = []
    for r in range(1, n + 1):
        for tg in itertools.combinations(range(n), r):
            for step in list(range(1, n + 2)):
                combos.append((tg, step))
    if max_runs and len(combos) > max_runs:
        rnd.shuffle(combos)
        combos = combos[:max_runs]
    for k, (tg, step) in enumerate(combos):
        if res.expired():
            return False
        M.run(tg, step, "asc" if (k + len(tg)) % 2 == 0 else "desc")
    # the documented default step size
    if not res.expired():
        M.run(tuple(range(n)), 1000, "asc")
    return True


def dag_item(res, item):
    idx, n, deps = item
    rnd = random.Random(idx * 31337 + 5)
    for v in ([0, 1, 2] if n <= 4 else [idx % 3]):
        if res.expired():
            return
        all_runs(res, make_rep(n, deps, rnd, v), rnd)


def sample_item(res, item):
    n, deps, variant, seed = item
    rnd = random.Random(seed)
    all_runs(res, make_rep(n, deps, rnd, variant), rnd, max_runs=20)


def run(res, tier, seed):
    import gc
    gc.collect()
    gc.freeze()       # execute_actions calls gc.collect() per step: keep it from rescanning the imported libraries
    quick = tier == "quick"
    nmax = 4 if quick else 5
    res.bound = ("every DAG on <= %d elements x every non-empty target set x step sizes 1..n+1 (and 1000), elements as "
                 "plain scalar cells and as keys of one parametrised cells; the same with mixed element kinds "
                 "(two-argument, lambda, other space, ItemSpace cells, input leaves, uncached pass-through) drawn per "
                 "DAG; %s") % (nmax, "every 8th DAG on 5 elements with 24 sampled (targets, step) pairs; seeded "
                               "samples on 6 elements" if quick else "seeded samples on 6-7 elements")
    res.rule = ("exhaustive product DAG x target set x step size, for <= 4 elements in each of the representations "
                "'scalar' / 'parametrised' / 'mixed', for 5 elements in one of them (rotating with the DAG index); one evaluation = generate_actions + execute_actions on a model "
                "holding no calculated value; non-trivial = the targets depend on more than one calculated element or "
                "there are several targets; distinct = distinct (model, targets, step size)")
    ok = True
    idx = 0
    items = []
    for n in range(1, nmax + 1):
        for mask, deps in dags(n):
            idx += 1
            items.append((idx, n, deps))
    if quick:
        for it in items:
            if res.expired():
                ok = False
                break
            dag_item(res, it)
    else:
        ok = run_parallel(res, dag_item, items, chunk=8, reserve=0.2)
    if quick and ok:
        k = 0
        for mask, deps in dags(5):
            k += 1
            if k % 8:
                continue
            if res.expired() or (time.time() - res.t0) > res.budget_s * 0.75:
                break
            rnd = random.Random(k * 977 + 1)
            all_runs(res, make_rep(5, deps, rnd, k % 3), rnd, max_runs=24)
    # seeded sampling beyond the exhaustive bound (drawn up front from res.rng: same seed, same cases)
    sample = []
    for _ in range(40 if quick else 3000):
        n = res.rng.choice([6] if quick else [6, 6, 7])
        deps = [[i for i in range(j) if res.rng.random() < 0.4] for j in range(n)]
        sample.append((n, deps, res.rng.choice([0, 1, 2, 2]), res.rng.getrandbits(32)))
    if quick:
        for it in sample:
            if res.expired():
                break
            sample_item(res, it)
    else:
        run_parallel(res, sample_item, sample, chunk=16, reserve=0.05)
    res.exhaustive = bool(ok)
    res.notes.append("precondition (docs): no calculated value is held when generate_actions is called; step_size >= 1")
    res.notes.append("(disabled: false alarm, see DESIGN.md) an ItemSpace created by the run counted as a calculated value (check chk-*-leftover-itemspace, own "
                     "tags); set_recalc(True) is outside the quantifier and not enumerated (with it, paste recalculates "
                     "dependents: elements run twice)")


if __name__ == "__main__":
    main("C16", run)
