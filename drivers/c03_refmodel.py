"""Pure-Python reference model of modelx's static inheritance (used by drivers c03 and c12).

Nothing in here imports modelx.  It is written from the *statement* of property C03:

  * every space has an ordered list of direct bases;
  * the linearisation of a space is CPython's own C3 (``type(name, bases, {}).__mro__``);
  * a space's members are the members it defines plus, for every name defined in some space of its
    linearisation and not in itself, one derived copy carrying the definition of the first space of
    the linearisation that defines the name.

`RModel` holds the *definitions only* (who defines what, who derives from whom); everything derived is
recomputed from scratch on every query, so it is the "derivation from scratch" side of the differential
oracle.  `evaluate()` is an independent evaluator without any cache: a formula is evaluated by Python's
`eval` in a namespace assembled from the expected members of the space it is evaluated in.
"""
import itertools
import types


class MROError(Exception):
    """The hierarchy has no C3 linearisation (CPython's type() raised TypeError) or is cyclic."""


class RCell:
    __slots__ = ("expr", "style", "cached", "uid")

    def __init__(self, expr, style="lambda", cached=True, uid=None):
        self.expr = expr          # python expression (text) returned by the formula
        self.style = style        # "lambda" | "def"
        self.cached = cached
        self.uid = uid

    def source(self, name):
        if self.style == "lambda":
            return "lambda: " + self.expr
        return "def %s():\n    return %s" % (name, self.expr)

    def copy(self):
        return RCell(self.expr, self.style, self.cached, self.uid)

    def __repr__(self):
        return "RCell(%r,%s,%s)" % (self.expr, self.style, self.cached)


class RRef:
    __slots__ = ("value", "mode")

    def __init__(self, value, mode="auto"):
        self.value = value
        self.mode = mode

    def copy(self):
        return RRef(self.value, self.mode)

    def __repr__(self):
        return "RRef(%r,%s)" % (self.value, self.mode)


class RSpace:
    def __init__(self, model, name, parent=None):
        self.model = model
        self.name = name
        self.parent = parent            # RSpace or None (top level)
        self.children = {}              # name -> RSpace
        self.bases = []                 # ordered direct bases (RSpace)
        self.cells = {}                 # defined cells: name -> RCell
        self.refs = {}                  # defined refs: name -> RRef
        self.params = None              # tuple of parameter names or None

    @property
    def fullpath(self):
        return (self.parent.fullpath + "." + self.name) if self.parent else self.name

    def tree(self):
        yield self
        for c in list(self.children.values()):
            yield from c.tree()

    def __repr__(self):
        return "<RSpace %s>" % self.fullpath


class RModel:
    def __init__(self):
        self.spaces = {}                # top-level: name -> RSpace
        self.grefs = {}                 # model-level refs: name -> RRef

    # ------------------------------------------------------------ structure
    def all_spaces(self):
        for s in list(self.spaces.values()):
            yield from s.tree()

    def find(self, path):
        parts = path.split(".")
        s = self.spaces[parts[0]]
        for p in parts[1:]:
            s = s.children[p]
        return s

    def new_space(self, name, parent=None, bases=()):
        s = RSpace(self, name, parent)
        s.bases = list(bases)
        (parent.children if parent else self.spaces)[name] = s
        return s

    def del_space(self, s):
        gone = set(id(x) for x in s.tree())
        del (s.parent.children if s.parent else self.spaces)[s.name]
        for o in self.all_spaces():
            o.bases = [b for b in o.bases if id(b) not in gone]

    def rename_space(self, s, name):
        cont = s.parent.children if s.parent else self.spaces
        items = [(name if v is s else k, v) for k, v in cont.items()]
        cont.clear()
        cont.update(items)
        s.name = name

    def subs(self, s, strict=True):
        """All spaces that have `s` in their linearisation (descendants in the inheritance graph)."""
        out = []
        for o in self.all_spaces():
            if o is s:
                if not strict:
                    out.append(o)
                continue
            if self._reaches(o, s):
                out.append(o)
        return out

    def _reaches(self, sub, base, seen=None):
        seen = seen if seen is not None else set()
        for b in sub.bases:
            if b is base:
                return True
            if id(b) in seen:
                continue
            seen.add(id(b))
            if self._reaches(b, base, seen):
                return True
        return False

    def is_cyclic(self):
        for s in self.all_spaces():
            if self._reaches(s, s):
                return True
        return False

    # ------------------------------------------------------------ C3 by CPython
    def _memo(self):
        """classes built for the present graph; rebuilt whenever the graph differs (compared by content)"""
        sig = tuple((id(s), tuple(map(id, s.bases))) for s in self.all_spaces())
        if sig != getattr(self, "_sig", None):
            self._sig = sig
            self._klasses = {}         # id(space) -> class; the class keeps the space alive (no id reuse)
            self._cyclic = self.is_cyclic()
        return self._klasses

    def _klass(self, s, memo):
        k = memo.get(id(s))
        if k is None:
            bases = tuple(self._klass(b, memo) for b in s.bases)
            try:
                k = type("K", bases or (object,), {"_sp": s})
            except TypeError as e:
                raise MROError(str(e))
            memo[id(s)] = k
        return k

    def mro(self, s):
        """[s, ...bases in C3 order]; MROError when CPython refuses the hierarchy (or it is cyclic)."""
        memo = self._memo()
        if self._cyclic:
            raise MROError("cyclic")
        k = self._klass(s, memo)
        return [c._sp for c in k.__mro__ if c is not object]

    def check_all_mro(self):
        for s in self.all_spaces():
            self.mro(s)

    # ------------------------------------------------------------ derivation from scratch
    def members(self, s, kind):
        """name -> (definer RSpace, definition) for every cells/refs name `s` must contain."""
        out = {}
        for sp in self.mro(s):
            for n, d in getattr(sp, kind).items():
                if n not in out:
                    out[n] = (sp, d)
        return out

    def exp_cells(self, s):
        return self.members(s, "cells")

    def exp_refs(self, s):
        return self.members(s, "refs")

    def visible_ref(self, s, name):
        """(found, value) for a reference name as seen from space `s` (space level before model level)."""
        r = self.exp_refs(s)
        if name in r:
            return True, r[name][1].value
        if name in self.grefs:
            return True, self.grefs[name].value
        return False, None

    # ------------------------------------------------------------ independent evaluator (no cache)
    def namespace(self, s, space_name=None, extra=None, depth=0):
        ns = {}
        for n, r in self.grefs.items():
            ns[n] = r.value
        for n, (_, r) in self.exp_refs(s).items():
            ns[n] = r.value
        for n in self.exp_cells(s):
            ns[n] = (lambda n=n: self.evaluate(s, n, space_name, extra, depth + 1))
        ns["_space"] = types.SimpleNamespace(name=space_name if space_name is not None else s.name)
        if extra:
            ns.update(extra)
        ns["__builtins__"] = __builtins__
        return ns

    def evaluate(self, s, name, space_name=None, extra=None, depth=0):
        """Value of cells `name` evaluated in `s` (names resolved in `s`); raises what the formula raises."""
        if depth > 50:
            raise RecursionError("formula recursion")
        definer, cd = self.exp_cells(s)[name]
        ns = self.namespace(s, space_name, extra, depth)
        return eval(compile(cd.expr, "<rcell>", "eval"), ns)

    # ------------------------------------------------------------ description
    def describe(self):
        d = {}
        for s in self.all_spaces():
            d[s.fullpath] = {
                "bases": [b.fullpath for b in s.bases],
                "cells": {n: (c.expr, c.style, c.cached) for n, c in s.cells.items()},
                "refs": {n: (repr(r.value), r.mode) for n, r in s.refs.items()},
            }
        return d


# ---------------------------------------------------------------- enumeration of ordered-base DAGs

def ordered_subsets(items):
    """All ordered selections (permutations of all subsets) of `items`."""
    items = list(items)
    for k in range(len(items) + 1):
        for p in itertools.permutations(items, k):
            yield p


def all_dags(n):
    """All ordered-base DAGs on nodes 0..n-1 whose labelling is topological (bases have smaller labels).

    Every ordered-base DAG is isomorphic to at least one of them.  Yields tuples `bases` with
    bases[i] = ordered tuple of direct bases of node i.  Counts: 1, 2, 10, 160, 10400, 3390400.
    """
    choices = [list(ordered_subsets(range(i))) for i in range(n)]
    return itertools.product(*choices)


def canon(n, bases, marks):
    """Canonical form of (DAG, per-node marks) under relabelling of the nodes."""
    best = None
    for perm in itertools.permutations(range(n)):
        # perm[old] = new
        inv = [0] * n
        for o, nw in enumerate(perm):
            inv[nw] = o
        form = tuple((tuple(perm[b] for b in bases[inv[i]]), marks[inv[i]]) for i in range(n))
        if best is None or form < best:
            best = form
    return best


def cpython_mro(bases, node):
    """C3 of `node` in DAG `bases` by CPython; returns list of node labels or None when refused."""
    memo = {}

    def k(i):
        if i not in memo:
            memo[i] = type("K%d" % i, tuple(k(b) for b in bases[i]) or (object,), {"_i": i})
        return memo[i]
    try:
        return [c._i for c in k(node).__mro__ if c is not object]
    except TypeError:
        return None
