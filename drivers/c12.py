"""C12 - names are unique per space and the visible namespace equals the containers (bounded stand-in).

Every history of edits over a small vocabulary (create cells / references / child spaces under the two names
x and y, by explicit name and by the name of the formula, delete, rename cells and spaces, add / remove bases,
model-level references and spaces, space parameters, copy) is run on the real modelx from a set of initial
inheritance shapes on three spaces.  After the last edit of every history (every prefix is a history of its own)
the contract is evaluated on the live objects only:

  NU  keys of space.cells, space._own_refs and space.named_spaces are pairwise disjoint in every space (static
      and ItemSpace [1]); model.spaces and model.refs are disjoint;
  NS  dir(space) has no duplicates and equals cells + refs + child spaces; refs = own (static: _own_refs; dynamic:
      those of the static space) + parameters + _self/_space/_model + model-level names; attribute access gives
      exactly the member of the container (own reference before the model-level one) and fails for other names;
      the names a formula sees (a probe cells returning sorted(globals())) are exactly dir(space); container keys
      equal the members' own names; the same for the model;
  SC  System/Model/SpaceManager/ReferenceManager/IOManager._check_sanity() and CellsImpl.check_sanity() of every
      cells pass - after every edit, accepted or refused.

No expectation is made about *which* edits modelx accepts: the oracle only looks at the state it produces.
"""
from common import *          # noqa: F401,F403
from c03_refmodel import all_dags, canon, cpython_mro

HEAD = """import sys, warnings
warnings.filterwarnings("ignore")
import modelx as mx
"""

CHECKER = r'''
SPECIAL = {"_self", "_space", "_model"}
PROBE_NAMES = ("x", "y", "w", "nope")
_tick = [0]

def _kinds(s):
    return {"cells": set(s.cells), "refs": set(s._own_refs), "spaces": set(s.named_spaces)}

def space_violations(m, s, path, dyn_base=None, params=()):
    """violations of NU / NS in one space: list of (symptom, detail, python expression that is truthy iff violated).
    Reading a container, dir() or an attribute is an operation the property says succeeds: an exception raised by
    modelx there is a violation (symptom *-crash), not a fault of the checker."""
    out = []

    def crashed(what, e, expr_text):
        out.append(("ns:%s-crash:%s" % (what, type(e).__name__), "%s: %s raised %s: %s"
                    % (path, expr_text, type(e).__name__, str(e)[:120]), "raises(lambda: %s)" % expr_text))

    try:
        k = _kinds(s)
    except Exception as e:
        crashed("containers", e, "(list(%s.cells), list(%s._own_refs), list(%s.named_spaces))" % (path, path, path))
        return out
    for a, b in (("cells", "refs"), ("cells", "spaces"), ("refs", "spaces")):
        both = k[a] & k[b]
        if both:
            cont = {"cells": "cells", "refs": "_own_refs", "spaces": "named_spaces"}
            out.append(("nu:%s+%s" % (a, b), "%s: %s both in %s and %s" % (path, sorted(both), a, b),
                        "set(%s.%s) & set(%s.%s)" % (path, cont[a], path, cont[b])))
    try:
        d = dir(s)
    except Exception as e:
        crashed("dir", e, "dir(%s)" % path)
        return out
    if len(d) != len(set(d)):
        out.append(("ns:dir-duplicates", "%s: dir() = %s" % (path, sorted(d)), "len(dir(%s)) != len(set(dir(%s)))" % (path, path)))
    try:
        refs = set(s.refs)
        own = set((dyn_base if dyn_base is not None else s)._own_refs)
        mrefs = set(m.refs)
    except Exception as e:
        crashed("refs", e, "list(%s.refs)" % path)
        return out
    want_refs = own | SPECIAL | mrefs | set(params)
    if refs != want_refs:
        out.append(("ns:refs", "%s: refs = %s, expected own+parameters+special+model-level = %s"
                    % (path, sorted(refs), sorted(want_refs)),
                    "set(%s.refs) != %r" % (path, want_refs)))
    want = k["cells"] | refs | k["spaces"]
    if set(d) != want:
        out.append(("ns:dir", "%s: dir() = %s, containers = %s" % (path, sorted(d), sorted(want)),
                    "set(dir(%s)) != set(%s.cells) | set(%s.refs) | set(%s.named_spaces)" % (path, path, path, path)))
    for n in sorted(want | set(PROBE_NAMES)):
        try:
            v = getattr(s, n); has = True
        except AttributeError:
            has = False
        except Exception as e:
            crashed("attr", e, "getattr(%s, %r)" % (path, n))
            continue
        if has != (n in want):
            out.append(("ns:attr-presence", "%s.%s: attribute access %s, containers say %s"
                        % (path, n, has, n in want), "hasattr(%s, %r) != %r" % (path, n, n in want)))
            continue
        if not has:
            continue
        if sum(n in k[c] for c in k) > 1:
            continue        # reported as a NU violation
        if (n in k["cells"] or n in k["spaces"]) and n in refs:
            continue        # a member and a model-level name: the statement gives no precedence between them
        try:
            if n in k["cells"]:
                exp, ex = s.cells[n], "%s.cells[%r]" % (path, n)
            elif n in k["spaces"]:
                exp, ex = s.named_spaces[n], "%s.named_spaces[%r]" % (path, n)
            elif n in params:
                continue
            elif n in own:
                if dyn_base is not None:
                    continue        # bound in the dynamic tree (property C10)
                exp, ex = s._own_refs[n], "%s._own_refs[%r]" % (path, n)
            else:
                exp, ex = s.refs[n], "%s.refs[%r]" % (path, n)
        except Exception as e:
            crashed("container-item", e, "(%s.cells, %s.refs)[0 if %r in %s.cells else 1][%r]" % (path, path, n, path, n))
            continue
        try:
            differs = v is not exp and v != exp
            shown = "%r, the container holds %r" % (v, exp)
        except Exception as e:
            crashed("attr-compare", e, "getattr(%s, %r) != %s" % (path, n, ex))
            continue
        if differs:
            out.append(("ns:attr-value", "%s.%s is %s" % (path, n, shown),
                        "getattr(%s, %r) is not %s and getattr(%s, %r) != %s" % (path, n, ex, path, n, ex)))
    try:
        for n, c in s.cells.items():
            if c.name != n or c.parent is not s:
                out.append(("ns:member-name", "%s.cells[%r] has name %r, parent %r" % (path, n, c.name, c.parent),
                            "%s.cells[%r].name != %r or %s.cells[%r].parent is not %s" % (path, n, n, path, n, path)))
        for n, c in s.named_spaces.items():
            if c.name != n or c.parent is not s:
                out.append(("ns:member-name", "%s.named_spaces[%r] has name %r" % (path, n, c.name),
                            "%s.named_spaces[%r].name != %r" % (path, n, n)))
    except Exception as e:
        crashed("member", e, "[(c.name, c.parent) for c in list(%s.cells.values()) + list(%s.named_spaces.values())]"
                % (path, path))
    if "zz" in k["cells"]:
        try:
            probe_ok = len(s.cells["zz"].parameters) == 1
        except Exception:
            probe_ok = False
        if probe_ok:
            _tick[0] += 1
            try:
                seen = set(s.cells["zz"](_tick[0]))
            except Exception as e:
                seen = "EXC:" + type(e).__name__
            if seen != set(d):
                out.append(("ns:formula-names", "%s: a formula sees %s, dir() = %s"
                            % (path, sorted(seen) if isinstance(seen, set) else seen, sorted(d)),
                            "set(val(lambda: %s.cells['zz'](%d))) != set(dir(%s))" % (path, 10 ** 6 + _tick[0], path)))
    return out

def val(thunk):
    try:
        return thunk()
    except Exception as e:
        return ["EXC:" + type(e).__name__]

def violations(m):
    """all violations in the model; an exception that escapes from inside modelx during a read is a violation,
    any other exception is a fault of this checker and propagates"""
    try:
        return _violations(m)
    except Exception as e:
        tb = e.__traceback__
        while tb.tb_next is not None:
            tb = tb.tb_next
        if "modelx" not in tb.tb_frame.f_code.co_filename:
            raise
        return [("ns:read-crash:" + type(e).__name__, "reading the model raised %s: %s" % (type(e).__name__, e),
                 "raises(lambda: [(s.name, list(s.cells), list(s.refs), dir(s)) for s in m.spaces.values()])", "m")]

def _violations(m):
    out = []
    try:
        both = set(m.spaces) & set(m.refs)
        d = dir(m)
        want = set(m.spaces) | set(m.refs)
    except Exception as e:
        return [("ns:model-crash:" + type(e).__name__, "reading model.spaces / model.refs / dir(model) raised %r" % e,
                 "raises(lambda: (list(m.spaces), list(m.refs), dir(m)))", "m")]
    if both:
        out.append(("nu:model-spaces+refs", "model: %s both a space and a reference" % sorted(both),
                    "set(m.spaces) & set(m.refs)", "m"))
    if len(d) != len(set(d)) or set(d) != want:
        out.append(("ns:model-dir", "dir(model) = %s, spaces + refs = %s" % (sorted(d), sorted(want)),
                    "len(dir(m)) != len(set(dir(m))) or set(dir(m)) != set(m.spaces) | set(m.refs)", "m"))
    for n in sorted(want | set(PROBE_NAMES)):
        try:
            v = getattr(m, n); has = True
        except AttributeError:
            has = False
        except Exception as e:
            out.append(("ns:model-attr-crash:" + type(e).__name__, "model.%s raised %r" % (n, e),
                        "raises(lambda: getattr(m, %r))" % n, "m"))
            continue
        if has != (n in want):
            out.append(("ns:model-attr", "model.%s: attribute access %s, containers say %s" % (n, has, n in want),
                        "hasattr(m, %r) != %r" % (n, n in want), "m"))
        elif has and n in m.spaces and v is not m.spaces[n]:
            out.append(("ns:model-attr", "model.%s is not the space in model.spaces" % n,
                        "m.%s is not m.spaces[%r]" % (n, n), "m"))
    for n, s in m.spaces.items():
        if s.name != n:
            out.append(("ns:member-name", "model.spaces[%r] has name %r" % (n, s.name),
                        "m.spaces[%r].name != %r" % (n, n), "m"))
    try:
        nodes = list(walk(m))
    except Exception as e:
        out.append(("ns:walk-crash:" + type(e).__name__, "walking the spaces of the model raised %r" % e,
                    "raises(lambda: list(walk(m)))", "m"))
        nodes = []
    for s, path, base, params in nodes:
        if s is None:
            out.append(("ns:itemspace-crash:" + base, "%s raised %s" % (path, base), "raises(lambda: %s)" % path, path))
            continue
        for v in space_violations(m, s, path, base, params):
            out.append(v + (path,))
        try:
            cells = list(s.cells.items())
        except Exception:
            cells = []
        for n, c in cells:
            try:
                c._impl.check_sanity()
            except AssertionError:
                out.append(("sc:cells", "%s.cells[%r]: CellsImpl.check_sanity() fails" % (path, n),
                            "raises(lambda: %s.cells[%r]._impl.check_sanity())" % (path, n), path))
            except Exception as e:
                out.append(("sc:cells-crash:" + type(e).__name__, "%s.cells[%r]: check_sanity raised %r" % (path, n, e),
                            "raises(lambda: %s.cells[%r]._impl.check_sanity())" % (path, n), path))
    from modelx.core import mxsys
    try:
        mxsys._check_sanity()
    except AssertionError as e:
        tb = e.__traceback__
        while tb.tb_next is not None:
            tb = tb.tb_next
        owner = type(tb.tb_frame.f_locals.get("self")).__name__
        import linecache
        line = linecache.getline(tb.tb_frame.f_code.co_filename, tb.tb_lineno).split("#")[0].strip()
        out.append(("sc:%s:%s" % (owner, "_".join(line.split())[:50]),
                    "%s._check_sanity() fails at: %s" % (owner, line),
                    "raises(lambda: mxsys_check())", "m"))
    except Exception as e:
        out.append(("sc:crash:" + type(e).__name__, "System._check_sanity() raised %r" % e,
                    "raises(lambda: mxsys_check())", "m"))
    return out

def mxsys_check():
    from modelx.core import mxsys
    mxsys._check_sanity()

def raises(thunk):
    try:
        thunk()
        return False
    except Exception:
        return True

'''

WALK = r'''
def walk(m):
    """(space, path expression, static base or None, parameter names) of every static space and of the ItemSpace
    [1] (with its dynamic children) of every space that has parameters"""
    def static(s, path):
        yield s, path, None, ()
        if s.parameters is not None and len(s.parameters) == 1:
            try:
                it = s[1]
            except Exception as e:
                yield None, path + "[1]", type(e).__name__, ()
            else:
                yield from dynamic(it, path + "[1]", s, tuple(s.parameters))
        for n, c in s.named_spaces.items():
            yield from static(c, "%s.named_spaces[%r]" % (path, n))
    def dynamic(d, path, base, params):
        yield d, path, base, params
        for n, c in d.named_spaces.items():
            if n in base.named_spaces:
                yield from dynamic(c, "%s.named_spaces[%r]" % (path, n), base.named_spaces[n], params)
    for n, s in m.spaces.items():
        yield from static(s, "m.spaces[%r]" % n)

def reads(m):
    """what a user looking around does between two edits (refreshes the lazy views)"""
    for s, path, base, params in walk(m):
        if s is not None:
            dir(s); list(s.cells); list(s.refs); list(s.named_spaces)
    dir(m)
'''

_CHECKER_CODE = compile(HEAD + WALK + CHECKER, "<c12-checker>", "exec")
_cc = {}


def _compiled(text):
    c = _cc.get(text)
    if c is None:
        if len(_cc) > 20000:
            _cc.clear()
        c = _cc[text] = compile(text, "<c12>", "exec")
    return c


class Live:
    def __init__(self):
        self.lines = []
        self.env = {}
        exec(_CHECKER_CODE, self.env)

    def do(self, line, guard=True):
        try:
            exec(_compiled(line), self.env)
        except Exception as e:      # noqa
            self.lines.append("try:\n    %s\nexcept Exception: pass" % line)
            return e
        self.lines.append(line)
        return None

    def script(self, probe):
        pre = HEAD
        body = "\n".join(self.lines)
        if "raises(" in probe or "mxsys_check" in probe:
            pre += ("\ndef raises(thunk):\n    try:\n        thunk()\n        return False\n"
                    "    except Exception as e:\n        print('raised', type(e).__name__, e)\n        return True\n"
                    "\ndef mxsys_check():\n    from modelx.core import mxsys\n    mxsys._check_sanity()\n")
        if "val(" in probe:
            pre += ("\ndef val(thunk):\n    try:\n        return thunk()\n    except Exception as e:\n"
                    "        return ['EXC:' + type(e).__name__]\n")
        if "reads(m)" in body or "walk(m)" in probe:
            pre += WALK
        return (pre + "\n" + body + "\n\nviolated = bool(%s)\nprint('violated:', violated)\n"
                "sys.exit(1 if violated else 0)\n" % probe)


# ------------------------------------------------------------------------------------------------ vocabulary

SPACES = ("S0", "S1", "S2")


def vocabulary(names, level):
    """The fixed list of edits (text lines).  Each is tried whatever the state; a refused edit ends a history."""
    V = []
    other = {"x": "y", "y": "x"}
    val = [0]

    def add(kind, line, sp=None):
        V.append((kind, line, sp))
    for s in SPACES:
        for n in names:
            add("new-cells", "%s.new_cells(%r, formula='lambda: 1')" % (s, n), s)
            if level >= 0:
                add("new-cells-by-formula-name", "%s.new_cells(formula='def %s(): return 1')" % (s, n), s)
            add("set-ref", "%s.%s = %%(v)d" % (s, n), s)
            add("new-child-space", "%s.new_space(%r)" % (s, n), s)
            add("del-member", "del %s.%s" % (s, n), s)
        if level >= 0:
            add("rename-cells", "%s.cells['x'].rename('y')" % s, s)
            add("rename-child-space", "%s.named_spaces['x'].rename('y')" % s, s)
            if "y" in names:
                add("rename-cells", "%s.cells['y'].rename('x')" % s, s)
        for t in SPACES:
            if s != t:
                add("add-base", "%s.add_bases(%s)" % (s, t), s)
                add("remove-base", "%s.remove_bases(%s)" % (s, t), s)
    for n in names:
        add("set-model-ref", "m.%s = %%(v)d" % n)
        if level >= 0:
            add("new-model-space", "m.new_space(%r)" % n)
            add("del-model-member", "del m.%s" % n)
    if level >= 0:
        add("rename-space", "S0.rename('x')", "S0")
        add("rename-space", "S2.rename('x')", "S2")
    if level >= 1:
        for s in SPACES:
            add("set-parameters", "%s.formula = 'lambda i: None'" % s, s)
            add("new-sub-space", "m.new_space('w', bases=[%s])" % s, s)
            add("new-child-space-with-base", "%s.new_space('x', bases=[%s])" % (s, SPACES[(SPACES.index(s) + 1) % 3]), s)
        add("copy-space", "S0.copy(S1, 'x')", "S1")
        add("copy-space", "S1.copy(m, 'x')")
        add("copy-cells", "S0.cells['x'].copy(S2)", "S2")
        add("set-cells-formula", "S1.cells['x'].formula = 'lambda: 5'", "S1")
        add("set-ref-absolute", "S0.absref(x=S1)", "S0")
        add("new-cells-auto-name", "S1.new_cells(formula='lambda: 3')", "S1")
    return V


class Spec:
    def __init__(self, bases, reads, names, level, zz=True):
        self.bases = tuple(tuple(b) for b in bases)
        self.reads, self.names, self.level, self.zz = reads, tuple(names), level, zz

    def ident(self):
        return (self.bases, self.reads, self.names, self.level, self.zz)

    def text(self, hist_lines):
        return {"bases": {"S%d" % i: ["S%d" % b for b in bs] for i, bs in enumerate(self.bases)},
                "reads between edits": self.reads, "history": hist_lines}


def build(spec):
    L = Live()
    L.do("m = mx.new_model('M')")
    for i, bs in enumerate(spec.bases):
        arg = (", bases=[%s]" % ", ".join("S%d" % b for b in bs)) if bs else ""
        L.do("S%d = m.new_space('S%d'%s)" % (i, i, arg))
    if spec.zz:
        for i, bs in enumerate(spec.bases):
            if not bs:      # probe: the names a formula of this space sees (sub spaces derive the probe)
                L.do("S%d.new_cells('zz', formula='lambda t: sorted(globals())')" % i)
    return L


_state = {}      # (spec ident, history indexes) -> "clean" | "dead"


def execute(spec, V, hist):
    reset()
    L = build(spec)
    outcome = "ok"
    kind = "build"
    where = None
    for step, j in enumerate(hist):
        if spec.reads:
            L.do("reads(m)")
        kind, line, where = V[j]
        if "%(v)d" in line:
            line = line % {"v": 100 + step}
        e = L.do(line)
        outcome = "ok" if e is None else "refused:" + type(e).__name__
        if e is not None and step < len(hist) - 1:
            outcome = "dead"
            break
    return L, kind, where, outcome


def prefix_state(spec, V, hist):
    k = (spec.ident(), tuple(hist))
    r = _state.get(k)
    if r is None:
        L, kind, where, outcome = execute(spec, V, hist)
        if outcome != "ok":
            r = "dead"
        else:
            r = "dead" if L.env["violations"](L.env["m"]) else "clean"
        if len(_state) > 5000:
            _state.clear()
        _state[k] = r
    return r


def relation(L, where, path):
    """where the violation shows, relative to the edited space"""
    if where is None:
        return "rel:model-edit"
    if path == "m":
        return "rel:model"
    env = L.env
    try:
        edited = env[where]
        victim = eval(path.split("[1]")[0] if "[1]" in path else path, env)
        dyn = "[1]" in path
        # climb to the top-level/static space that contains the victim
        if victim is edited:
            r = "self"
        elif edited._is_valid() and victim._is_valid() and edited in victim.bases:
            r = "sub"
        elif edited._is_valid() and victim._is_valid() and victim in edited.bases:
            r = "base"
        elif victim.parent is edited:
            r = "child"
        else:
            r = "other"
        return "rel:" + r + ("-itemspace" if dyn else "")
    except Exception:
        return "rel:unknown"


def run_case(res, spec, V, hist):
    """history = indexes into V.  Returns True when the history may be continued (last edit accepted, state clean)."""
    hist = tuple(hist)
    if hist and prefix_state(spec, V, hist[:-1]) == "dead":
        return False
    L, kind, where, outcome = execute(spec, V, hist)
    if outcome == "dead":
        return False
    lines = [V[j][1] for j in hist]
    key = (canon3(spec.bases), spec.reads, spec.names, spec.level, tuple(lines))
    text = spec.text(lines)
    accepted = outcome == "ok"
    with res.case(key, nontrivial=accepted and bool(hist)):
        viol = L.env["violations"](L.env["m"])
        for v in viol:
            sym, detail, probe, path = v
            tags = ["op:" + kind, "sym:" + sym, relation(L, where, path),
                    "outcome:" + ("accepted" if accepted else "refused")]
            res.fail(tags=tags, what=detail, script=L.script(probe), case=(key, text))
    ok = accepted and not viol
    _state[(spec.ident(), hist)] = "clean" if ok else "dead"
    res.sample(text)
    return ok


def canon3(bases):
    return canon(len(bases), bases, tuple(() for _ in bases))


def initial_shapes():
    """all consistent ordered-base DAGs on three spaces, up to relabelling"""
    seen, out = set(), []
    for dag in all_dags(3):
        if any(cpython_mro(dag, i) is None for i in range(3)):
            continue
        c = canon3(dag)
        if c not in seen:
            seen.add(c)
            out.append(dag)
    return out


def dfs(res, spec, V, prefix, depth):
    """all histories extending `prefix` up to `depth` edits in total; extension only through accepted, clean states"""
    for j in range(len(V)):
        if res.expired():
            res.exhaustive = False
            return
        h = prefix + (j,)
        alive = run_case(res, spec, V, h)
        if alive and len(h) < depth:
            dfs(res, spec, V, h, depth)


def work(task, sub):
    sub.exhaustive = True
    what = task[0]
    if what == "dfs":
        _, spec, first, depth = task
        V = vocabulary(spec.names, spec.level)
        if first is None:
            run_case(sub, spec, V, ())
            return
        if sub.expired():
            sub.exhaustive = False
            sub.notes.append("budget ended in histories of <= %d edits, names %s" % (depth, spec.names))
            return
        alive = run_case(sub, spec, V, (first,))
        if alive and depth > 1:
            dfs(sub, spec, V, (first,), depth)
        if not sub.exhaustive:
            sub.notes.append("budget ended in histories of <= %d edits, names %s" % (depth, spec.names))
    elif what == "sample":
        import random
        for spec, sd, length in task[1]:
            if sub.expired():
                sub.exhaustive = False
                sub.notes.append("budget ended in sampled histories")
                return
            rng = random.Random(sd)
            V = vocabulary(spec.names, spec.level)
            hist = ()
            for _step in range(length):
                for _try in range(8):          # a refused edit is a case, too; then another edit is drawn
                    j = rng.randrange(len(V))
                    if run_case(sub, spec, V, hist + (j,)):
                        hist = hist + (j,)
                        break
                else:
                    break
    else:
        raise ValueError(task)


def run(res, tier, seed):
    from c03_pool import run_parallel
    thorough = tier != "quick"
    shapes = initial_shapes()
    # (names, vocabulary level, max edits, reads between edits)
    if thorough:
        plan = [(("x", "y"), 1, 2, (False, True)), (("x",), 1, 3, (False, True)), (("x", "y"), 0, 3, (True,))]
        nsample = 6000
    else:
        plan = [(("x", "y"), 1, 2, (False, True)), (("x",), -1, 3, (True,))]
        nsample = 150
    res.bound = ("initial models: the %d consistent ordered-base DAGs on 3 spaces (up to relabelling), each space "
                 "with a probe cells; all histories of edits from the fixed vocabulary with (names, vocabulary "
                 "level, max edits, reads between edits) in %s, a history being continued only through accepted "
                 "edits that leave a state without violation; plus %d seeded random histories of 4-6 edits"
                 % (len(shapes), plan, nsample))
    res.rule = ("vocabulary (per space and name): new_cells by name / by formula name, reference assignment, child "
                "space, del, rename cells x<->y, rename child space, add_bases / remove_bases for every ordered pair, "
                "model-level reference / space / del, rename a top-level space to x (level -1: without the renames, "
                "the model-level space / del and new_cells by formula name, on the shapes with <= 2 base links); "
                "level 1 adds parameters, new "
                "sub space, child space with a base, copy of a space / cells, defcells, absref to a space, "
                "auto-named cells.  Every edit is tried whatever the state; NU / NS / the sanity self-checks are "
                "evaluated on the live objects after the last edit (accepted or refused).  Non-trivial: the last "
                "edit was accepted.  distinct = (initial shape up to relabelling, flags, history text).")
    res.exhaustive = True
    tasks = []
    deep = []
    for names, level, depth, readss in plan:
        V = vocabulary(names, level)
        for reads in readss:
            for dag in shapes:
                if level < 0 and sum(len(b) for b in dag) > 2:
                    continue            # quick tier: three-edit histories on the shapes with <= 2 base links
                spec = Spec(dag, reads, names, level)
                (tasks if depth <= 2 else deep).append(("dfs", spec, None, depth))
                for j in range(len(V)):
                    (tasks if depth <= 2 else deep).append(("dfs", spec, j, depth))
    rng = res.rng
    sampled = []
    for _ in range(nsample):
        dag = rng.choice(shapes)
        spec = Spec(dag, rng.random() < 0.5, ("x", "y"), 1)
        sampled.append((spec, rng.randrange(10 ** 9), rng.choice((4, 5, 6))))
    for i in range(0, len(sampled), 20):
        tasks.append(("sample", sampled[i:i + 20]))
    tasks += deep           # the largest layers last
    run_parallel(res, work, tasks, margin=0.93)
    if res.expired():
        res.exhaustive = False


if __name__ == "__main__":
    main("C12", run)
