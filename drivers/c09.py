"""C09 - the cached flag never changes any result.

Bounded stand-in.  For every model family (the C08 families + one family per kind of reference read through
an uncached reader) and every history (an optional warm-up evaluation, then <= 2 edits - thorough: <= 3 sampled -
taken from the family's alphabet, flag flips included, then an observation of every query of the family):

  differential   the history is run once with every flagged cells cached and no flips (baseline) and once under
                 each of the 2^n assignments of the cached flag to the n <= 4 flagged cells (flips applied where
                 the history has them); every query must return the same value in both runs ("switching any
                 subset of cells between cached and uncached changes no value, now or after further edits")
  no-values      after every step, every cells whose is_cached reads False holds nothing (len, iteration)
  re-executed    a direct call of an uncached cells runs its formula again (counting reference TICK)
  no-assignment  an uncached cells does not end up holding an assigned value
  unhashable     (family `unhash`) uncached cells called with lists / dicts - at top level, from cached and uncached
                 callers, by keyword, by subscription, in derived and in ItemSpace cells, reading no reference, a
                 reference by name, or one by attribute path - return what the independent uncached evaluator
                 (c01_kit.PureModel) returns
"""
from common import *
from c01_kit import *
import c08
from c08 import F, Q, q, e_clear, e_setref, e_delref, e_formula, e_input, e_flip, e_del, e_simple, Family, \
    new_state, apply_state, cells_of


# ------------------------------------------------------------------------------------------------ families

READ_KINDS = [
    # kind, expression (reader lives in S), (space path, ref name) edited, unrelated ref
    ("byname-own", "r", ("S", "r")),
    ("byname-global", "g", ("", "g")),
    ("child-attr", "Ch.y", ("S.Ch", "y")),
    ("deep-attr", "Ch.GC.z", ("S.Ch.GC", "z")),
    ("space-attr", "_space.r", ("S", "r")),
    ("model-attr", "_model.g", ("", "g")),
    ("model-path-attr", "_model.S.Ch.y", ("S.Ch", "y")),
    ("refspace-attr", "rs.z2", ("T", "z2")),
    ("parent-attr", "Ch.parent.r", ("S", "r")),
    ("child-attr-global", "Ch.g", ("", "g")),
]


class URead(Family):
    """top(x) -> mid(x) -> rd(x) reads one reference in the given way; side(x) -> rd(x)."""
    flagged = (("S", "top"), ("S", "mid"), ("S", "rd"))

    def __init__(self, kind, expr, target):
        self.kind, self.expr, self.target = kind, expr, target
        self.name = "uread"
        self.by_attr = "attr" in kind
        self.attr_reads = {("S", "rd"): [target]} if self.by_attr else {}
        self.name_reads = {("S", "rd"): [target] + ([("S", "g")] if kind == "byname-global" else [])} if not self.by_attr else {}

    def extra_tags(self):
        return ["read:" + self.kind]

    def spec(self, flags):
        sp = Spec()
        sp.ref("", "g", 7)
        sp.space("S"); sp.space("S.Ch"); sp.space("S.Ch.GC"); sp.space("T")
        sp.ref("S", "r", 5); sp.ref("S.Ch", "y", 2); sp.ref("S.Ch.GC", "z", 3); sp.ref("T", "z2", 4)
        sp.ref("S", "other", 1)
        sp.ref("S", "rs", Obj("T"))
        sp.cell("S", "top", F("top", "x", "mid(x) + 1", "S.top", "(x,)"), flags.get(("S", "top"), True))
        sp.cell("S", "mid", F("mid", "x", "rd(x) * 2", "S.mid", "(x,)"), flags.get(("S", "mid"), True))
        sp.cell("S", "rd", F("rd", "x", "%s * 10 + x" % self.expr, "S.rd", "(x,)"), flags.get(("S", "rd"), True))
        sp.cell("S", "side", F("side", "x", "rd(x) + 100", "S.side", "(x,)"))
        sp.cell("T", "ext", F("ext", "x", "_model.S.rd(x) + 5000", "T.ext", "(x,)"))      # cached caller in another space
        return sp

    def alphabet(self):
        tp, tn = self.target
        RD2 = F("rd", "x", "%s * 10 + x + 1" % self.expr, "S.rd", "(x,)")
        MID2 = F("mid", "x", "rd(x) * 3", "S.mid", "(x,)")
        return [q("q-top", "S", "top", (1,)), q("q-side", "S", "side", (1,)), q("q-mid", "S", "mid", (1,), form="sub"),
                q("q-reader", "S", "rd", (), {"x": 1}), q("q-top-other-arg", "S", "top", (2,)),
                q("q-caller-in-other-space", "T", "ext", (1,)),
                e_setref("set-ref-read", tp, tn, 6), e_setref("set-ref-unrelated", "S", "other", 2),
                e_delref("del-ref-read", tp, tn),
                e_formula("formula-reader", "S", "rd", [RD2]), e_formula("formula-mid", "S", "mid", [MID2]),
                e_clear("clear-reader", "clear", "S", "rd"), e_clear("clear_at-mid", "clear_at", "S", "mid", (1,)),
                e_flip("flip-reader", "S", "rd"), e_flip("flip-mid", "S", "mid"),
                ("new-ref-shadowing-global", "edit", lambda st: ("setref", "S", "g", 70 + st["step"])),
                e_input("input-side", "S", "side", (1,), 1000)]


# which alphabet entries of the C08 families assign inputs to flagged cells (flag-dependent by definition)
EXCLUDE = {"diamond": {"input-leaf", "input-mid"}, "recur": {"input-mid", "input-leaf", "input-unrelated"},
           "fail": {"input-failing"}, "cross": {"input-leaf"}, "inherit": {"input-derived-leaf"}, "uchain": set(),
           "reads": set(), "items": set(), "uread": set()}
ATTR_READS = {"diamond": {("S", "c"): [("S.Ch", "y")]}, "recur": {("S", "k"): [("S.Ch", "y")]},
              "reads": {("S", "a"): [("S.Ch", "y"), ("S.Ch.GC", "z")]}}
NAME_READS = {"diamond": {("S", "b"): [("S", "r")], ("S", "d"): [("", "g")]}, "recur": {("S", "f"): [("S", "r")]},
              "fail": {("S", "c"): [("S", "r")]}, "cross": {("T", "b"): [("T", "z")], ("S", "c"): [("S", "r")]},
              "reads": {("S", "a"): [("S", "r")]}, "inherit": {("Base", "b"): [("Base", "r"), ("Sub", "r")]},
              "items": {("P", "u"): [("P", "k")]}}

FAMILIES = list(c08.FAMILIES) + [URead(*k) for k in READ_KINDS]


def fam_alphabet(fam):
    ex = EXCLUDE.get(fam.name, set())
    return [a for a in fam.alphabet() if a[0] not in ex]


# ------------------------------------------------------------------------------------------------ one run

def all_cells(m):
    return cells_of(m)


def run_once(fam, spec, alpha, hist, apply_flips, observe):
    """Run one history.  Returns dict(values=[...], ops=[...], skipped, intrinsic=[(kind, what, tail)], ticks)."""
    st = new_state(fam, {}, spec)
    run = MxRun(spec)
    out = {"values": [], "ops": [], "skipped": False, "intrinsic": [], "build_error": run.build_error,
           "uncached_ran": False, "state": st, "edits": [], "edit_results": []}
    try:
        if run.build_error:
            return out
        steps = [("h", ai) for ai in hist] + [("o", ai) for ai in observe]
        for step, (phase, ai) in enumerate(steps):
            optag, kind, fn = alpha[ai]
            st["step"] = step if phase == "h" else 0
            op = fn(st)
            if op is None:
                if phase == "o":
                    out["values"].append(None)
                    continue
                out["skipped"] = True
                return out
            if op[0] == "flag" and not apply_flips:
                continue
            out["ops"].append(op)
            if kind == "query":
                v = run.query(op)
                if phase == "o" or True:
                    out["values"].append((step, optag, op, v))
            else:
                r = run.edit(op)
                apply_state(st, op)
                out["edits"].append(optag)
                if op[0] != "flag":
                    out["edit_results"].append((optag, op, r))
            # uncached cells hold no values
            for c in all_cells(run.m):
                try:
                    unc = not c.is_cached
                except Exception:
                    continue
                if unc and (len(c) != 0 or list(c)):
                    out["intrinsic"].append(("uncached-holds-value", "%s has is_cached False and holds %r after %s"
                                             % (c.fullname, list(c), line(op)),
                                             "c = %s\nif (not c.is_cached) and len(c):\n    sys.exit(1)" % c08.expr_of(c), list(out["ops"])))
                    return out
        # re-execution and assignment on uncached cells that the family queries directly
        for ai in observe:
            optag, kind, fn = alpha[ai]
            op = fn(st)
            if op is None:
                continue
            try:
                c = run.obj(op[1] + "." + op[2])
                unc = not c.is_cached
            except Exception:
                continue
            if not unc:
                continue
            n0 = len(run.ticks)
            v1 = run.query(op)
            n1 = len(run.ticks)
            v2 = run.query(op)
            n2 = len(run.ticks)
            if not isinstance(v1, Raised):
                out["uncached_ran"] = True
                if n1 == n0 or n2 == n1:
                    out["intrinsic"].append(("uncached-not-reexecuted", "calling uncached %s twice ran %d then %d formulas"
                                             % (line(op), n1 - n0, n2 - n1),
                                             "n0 = len(TICKS)\n%s\nn1 = len(TICKS)\n%s\nif n1 == n0 or len(TICKS) == n1:\n    sys.exit(1)" % (line(op), line(op)),
                                             list(out["ops"])))
                    return out
                key = c.node(*op[3], **op[4]).args
                iop = ("input", op[1], op[2], key, 12345)
                run.edit(iop)
                v3 = run.query(op)
                if len(c) != 0 or not values_equal(v3, v1):
                    out["intrinsic"].append(("uncached-accepts-assignment", "after %s uncached %s holds %r and returns %r (was %r)"
                                             % (line(iop), c.fullname, list(c), v3, v1),
                                             "try:\n    %s\nexcept Exception:\n    pass\nif len(m.%s.%s) or %s != %r:\n    sys.exit(1)"
                                             % (line(iop), op[1], op[2], line(op), v1), list(out["ops"])))
                    return out
        out["nticks"] = len(run.ticks)
        return out
    finally:
        run.close()


def run_item(item):
    fi, hist = item
    fam = FAMILIES[fi]
    alpha = fam_alphabet(fam)
    observe = [i for i, a in enumerate(alpha) if a[1] == "query"]
    n = len(fam.flagged)
    res = {"counts": [], "fails": [], "skipped": False, "sample": None}
    base_spec = fam.spec({f: True for f in fam.flagged})
    base = run_once(fam, base_spec, alpha, hist, False, observe)
    if base["skipped"]:
        res["skipped"] = True
        return res
    if base["build_error"]:
        res["fails"].append((("family:" + fam.name, "build-raises"), "building raised %r" % (base["build_error"],), None))
        return res
    extra = fam.extra_tags() if hasattr(fam, "extra_tags") else []
    has_flip = any(alpha[a][0].startswith("flip-") for a in hist)
    for bits in itertools.product((True, False), repeat=n):
        if all(bits) and not has_flip:
            continue                      # identical to the baseline
        flags = dict(zip(fam.flagged, bits))
        spec = fam.spec(flags)
        var = run_once(fam, spec, alpha, hist, True, observe)
        key = (fam.name, tuple(extra), bits, tuple(alpha[a][0] for a in hist))
        if var["skipped"]:
            continue
        st = var["state"]
        unc = sorted("uncached:%s.%s" % f for f in fam.flagged if not st["flags"].get(f, True))
        unc0 = sorted("initially-uncached:%s.%s" % f for f, b in flags.items() if not b)
        edits = ["edit:" + alpha[a][0] for a in hist if alpha[a][1] == "edit"]
        tags = ["family:" + fam.name] + extra + unc + edits
        # generic mechanism tags: an edited reference is read (by attribute path / by name) by a cells that was uncached
        edited = set((op[1], op[2]) for op in var["ops"] if op[0] in ("setref", "delref"))
        unc_ever = set(f for f, b in flags.items() if not b) | set(f for f in fam.flagged if not st["flags"].get(f, True))
        ar = getattr(fam, "attr_reads", None) or ATTR_READS.get(fam.name, {})
        nr = getattr(fam, "name_reads", None) or NAME_READS.get(fam.name, {})
        if any(t in edited for f in unc_ever for t in ar.get(f, [])):
            tags.append("edited-ref-read-by-attr-path-in-uncached")
        if any(t in edited for f in unc_ever for t in nr.get(f, [])):
            tags.append("edited-ref-read-by-name-in-uncached")
        nontrivial = var["uncached_ran"] or any(v is not None and not isinstance(v[3], Raised) for v in var["values"])
        res["counts"].append((key, nontrivial))
        ops_v = var["ops"]
        if var["build_error"]:
            res["fails"].append((tuple(tags + unc0 + ["build-raises"]), "building raised %r" % (var["build_error"],), None))
            continue
        for kind, what, tail, ops in var["intrinsic"]:
            res["fails"].append((tuple(tags + [kind]), what, script(spec, ops, tail)))
        if var["intrinsic"]:
            continue
        # an edit is accepted under one assignment and refused under another
        bad_edit = False
        for (bt, bop, br), (vt, vop, vr) in zip(base["edit_results"], var["edit_results"]):
            if isinstance(br, Raised) != isinstance(vr, Raised):
                upto = var["ops"][:var["ops"].index(vop)]
                res["fails"].append((tuple(tags + ["edit-raises-differently", "at:" + vt]),
                                     "%s gives %r with %s, %r with every cells cached" % (line(vop), vr, ", ".join(unc0 + unc), br),
                                     script(spec, upto, "try:\n    %s\n    ok = True\nexcept Exception:\n    ok = False\nif ok != %r:\n    sys.exit(1)"
                                            % (line(vop), not isinstance(br, Raised)))))
                bad_edit = True
                break
        if bad_edit:
            continue
        # differential
        bv = [v for v in base["values"]]
        vv = [v for v in var["values"]]
        if len(bv) != len(vv):
            raise AssertionError("query alignment lost: %r vs %r" % (bv, vv))
        for b, v in zip(bv, vv):
            if b is None or v is None:
                if (b is None) != (v is None):
                    raise AssertionError("query alignment lost")
                continue
            if not values_equal(b[3], v[3]):
                if isinstance(v[3], Raised):
                    sym = "raises-vs-value"
                elif isinstance(b[3], Raised):
                    sym = "value-vs-raises"
                else:
                    sym = "value-differs"
                # replay: variant run up to this query, compared with the baseline value
                upto = []
                for o in ops_v:
                    upto.append(o)
                    if o is v[2]:
                        break
                i = len(upto) - 1
                exp = b[3]
                if isinstance(exp, Raised):
                    tail = "if not (isinstance(v%d, tuple) and v%d[:1] == ('raised',)):\n    sys.exit(1)" % (i, i)
                else:
                    tail = "if v%d != %r:\n    sys.exit(1)" % (i, exp)
                what = ("%s returns %r with %s (after %s); with every cells cached the same history gives %r"
                        % (line(v[2]), v[3], ", ".join(unc0 + unc) or "flags flipped back", "; ".join(line(o) for o in upto[:-1]) or "nothing", b[3]))
                if isinstance(v[3], Raised) and v[3].msg:
                    what += " | " + " / ".join(v[3].msg.strip().splitlines()[:3])[:300]
                res["fails"].append((tuple(tags + [sym, "at:" + v[1]]), what, script(spec, upto, tail)))
                break
        if res["sample"] is None and nontrivial:
            res["sample"] = {"family": fam.name, "tags": tags, "history": [line(o) for o in ops_v][:12]}
    return res


# ------------------------------------------------------------------------------------------------ unhashable arguments

def unhash_spec(kind, expr, caller_cached, mid_cached):
    """u(xs) uncached reads one reference the given way (or none); callers pass lists / dicts."""
    sp = Spec()
    sp.ref("", "g", 7)
    sp.space("S"); sp.space("S.Ch"); sp.space("S.Ch.GC"); sp.space("T"); sp.space("Sub", bases=["S"])
    sp.space("SubL", bases=["S"], late_bases=True)
    sp.space("P", params=("i",))
    sp.ref("S", "r", 5); sp.ref("S.Ch", "y", 2); sp.ref("S.Ch.GC", "z", 3); sp.ref("T", "z2", 4)
    sp.ref("P", "k", 3)
    mult = " * " + expr if expr else ""
    sp.cell("S", "u", F("u", "xs", "sum(xs)%s" % mult, "S.u", "None"), False)
    sp.cell("S", "ud", F("ud", "d, n=1", "sum(d.values())%s + n" % mult, "S.ud", "None"), False)
    sp.cell("S", "mid", F("mid", "x", "u([x, 1]) + 1", "S.mid", "None"), mid_cached)       # False: uncached -> uncached
    sp.cell("S", "c", F("c", "x", "u([x, 2]) + ud({'a': x}) + u(xs=[x])", "S.c", "(x,)"), caller_cached)
    sp.cell("S", "c2", F("c2", "x", "mid(x) + _space.u[[x, x]]", "S.c2", "(x,)"), caller_cached)
    pexpr = {"": "", "byname-own": " * k"}.get(kind, " * k")
    sp.cell("P", "pu", F("pu", "xs", "sum(xs) * i%s" % pexpr, "P.pu", "None"), False)
    sp.cell("P", "pc", F("pc", "x", "pu([x, i])", "P.pc", "(i, x)"), caller_cached)
    return sp


UNHASH_KINDS = [("no-ref", "")] + [(k, e) for k, e, _ in READ_KINDS if k not in ("refspace-attr",)]
UNHASH_QUERIES = [
    ("top-level-list", Q("S", "u", ([1, 2],))),
    ("top-level-kw", Q("S", "u", (), {"xs": [3, 4]})),
    ("top-level-sub", Q("S", "u", ([5],), form="sub")),
    ("top-level-dict", Q("S", "ud", ({"a": 1, "b": 2},))),
    ("top-level-dict-default-kw", Q("S", "ud", ({"a": 1},), {"n": 2})),
    ("from-caller", Q("S", "c", (1,))),
    ("from-caller-via-uncached", Q("S", "c2", (2,))),
    ("mid-direct", Q("S", "mid", (7,))),
    ("derived-cells", Q("Sub", "u", ([1, 2],))),
    ("derived-caller", Q("Sub", "c", (3,))),
    ("derived-cells-bases-added-late", Q("SubL", "u", ([1, 2],))),
    ("derived-caller-bases-added-late", Q("SubL", "c", (3,))),
    ("itemspace-cells", Q("P[2]", "pu", ([1, 2],))),
    ("itemspace-caller", Q("P[2]", "pc", (3,))),
    ("repeat", Q("S", "u", ([1, 2],))),
]


def run_unhash(item):
    _, ki, caller_cached, mid_cached, order = item
    kind, expr = UNHASH_KINDS[ki]
    spec = unhash_spec(kind, expr, caller_cached, mid_cached)
    qs = list(UNHASH_QUERIES)
    if order == 1:
        qs = list(reversed(qs))
    elif order == 2:
        qs = qs[5:] + qs[:5]
    res = {"counts": [], "fails": [], "skipped": False, "sample": None}
    tags0 = ["family:unhash", "read:" + kind] + ([] if caller_cached else ["uncached-caller"]) + ([] if mid_cached else ["uncached-chain"])
    if "attr" in kind:
        tags0.append("attr-path-ref")
    elif kind != "no-ref":
        tags0.append("by-name-ref")
    run = MxRun(spec)
    try:
        if run.build_error:
            res["fails"].append((tuple(tags0 + ["build-raises"]), "building raised %r" % (run.build_error,), None))
            return res
        done = []
        for qt, op in qs:
            exp = PureModel(spec, copy=False).query(op)
            v = run.query(op)
            done.append(op)
            res["counts"].append((("unhash", kind, caller_cached, mid_cached, order, qt), not isinstance(exp, Raised)))
            if not values_equal(v, exp):
                sym = "raises" if isinstance(v, Raised) else "value-differs"
                what = "%s returns %r, uncached evaluation gives %r" % (line(op), v, exp)
                if isinstance(v, Raised) and v.msg:
                    what += " | " + " / ".join(v.msg.strip().splitlines()[:3])[:300]
                i = len(done) - 1
                res["fails"].append((tuple(tags0 + ["unhashable-arg", sym, "at:" + qt]), what,
                                     script(spec, done, "if v%d != %r:\n    sys.exit(1)" % (i, exp))))
            for c in all_cells(run.m):
                if not c.is_cached and len(c):
                    res["fails"].append((tuple(tags0 + ["uncached-holds-value"]), "%s holds %r" % (c.fullname, list(c)),
                                         script(spec, done, "if len(%s):\n    sys.exit(1)" % c08.expr_of(c))))
        res["sample"] = {"family": "unhash", "tags": tags0, "history": [line(o) for _, o in qs][:6]}
        return res
    finally:
        run.close()


def run_any(item):
    if item[0] == "unhash":
        return run_unhash(item)
    return run_item(item)


# ------------------------------------------------------------------------------------------------ enumeration

def enumerate_items(tier, rng):
    items = []
    for ki in range(len(UNHASH_KINDS)):
        for cc in (True, False):
            for mc in (True, False):
                for o in range(3 if tier != "quick" else 2):
                    items.append(("unhash", ki, cc, mc, o))
    for fi, fam in enumerate(FAMILIES):
        alpha = fam_alphabet(fam)
        qs = [i for i, a in enumerate(alpha) if a[1] == "query"]
        es = [i for i, a in enumerate(alpha) if a[1] == "edit"]
        key_edits = [i for i in es if alpha[i][0].startswith(("flip-", "set-ref-read", "del-ref-read", "new-ref-shadowing"))]
        if tier == "quick":
            for pre in [(), tuple(qs)]:
                for e1 in es:
                    items.append((fi, pre + (e1,)))
            key2 = [i for i in es if alpha[i][0].startswith(("flip-", "set-ref", "del-", "formula-", "new-ref", "rename", "remove-base",
                                                            "change-space", "clear-item", "override"))]
            full = fam.name != "uread" or fam.kind in ("byname-own", "child-attr", "model-attr", "refspace-attr")
            for e1 in es:
                for e2 in (key2 if fam.name != "uread" else key_edits):
                    if e1 == e2 or (not full and e1 not in key_edits):
                        continue
                    items.append((fi, tuple(qs) + (e1, e2)))
        else:
            for pre in [(), tuple(qs)] + [(qi,) for qi in qs]:
                for e1 in es:
                    items.append((fi, pre + (e1,)))
                    for e2 in es:
                        items.append((fi, pre + (e1, e2)))
                        if pre == tuple(qs):
                            for qi in qs[:2]:
                                items.append((fi, pre + (e1, qi, e2)))
    random.Random(20261002).shuffle(items)        # fixed order, so that a run cut by the budget still spans every family
    n_exh = len(items)
    nrand = 100 if tier == "quick" else 8000
    for i in range(nrand):
        fi = rng.randrange(len(FAMILIES))
        alpha = fam_alphabet(FAMILIES[fi])
        n = len(alpha)
        L = rng.choice((3, 4, 5))
        items.append((fi, tuple(rng.randrange(n) for _ in range(L))))
    return items, n_exh


def run(res, tier, seed):
    res.bound = ("%d families (8 shared with C08: %s; 10 `uread` families = one per way an uncached reader reads a reference), "
                 "n <= 4 flagged cells each: all 2^n initial assignments (exhaustive) x histories = [no warm-up | each query "
                 "(quick: the first only) | all queries] + <= 2 edits (quick: pairs after the full warm-up only) from the family's alphabet (clears, reference changes / deletions / "
                 "shadowing, formula changes, deletions, flag flips, inputs of unflagged cells) + observation of every query; "
                 "thorough adds edit-query-edit histories and more sampled histories of 3-5 steps; family `unhash`: %d read kinds x "
                 "cached/uncached caller x cached/uncached intermediate x %d query orders x 15 calls with list/dict arguments"
                 ) % (len(FAMILIES), ", ".join(f.name for f in c08.FAMILIES), len(UNHASH_KINDS), 2 if tier == "quick" else 3)
    res.rule = ("exhaustive product family x history x flag assignment, then seeded random histories; evaluation = one (history, "
                "assignment) pair compared query by query with the all-cached run of the same history; non-trivial when the "
                "assignment has an uncached cells (or a flip) and at least one query returned a value; distinct = distinct (family, "
                "read kind, assignment, history); unhash: evaluation = one call, non-trivial when the uncached evaluator returns a value")
    items, n_exh = enumerate_items(tier, res.rng)
    res.exhaustive = True
    n = skipped = 0
    for item, out in pmap(run_any, items, res, chunk=4):
        n += 1
        if out["skipped"]:
            skipped += 1
            continue
        for key, nontrivial in out["counts"]:
            res.count(key, nontrivial)
        for tags, what, scr in out["fails"]:
            res.fail(tags, what, script=scr, case=item)
        if out["sample"] and n % 401 == 1:
            res.sample(out["sample"])
    res.exhaustive = n >= n_exh
    res.notes.append("%d histories enumerated (+%d sampled), %d dropped as not applicable" % (min(n, n_exh), max(0, n - n_exh), skipped))


if __name__ == "__main__":
    main("C09", run)
