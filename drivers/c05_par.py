"""Deterministic fan-out of independent cases over worker processes (used by the thorough tiers of c05/c16/c17).

`run_parallel(res, fn, items)` calls `fn(worker_result, item)` for every item, in chunks handed to a fork pool,
and merges the workers' measured counts / failures / monitors into `res` in item order (so the merged result does
not depend on scheduling).  Workers stop when the parent's time budget is used up; the return value says whether
every item was evaluated.
"""
import multiprocessing as mp
import os, time


def _worker(args):
    fn, chunk, prop, tier, seed, t0, budget = args
    from common import Result, reset
    res = Result(prop, tier, seed, budget)
    res.t0 = t0                      # the parent's clock: every worker stops at the same deadline
    done = 0
    for item in chunk:
        if res.expired():
            break
        fn(res, item)
        done += 1
    try:
        reset()
    except Exception:
        pass
    return {"evaluations": res.evaluations, "distinct": res._distinct, "failures": res.failures,
            "failure_counts": res.failure_counts, "notes": res.notes[:5], "samples": res.samples,
            "monitors": res.monitors, "done": done, "n": len(chunk)}


def merge(res, out, cap=3):
    res.evaluations += out["evaluations"]
    res._distinct |= out["distinct"]
    for f in out["failures"]:
        k = tuple(f["tags"])
        kept = sum(1 for g in res.failures if tuple(g["tags"]) == k)
        if kept < cap:
            res.failures.append(f)
    for k, v in out["failure_counts"].items():
        res.failure_counts[k] = res.failure_counts.get(k, 0) + v
    for n in out["notes"]:
        if len(res.notes) < 20 and n not in res.notes:
            res.notes.append(n)
    for s in out["samples"]:
        res.sample(s, cap=3)
    for name, m in out["monitors"].items():
        t = res.monitors.setdefault(name, {"evaluations": 0, "failed": 0})
        t["evaluations"] += m["evaluations"]
        t["failed"] += m["failed"]


def run_parallel(res, fn, items, nproc=None, chunk=24, reserve=0.0):
    items = list(items)
    if not items:
        return True
    nproc = nproc or max(1, min(12, (os.cpu_count() or 2) - 2))
    chunks = [items[i:i + chunk] for i in range(0, len(items), chunk)]
    left = res.budget_s * (1 - reserve) - (time.time() - res.t0)
    if left <= 0:
        return False
    complete = True
    ctx = mp.get_context("fork")
    with ctx.Pool(nproc) as pool:
        jobs = ((fn, c, res.prop, res.tier, res.seed, res.t0, res.budget_s * (1 - reserve)) for c in chunks)
        for out in pool.imap(_worker, jobs):
            merge(res, out)
            if out["done"] < out["n"]:
                complete = False
    return complete
