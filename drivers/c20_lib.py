"""C20 helpers: grammar of function texts, reference semantics (plain Python), evaluation of the contract.

A *text case* is a dict of axis values; `render(case)` gives the source text.  The oracle never looks at
modelx internals: expected AST = Python's own `ast.parse` of the dedented text with decorators dropped
and the name replaced; expected behaviour = the function Python itself compiles from the text, run with
globals {g, other, deco, deco2}.
"""
import ast, inspect, textwrap, os, sys, importlib.util, itertools, tempfile, shutil, linecache
import modelx as mx

G_VALUE = 10
BASE = None      # scratch directory created (and removed) by the driver's main process


def other_ref(a):
    return a * 3


def deco(f):
    return f


def deco2(n):
    return deco


def ident(f, *rest, **kw):
    return f


def twice(f):
    """a decorator that changes behaviour (used on NESTED definitions, which capture must keep)"""
    def wrapper(*a, **k):
        return f(*a, **k) * 2
    return wrapper


REF_GLOBALS = {"g": G_VALUE, "other": other_ref, "deco": deco, "deco2": deco2, "ident": ident, "mx": mx, "twice": twice}

# ------------------------------------------------------------------------------------ axes (first value = neutral)
PARAMS = {
    "x": ("x", 1, [(3,), (0,)]),
    "x,y=2": ("x, y=2", 2, [(3,), (3, 5), (0,)]),
    "annotated": ("x: int, y: 'str' = 2", 2, [(3,), (3, 5)]),
    "multiline-default": ("x, y=(1,\n        2)", 2, [(3,), (3, (4, 5))]),
    "x=1": ("x=1", 1, [(3,), ()]),
    "spaced": ("x ,y = 2", 2, [(3,), (3, 5)]),
}
DOCSTRINGS = {
    "none": None,
    "single": "'single quoted doc'",
    "double": '"double quoted doc"',
    "triple": '"""triple quoted doc"""',
    "triple-multiline": '"""first line\n{i}second line\n{i}"""',
    "triple-squote-ends-dquote": "'''ends with a quote\"'''",
    "escaped-quote-end": '"ends with escaped quote\\""',
    "raw": 'r"raw \\d doc"',
    "escapes-and-quotes": '"""has \'single\', \\"double\\" and \\n escape"""',
    "concatenated": '"implicit " "concatenation"',
}
COMMENTS = {
    "none": (),
    "leading": ("leading",),
    "after-colon": ("after-colon",),
    "first-body": ("first-body",),
    "trailing": ("trailing",),
    "last-line": ("last-line",),
    "all": ("leading", "after-colon", "first-body", "trailing", "last-line"),
    "between-deco-and-def": ("between",),
}
# bodies: list of lines (relative indentation), last statement returns; `x` is the first parameter
BODIES = {
    "simple": ["return x + g"],
    "multi": ["y = x * 2", "z = y + g", "return z"],
    "nested-def": ["def inner(a):", "    return a + g", "return inner(x)"],
    "nested-lambda": ["h = lambda a: a + g", "return h(x)"],
    # decorators of NESTED definitions belong to the body: only the decorators of the captured function itself are dropped
    "nested-def-decorated": ["@twice", "def inner(a):", "    return a + g", "return inner(x)"],
    "nested-class-staticmethod": ["class K:", "    @staticmethod", "    def m(a):", "        return a * 2", "", "    @classmethod", "    def n(cls, a):", "        return a + 1", "return K.m(x) + K.n(x) + g"],
    "nested-class": ["class K:", "    v = 2", "", "    def m(self, a):", "        return a * self.v", "return K().m(x) + g"],
    "comprehension": ["return sum(i for i in range(x)) + len([j for j in (1, 2) if j > x]) + len({k: k for k in 'ab'}) + g"],
    "multiline-expr": ["return (x +", "        g +", "        1)"],
    "backslash": ["return x + \\", "    g"],
    "if-else": ["if x > 1:", "    return x + g", "else:", "    return other(x)"],
    "try": ["try:", "    return 10 // x + g", "except ZeroDivisionError:", "    return -1"],
    "keyword-strings": ["s = \"def f(): # not a comment\"", "t = 'lambda: \\\"\\\"\\\" @deco'", "return len(s) + len(t) + x + g"],
    "blank-lines": ["y = x", "", "", "return y + g"],
    "oneline": None,                 # def f(x): return x + g
    "oneline-semicolon": None,       # def f(x): y = x; return y + g
    "oneline-doc": None,             # def f(x): 'doc'; return x + g
    "multiline-string": ["s = '''line1", "line2 # no comment", "'''", "return len(s) + x + g"],
}
DECORATORS = {
    "none": [],
    "one": ["@deco"],
    "two": ["@deco", "@deco2(1)"],
    "multiline-args": ["@deco2(", "    1)"],
    "with-comment": ["@deco  # decorated"],
}
INDENTS = {"0": "", "4": "    ", "8": "        ", "2": "  ", "tab": "\t"}
NAMES = {"same": None, "longer": "renamed_cells_name", "shorter": "q"}
RETANN = {"none": "", "int": " -> int"}

LAMBDAS = {
    "simple": ("lambda x: x + g", 1, [(3,), (0,)]),
    "default": ("lambda x, y=2: x * y + g", 2, [(3,), (3, 5)]),
    "noargs": ("lambda: g + 1", 0, [()]),
    "multiline": ("lambda x: (x +\n    g)", 1, [(3,)]),
    "comprehension": ("lambda x: [i + g for i in range(x)]", 1, [(3,)]),
    "dict-colon": ("lambda x: {'a': x, 'b': g}['a']", 1, [(3,)]),
    "conditional-strings": ("lambda x: 'a:b' if x else \"#,)\"", 1, [(3,), (0,)]),
    "nested-lambda": ("lambda x: (lambda y: y + x)(g)", 1, [(3,)]),
    "call-other": ("lambda x: other(x) + g", 1, [(3,)]),
    "spaced": ("lambda  x ,  y = 2 :x+y", 2, [(3,), (3, 5)]),
    "tuple-body": ("lambda x: (x, g)", 1, [(3,)]),
    "slice": ("lambda x: [g, x, 1][0:2]", 1, [(3,)]),
    # a lambda whose body holds ANOTHER lambda (starting on the same line) inside a generator expression /
    # comprehension / conditional expression, with and without a condition clause; the inner one differs from the
    # outer one in parameters and values, so a capture of the wrong lambda shows in every clause of the contract
    "inner-in-genexp": ("lambda x: sum((lambda k: k * k)(i) for i in range(x)) + g", 1, [(3,), (0,)]),
    "inner-in-genexp-cond": ("lambda x: sum((lambda k: k * k)(i) for i in range(x) if i != g)", 1, [(3,), (0,)]),
    "inner-in-genexp-cond-lambda": ("lambda x: sum(i + g for i in range(x) if (lambda k: k % 2)(i))", 1, [(4,), (0,)]),
    "inner-noargs-in-genexp": ("lambda x, y=1: sum((lambda: y)() for i in range(x))", 2, [(3,), (3, 5)]),
    "inner-in-nested-genexp": ("lambda x: sum(sum((lambda k: k + j)(i) for i in range(j)) for j in range(x))", 1, [(4,)]),
    "inner-in-genexp-iterable": ("lambda x: sum(i + g for i in (lambda n: range(n))(x))", 1, [(3,)]),
    "inner-default-arg": ("lambda x, f=lambda k: k + 1: f(x) + g", 2, [(3,), (0,)]),
    "inner-genexp-and-direct": ("lambda x, y=2: sum((lambda k: k + y)(i) for i in range(x)) + (lambda z: z * g)(x)", 2, [(3,), (3, 5)]),
    "inner-holds-genexp": ("lambda x: (lambda n: sum(i * g for i in range(n)))(x)", 1, [(3,)]),
    "inner-in-listcomp": ("lambda x: [(lambda k: k + g)(i) for i in range(x)]", 1, [(3,)]),
    "inner-in-listcomp-cond": ("lambda x: [(lambda k: k + g)(i) for i in range(x) if i % 2]", 1, [(4,)]),
    "inner-in-dictcomp": ("lambda x: {i: (lambda k: k + g)(i) for i in range(x) if i}", 1, [(3,)]),
    "inner-in-setcomp": ("lambda x: sorted({(lambda k: k % 2)(i) for i in range(x)})", 1, [(3,)]),
    "inner-in-conditional": ("lambda x: (lambda k: k + g)(x) if x else (lambda: g)()", 1, [(3,), (0,)]),
    "inner-in-conditional-test": ("lambda x, y=2: x if (lambda k: k > g)(x) else y", 2, [(3,), (30, 5)]),
}
HOSTS = {
    "bare": "{L}",
    "assignment": "V = {L}",
    "call-arg": "V = ident({L})",
    "call-arg-then-more": "V = ident({L}, 2, k=3)",
    "call-kwarg": "V = ident(f={L})",
    "parenthesised": "V = ({L})",
    "tuple-first": "V = ({L}, 1)[0]",
    "dict-value": "V = {{'k': {L}}}['k']",
    "trailing-comment": "V = {L}  # comment",
    "multiline-call": "V = ident(\n    {L},\n    2)",
    "annotated-assignment": "V: object = {L}",
}
NEWDOCS = {
    "plain": "new doc",
    "multiline": "new first\nsecond line\n  third indented",
    "quotes-inside": "it's \"quoted\" here",
    "ends-dquote": 'ends with quote"',
    "triple-dquote": 'has """ inside',
    "backslash-escape": "esc\\n seq",
    "ends-backslash": "ends with backslash\\",
    "non-ascii": "naïve 漢字",
    "empty": "",
}


def neutral(kind):
    if kind == "def":
        return {"kind": "def", "form": "source", "params": "x", "doc": "none", "comments": "none", "body": "simple", "deco": "none",
                "indent": "0", "name": "same", "retann": "none"}
    return {"kind": "lambda", "form": "source", "lam": "simple", "host": "bare", "indent": "0", "name": "same"}


AXES = {"def": ["form", "params", "doc", "comments", "body", "deco", "indent", "name", "retann"],
        "lambda": ["form", "lam", "host", "indent", "name"]}


def feature_tags(case):
    n = neutral(case["kind"])
    return tuple([case["kind"]] + ["%s:%s" % (a, case[a]) for a in AXES[case["kind"]] if case[a] != n[a]])


# ------------------------------------------------------------------------------------ rendering
def render(case, defname="f"):
    """Source text of the case (unindented), then indented by the indent axis."""
    if case["kind"] == "lambda":
        lam = LAMBDAS[case["lam"]][0]
        text = HOSTS[case["host"]].format(L=lam)
    else:
        cm = COMMENTS[case["comments"]]
        lines = []
        if "leading" in cm:
            lines.append("# leading comment")
        lines += DECORATORS[case["deco"]]
        if "between" in cm and DECORATORS[case["deco"]]:
            lines.append("# between decorator and def")
        head = "def %s(%s)%s:" % (defname, PARAMS[case["params"]][0], RETANN[case["retann"]])
        body = case["body"]
        if body == "oneline":
            lines.append(head + " return x + g" + ("  # trailing" if "trailing" in cm else ""))
        elif body == "oneline-semicolon":
            lines.append(head + " y = x; return y + g" + ("  # trailing" if "trailing" in cm else ""))
        elif body == "oneline-doc":
            lines.append(head + " 'one line doc'; return x + g" + ("  # trailing" if "trailing" in cm else ""))
        else:
            lines.append(head + ("  # after colon" if "after-colon" in cm else ""))
            d = DOCSTRINGS[case["doc"]]
            if d is not None:
                lines += ("    " + d.replace("{i}", "    ")).split("\n")
            if "first-body" in cm:
                lines.append("    # first body comment")
            bl = BODIES[body]
            for i, l in enumerate(bl):
                if body == "multiline-string" and i in (1, 2):
                    lines.append(l)                      # string continuation lines are not indented
                elif l == "":
                    lines.append("")
                else:
                    t = "    " + l
                    if "trailing" in cm and i == len(bl) - 1 and not l.endswith("\\"):
                        t += "  # trailing"
                    lines.append(t)
            if "last-line" in cm:
                lines.append("    # last line comment")
        text = "\n".join(lines)
    ind = INDENTS[case["indent"]]
    if ind:
        text = "\n".join((ind + l) if l.strip() else l for l in text.split("\n"))
    return text


def valid_combo(case):
    if case["kind"] == "lambda":
        return not (case["form"] == "func" and case["host"] == "bare")      # a bare expression leaves no object to pass
    if case["body"] in ("oneline", "oneline-semicolon", "oneline-doc"):
        if case["doc"] != "none":
            return False
        if any(c in COMMENTS[case["comments"]] for c in ("after-colon", "first-body", "last-line")):
            return False
    if case["body"] == "multiline-string" and case["indent"] != "0":
        return False            # dedenting would change the string literal; probed separately (special cases)
    if case["comments"] == "between-deco-and-def" and case["deco"] == "none":
        return False
    return True


# ------------------------------------------------------------------------------------ reference semantics
def _find_lambda(tree):
    for node in ast.walk(tree):
        if isinstance(node, ast.Lambda):
            return node
    return None


def _strip_doc(fd):
    """(docstring or None) of a FunctionDef and the node with the docstring normalised by inspect.cleandoc."""
    if fd.body and isinstance(fd.body[0], ast.Expr) and isinstance(fd.body[0].value, ast.Constant) and isinstance(fd.body[0].value.value, str):
        raw = fd.body[0].value.value
        fd.body[0].value.value = inspect.cleandoc(raw)
        return raw
    return None


def expected_def(text, cname, module_source=None, func=None):
    """(ast dump, docstring, parameter names, reference function) of the def in `text` renamed to cname.

    Source-text form: the definition is the dedented text, the reference function is what Python compiles from it.
    Function-object form (module_source, func given): the definition is the def node inside the module that was
    really executed, the reference function is that very function object."""
    if module_source is None:
        src = textwrap.dedent(text)
        tree = ast.parse(src)
        fd = next(n for n in tree.body if isinstance(n, ast.FunctionDef))
        ns = dict(REF_GLOBALS)
        exec(compile(src, "<reference>", "exec"), ns)
        func = ns[fd.name]
    else:
        tree = ast.parse(module_source)
        fd = next(n for n in ast.walk(tree) if isinstance(n, ast.FunctionDef) and n.name == func.__name__)
    fd.decorator_list = []
    fd.name = cname
    doc = _strip_doc(fd)
    dump = ast.dump(ast.Module(body=[fd], type_ignores=[]))
    params = tuple(a.arg for a in fd.args.posonlyargs + fd.args.args)
    return dump, doc, params, func


def dump_def_source(source):
    """Dump of a formula source that must be exactly one def; raises ValueError otherwise."""
    tree = ast.parse(source)
    if len(tree.body) != 1 or not isinstance(tree.body[0], ast.FunctionDef):
        raise ValueError("source is not a single function definition: %r" % [type(n).__name__ for n in tree.body])
    fd = tree.body[0]
    if fd.decorator_list:
        raise ValueError("decorators left in the source")
    _strip_doc(fd)
    return ast.dump(ast.Module(body=[fd], type_ignores=[])), fd.name


def with_doc(dump_source_text, cname, doc, module_source=None, func=None):
    """Expected dump after set_doc(doc): same def, docstring replaced/inserted, exactly `doc`."""
    if module_source is None:
        tree = ast.parse(textwrap.dedent(dump_source_text))
        fd = next(n for n in tree.body if isinstance(n, ast.FunctionDef))
    else:
        tree = ast.parse(module_source)
        fd = next(n for n in ast.walk(tree) if isinstance(n, ast.FunctionDef) and n.name == func.__name__)
    fd.decorator_list = []
    fd.name = cname
    new = ast.Expr(value=ast.Constant(value=doc))
    if fd.body and isinstance(fd.body[0], ast.Expr) and isinstance(fd.body[0].value, ast.Constant) and isinstance(fd.body[0].value.value, str):
        fd.body[0] = new
    else:
        fd.body.insert(0, new)
    return ast.dump(ast.Module(body=[fd], type_ignores=[]))


def dump_def_source_exact(source):
    tree = ast.parse(source)
    if len(tree.body) != 1 or not isinstance(tree.body[0], ast.FunctionDef):
        raise ValueError("source is not a single function definition")
    return ast.dump(ast.Module(body=[tree.body[0]], type_ignores=[])), tree.body[0].name


def expected_lambda(lam_text):
    node = ast.parse(lam_text, mode="eval").body
    ns = dict(REF_GLOBALS)
    func = eval(compile(lam_text, "<reference>", "eval"), ns)
    params = tuple(a.arg for a in node.args.args)
    return ast.dump(node), params, func


def outcome(f, args):
    try:
        v = f(*args)
        return ("ok", type(v).__name__, repr(v))
    except Exception as e:
        return ("err", type(e).__name__)


def cells_outcome(c, args):
    try:
        v = c(*args)
        return ("ok", type(v).__name__, repr(v))
    except Exception as e:
        orig = getattr(e, "__cause__", None) or e
        # modelx wraps formula errors; the original type is what the plain function would raise
        return ("err", type(orig).__name__)


# ------------------------------------------------------------------------------------ function objects from real files
class FuncFactory:
    """Writes texts into module files under a scratch directory and imports them (inspect needs real files)."""

    def __init__(self):
        if BASE:
            self.dir = os.path.join(BASE, "p%d" % os.getpid())
            os.makedirs(self.dir, exist_ok=True)
        else:
            self.dir = tempfile.mkdtemp(prefix="c20_")
        self.n = 0

    def close(self):
        shutil.rmtree(self.dir, ignore_errors=True)
        linecache.clearcache()

    def load(self, text, wrap_indent):
        """Execute `text` (already indented by wrap_indent) as part of a module; returns the module namespace."""
        self.n += 1
        name = "c20mod_%d_%d" % (os.getpid(), self.n)
        path = os.path.join(self.dir, name + ".py")
        pre = "from c20_lib import deco, deco2, ident, twice, G_VALUE as g, other_ref as other\nimport modelx as mx\n"
        # an indented text is put inside one `if True:` block (any consistent indentation is a valid block)
        src = pre + ("if True:\n" if wrap_indent else "") + text + "\n"
        self.last_source = src
        with open(path, "w", encoding="utf-8", newline="") as f:
            f.write(src)
        spec = importlib.util.spec_from_file_location(name, path)
        mod = importlib.util.module_from_spec(spec)
        sys.modules[name] = mod
        try:
            spec.loader.exec_module(mod)
        finally:
            sys.modules.pop(name, None)
        return mod
