"""C17 - the error traceback is exactly the chain that was executing (bounded stand-in driver).

Models come from c05_gen: dependency DAGs on <= 4 elements (<= 5 sampled) whose elements are scalar /
parametrised / uncached / lambda / derived cells, cells of other spaces, of a child space, of an ItemSpace, and
ItemSpace nodes; calls are plain, inside list comprehensions, generator expressions and lambdas; some calls are
wrapped in try/except (a failure the formula handles itself).  One element raises the *escaping* failure
(ZeroDivisionError, a custom BaseException, None return, recursion limit), optionally another one raises a failure
that all / some of its callers handle.

Part F repeats the DAG enumeration with the calls wrapped in constructs that evaluate ANOTHER element while the
callee's exception is still propagating and then let the same exception go on (c05_gen.Inflight: try/finally,
`except H: ...; raise`, `except H as e: ...; raise e`, a context manager's __exit__); the side element is an earlier
node of any kind (possibly held already, uncached, failing itself) or a helper cells holding no value yet.  The
executing chain is unchanged by a side element that completes; a side element that fails replaces the exception.
Two more constructs (Inflight.SWALLOW_FORMS) handle a failure of the side element inside the handler (`except H: try:
SIDE / except Exception: pass // raise`, `finally: try: SIDE / except Exception: pass`): the ORIGINAL exception goes
on, its chain reaches down to the element that raised it and the swallowed failure of the side element (mostly an
always-failing helper cells, else an earlier node) is not part of it.

For every model, every top-level call that fails is made after histories of <= 2 earlier top-level calls of the
types S (success), H (success that handled a failure inside), U (unhandled failure); after every failing call
get_traceback() / get_error() are compared with the independent evaluator's chain: nodes, order, last element,
line numbers against the generated formula text.
"""
import random, traceback as _tb
from common import *
from c05_gen import *
from c05_par import run_parallel

SMALL = 20
DEFAULT_LIMIT = mx.get_recursion()

# labels unwound by exceptions that a formula handled since the executor last built an error stack
# (kept across cases on purpose: it is the executor's state that matters)
PENDING = []

COVER = {"inflight": 0,     # failing calls during which a sibling was really evaluated and completed in flight
         "swallowed": 0}    # ... during which a sibling failed in flight, the wrapper swallowing that failure

PATTERNS = [(), ("H",), ("U",), ("S",), ("H", "H"), ("H", "U"), ("U", "H"), ("U", "U"), ("H", "S"), ("S", "H"),
            ("S", "U")]


def node_id(n, names=None):
    """(name of the element's object, args); ItemSpace cells are named after their item (M.Itm[1].c0)."""
    name = (names or {}).get(id(n.obj)) or n.obj.fullname
    return (name, tuple(n.args))


class Case17:
    def __init__(self, res, spec, errmode, small, feature_tags, ckey):
        self.res, self.spec, self.errmode = res, spec, errmode
        self.rec = Rec()
        build(spec, self.rec)
        # start from an executor that has just built an error stack (nothing pending from earlier models)
        global PENDING
        self.rec.do('Main.new_cells("drain", formula="lambda: 1 // 0")')
        self.rec.call("Main.drain()")
        PENDING = []
        self.base_tags = set(feature_tags)
        self.ckey = ckey
        self.hist = []
        if small:
            self.rec.do("mx.set_recursion(%d)" % SMALL)
            spec.limit_small = SMALL
        if errmode == "original":
            self.rec.do("mx.use_formula_error(False)")
        elif errmode == "handled":
            self.rec.do("mx.handle_formula_error(True)")

    def classify(self, q):
        s = Sim(self.spec, {}, (), False, self.spec.limit_small)
        r = s.top(q)
        if r[0] == "ok":
            return "H" if s.handled_unwinds else "S"
        return "U"

    def clear(self):
        self.rec.do("m.clear_all()")
        self.hist = []

    def fail(self, check, what, snippet, tags):
        self.res.fail(tags=tuple(self.base_tags | set(tags) | {check}), what=what,
                      script=self.rec.script(snippet), case=(self.ckey, tuple(self.hist)), cap=1)

    def call(self, q):
        """One top-level call; if it fails, the traceback contract is checked."""
        global PENDING
        res, sp, rec = self.res, self.spec, self.rec
        held0, deep0, itm = observe(sp, rec)
        sim = Sim(sp, held0, deep0, itm, sp.limit_small)
        sim.note_held = observe_notes(sp, rec)
        exp = sim.top(q)
        self.hist.append(q)
        pending_before = list(PENDING)
        incall = list(sim.handled_unwinds)
        key = (self.ckey, self.errmode, tuple(self.hist))
        if exp[0] == "ok":
            with res.case(key, nontrivial=False):
                r = rec.call(sp.top_expr(q))
                if r != ("ok", exp[1]) and not (self.errmode == "handled" and r[0] == "ok"):
                    # not this property's subject (C05 checks outcomes); note and go on
                    res.notes.append("call expected to succeed gave %r" % (r,))
            PENDING += incall
            return "ok"
        e = exp[1]
        with res.case(key, nontrivial=True):
            self._sim, self._raised0 = sim, len(rec.ns["RAISED"])
            r = rec.call(sp.top_expr(q))
            rk = sp.nodes[e.origin].kind
            tags = {"exc-" + e.kind, "raiser-" + {"U": "uncached", "V": "uncached", "L": "lambda", "I": "itemspace-cells",
                                                  "Z": "itemspace-node"}.get(rk, "cells")}
            if self.errmode != "formula-error":
                tags.add("err-" + self.errmode)
            hist_types = list(self.hist_types)
            if incall or pending_before:
                # a formula handled a failure since the executor last reported one
                tags.add("handled-unwind-pending")
            if incall:
                tags.add("handled-in-same-call")
            if "U" in hist_types:
                tags.add("after-unhandled-failure")
            for form, evaluated, completed in sim.inflight_evals:
                # another element was evaluated (not a cache hit) while an exception was propagating
                if evaluated:
                    tags.add({True: "sibling-evaluated-in-flight", False: "sibling-failed-in-flight",
                              "swallowed": "side-failure-swallowed"}[completed])
                    tags.add("inflight-" + form)
            if any(ev and done is True for _f, ev, done in sim.inflight_evals):
                COVER["inflight"] += 1
            if any(ev and done == "swallowed" for _f, ev, done in sim.inflight_evals):
                COVER["swallowed"] += 1
            if self.errmode != "handled" and r[0] != "err":
                res.notes.append("call expected to fail returned %r" % (r,))
                PENDING += incall
                return "ok"
            try:
                mx.get_traceback(); mx.get_traceback(show_locals=True); mx.get_error()
            except Exception as x:
                self.fail("chk-traceback-raises", "get_traceback()/get_error() raised %s: %s after a failed call"
                          % (type(x).__name__, str(x)[:200]),
                          "try:\n    mx.get_traceback(); mx.get_traceback(show_locals=True); mx.get_error()\n"
                          "except Exception:\n    sys.exit(1)\nsys.exit(0)", tags)
            else:
                self.check_traceback(e, tags, pending_before, incall)
                self.check_error(e, tags)
        PENDING = []          # the executor built its error stack: everything pending was consumed
        return "err"

    # ---------------------------------------------------------------- the contract
    def check_traceback(self, e, tags, pending_before, incall):
        sp = self.spec
        names = {}
        itm = self.rec.ns["Itm"].itemspaces.get(1) if "Itm" in self.rec.ns else None
        if itm is not None:
            for j in range(sp.n):
                if sp.nodes[j].kind == "I":
                    names[id(itm.cells["c%d" % j])] = sp.label(j)[0]
        got = [(node_id(n, names), ln) for n, ln in mx.get_traceback()]
        got3 = [(node_id(n, names), ln) for n, ln, _ in mx.get_traceback(show_locals=True)]
        cut = getattr(e, "open_ended", None)
        exp = list(e.chain)
        if cut is not None:
            # recursion limit: the chain is cut somewhere in the helper chain, between limit and limit+2 elements
            lo, hi = sp.limit_small, sp.limit_small + 2
            n = len(got)
            tail_leak = 0
            # tolerate (and classify below) trailing extras: find the longest agreeing prefix
            k = 0
            while k < len(got) and k < len(exp) and got[k][0] == exp[k][0]:
                k += 1
            if not (lo <= k <= hi) or k < cut:
                self.fail("chk-traceback-nodes", "recursion-limit failure: traceback agrees with the executing chain "
                          "for %d elements only (limit %d): got %r" % (k, sp.limit_small, got[:cut + 3]),
                          self.snip_nodes(exp[:k], prefix=True), tags)
                return
            exp = exp[:k]
        exp_nodes = [lab for lab, _ in exp]
        got_nodes = [lab for lab, _ in got]
        snippet = self.snip_nodes(exp)
        if got_nodes != exp_nodes:
            if got_nodes[:len(exp_nodes)] == exp_nodes:
                extra = got[len(exp_nodes):]
                pend = {lab for labs, _open in (pending_before + incall) for lab in labs}
                any_open = any(o for _l, o in (pending_before + incall))
                if all(ln == 0 for _lab, ln in extra) and (all(lab in pend for lab, _ in extra) or any_open) and pend:
                    self.fail("chk-traceback-extra-tail",
                              "traceback continues after the raising element with %r: elements unwound earlier by an "
                              "exception a formula handled (expected chain %r)" % (extra, exp_nodes),
                              snippet, tags | {"tail-is-handled-unwinds"})
                    got = got[:len(exp_nodes)]          # go on with the lines of the chain itself
                    got_nodes = exp_nodes
                else:
                    self.fail("chk-traceback-nodes", "traceback has extra elements after the raising element: %r "
                              "(expected chain %r)" % (extra, exp_nodes), snippet, tags)
            elif exp_nodes[:len(got_nodes)] == got_nodes:
                self.fail("chk-traceback-nodes", "traceback stops early: got %r, executing chain was %r"
                          % (got_nodes, exp_nodes), snippet, tags | {"truncated"})
            elif sorted(got_nodes) == sorted(exp_nodes):
                self.fail("chk-traceback-order", "traceback order: got %r, executing chain (outermost first) %r"
                          % (got_nodes, exp_nodes), snippet, tags)
            else:
                self.fail("chk-traceback-nodes", "traceback %r differs from the executing chain %r"
                          % (got_nodes, exp_nodes), snippet, tags)
            if got_nodes != exp_nodes:
                return
        # lines: the formula's own line where the next call / the error occurred
        for i, ((lab, ln), (_, gl)) in enumerate(zip(exp, got)):
            if ln is None:
                continue        # None return: the error is raised after the formula returned (no line to name)
            if gl != ln:
                self.fail("chk-traceback-lines", "element %d %r is reported at line %r, its formula was at line %r\n%s"
                          % (i, lab, gl, ln, self.formula_of(lab)),
                          "sys.exit(1 if [l for _, l in mx.get_traceback()][%d] != %d else 0)" % (i, ln),
                          tags | ({"line-of-raiser"} if i == len(exp) - 1 else {"line-of-caller"}))
                break
        if got3[:len(got)] != got:
            self.fail("chk-traceback-locals", "get_traceback(show_locals=True) names %r, get_traceback() %r"
                      % (got3, got),
                      "sys.exit(1 if [(n, l) for n, l, _ in mx.get_traceback(True)] != mx.get_traceback() else 0)", tags)
        # frame-grammar assumption (monitored, see DESIGN C17 A)
        err = mx.get_error()
        if err is not None and err.__traceback__ is not None:
            names = [f.name for f in _tb.extract_tb(err.__traceback__)]
            self.res.monitor("frame-grammar: one on_eval_formula frame per executing element",
                             names.count("on_eval_formula") == len(exp))

    def snip_nodes(self, exp, prefix=False):
        want = [lab for lab, _ in exp]
        s = ("def _nm(o):\n"
             "    it = Itm.itemspaces.get(1) if 'Itm' in globals() else None\n"
             "    if it is not None and o.parent is it:\n"
             "        return 'M.Itm[1].' + o.name\n"
             "    return o.fullname\n"
             "got = [(_nm(n.obj), tuple(n.args)) for n, _ in mx.get_traceback()]\n")
        if prefix:
            return s + "sys.exit(1 if got[:%d] != %r else 0)" % (len(want), want)
        return s + "sys.exit(1 if got != %r else 0)" % (want,)

    def formula_of(self, lab):
        for j in range(self.spec.n):
            if self.spec.label(j) == lab:
                return self.spec.render(j)[0]
        return ""

    def check_error(self, e, tags):
        sp = self.spec
        err = mx.get_error()
        cls = EXC_CLASS[e.kind]
        if cls is None:
            if not isinstance(err, Exception):
                self.fail("chk-get-error", "get_error() is %r after a failing space formula" % (err,),
                          "sys.exit(1 if not isinstance(mx.get_error(), Exception) else 0)", tags)
        elif type(err).__name__ != cls:
            self.fail("chk-get-error", "get_error() is %r, the escaping exception was a %s" % (err, cls),
                      "sys.exit(1 if type(mx.get_error()).__name__ != %r else 0)" % cls, tags)
        elif e.kind == "boom":
            ond = sp.nodes[e.origin]
            via_helper = ond.lam or ond.fail.site in ("comp", "gen", "helper")
            raised = self.rec.ns["RAISED"]
            if via_helper and self._sim.boom_raised > 1:
                # several Boom instances were raised during this call (side elements evaluated in flight, handled
                # failures): the escaping one is the Sim's e.boom_index-th of them
                mine = raised[self._raised0:]
                if len(mine) == self._sim.boom_raised:
                    wrong = err is not mine[e.boom_index]
                else:
                    wrong = not any(err is x for x in mine)
            else:
                wrong = via_helper and err is not raised[-1]
            if err.args != (e.origin,) or wrong:
                self.fail("chk-get-error", "get_error() is %r, not the exception raised in %s" % (err, sp.label(e.origin)),
                          "sys.exit(1 if mx.get_error().args != (%d,) else 0)" % e.origin, tags)

    hist_types = ()

    def close(self):
        mx.set_recursion(DEFAULT_LIMIT)


# ====================================================================== case generation

MAIN_KINDS = G_MAIN_KINDS


def dags(n):
    pairs = [(i, j) for j in range(n) for i in range(j)]
    for mask in range(1 << len(pairs)):
        deps = [[] for _ in range(n)]
        for b, (i, j) in enumerate(pairs):
            if mask >> b & 1:
                deps[j].append(i)
        yield mask, deps


make_spec = make_handled_spec


def run_model(res, spec, small, errmode, ph, ckey, rnd, max_seq=None):
    n = spec.n
    feature = {"c17"}
    C = Case17(res, spec, errmode, small, feature, ckey)
    try:
        cls = {q: C.classify(q) for q in range(n)}
        by = {"S": [q for q in range(n) if cls[q] == "S"], "H": [q for q in range(n) if cls[q] == "H"],
              "U": [q for q in range(n) if cls[q] == "U"]}
        seqs = []
        seen = set()
        for t in by["U"]:
            for pat in PATTERNS:
                qs = []
                ok = True
                for k, ty in enumerate(pat):
                    c = by[ty]
                    if not c:
                        ok = False
                        break
                    qs.append(c[(t + k + len(pat)) % len(c)])
                if not ok:
                    continue
                s = (tuple(qs), t)
                if s not in seen:
                    seen.add(s)
                    seqs.append((pat, qs, t))
        if max_seq and len(seqs) > max_seq:
            rnd.shuffle(seqs)
            seqs = seqs[:max_seq]
        for pat, qs, t in seqs:
            if res.expired():
                return
            C.clear()
            C.hist_types = pat
            C.rec.lines.append("# history %s then the failing call" % (",".join(pat) or "-"))
            for q in qs:
                C.call(q)
            C.call(t)
        res.sample({"model": [spec.render(j)[0] for j in range(n)], "sequences": len(seqs)}, cap=3)
    finally:
        C.close()


def case_e(res, item):
    idx, n, mask, deps, p, fkind = item
    reset()
    rnd = random.Random(idx * 104729 + 7)
    spec, small, errmode, ph = make_spec(n, deps, p, fkind, rnd)
    run_model(res, spec, small, errmode, ph, ("E", n, mask, p, fkind), rnd)


def items_e(tier):
    idx = 0
    for n in range(1, 5):
        for mask, deps in dags(n):
            for p in range(n):
                for fkind in MAIN_KINDS:
                    idx += 1
                    if tier == "quick" and n == 4 and idx % 4:
                        continue
                    yield (idx, n, mask, deps, p, fkind)


def part_exhaustive(res, tier):
    if tier != "quick":
        return run_parallel(res, case_e, items_e(tier), chunk=16, reserve=0.15)
    for item in items_e(tier):
        if res.expired():
            return False
        case_e(res, item)
    return True


def case_f(res, item):
    """Model of case_e (same index-seeded draws) with its calls wrapped in Inflight constructs."""
    idx, n, mask, deps, p, fkind, form, placement = item
    reset()
    rnd = random.Random(idx * 104729 + 7)
    spec, small, errmode, ph = make_spec(n, deps, p, fkind, rnd)
    rnd2 = random.Random(idx * 7919 + 31 * Inflight.ALL_FORMS.index(form) + (placement == "some"))
    if not add_inflight(spec, rnd2, form, placement):
        return                       # no call that can be wrapped: the model of case_e
    run_model(res, spec, small, errmode, ph, ("F", n, mask, p, fkind, form, placement), rnd)


def items_f(tier):
    idx = 0
    nf = len(Inflight.FORMS)
    for n in range(1, 5):
        for mask, deps in dags(n):
            for p in range(n):
                for fkind in MAIN_KINDS:
                    idx += 1
                    if not mask:
                        continue
                    if tier == "quick":
                        if n == 4 and idx % 8:
                            continue
                        forms = Inflight.FORMS if n == 2 else [Inflight.FORMS[(idx + i) % nf] for i in range(2 if n == 3 else 1)]
                        for f in forms:
                            yield (idx, n, mask, deps, p, fkind, f, "all" if (idx // nf) % 2 == 0 else "some")
                        if n <= 3:
                            # the side's own failure is swallowed inside the handler, the original exception goes on
                            for f in Inflight.SWALLOW_FORMS:
                                yield (idx, n, mask, deps, p, fkind, f, "all" if (idx // 2) % 3 else "some")
                    else:
                        for f in Inflight.ALL_FORMS:
                            yield (idx, n, mask, deps, p, fkind, f, "all")
                        yield (idx, n, mask, deps, p, fkind, Inflight.FORMS[idx % nf], "some")
                        yield (idx, n, mask, deps, p, fkind, Inflight.SWALLOW_FORMS[idx % 2], "some")


def part_inflight(res, tier):
    if tier != "quick":
        return run_parallel(res, case_f, items_f(tier), chunk=16, reserve=0.1)
    for item in items_f(tier):
        if res.expired():
            return False
        case_f(res, item)
    return True


def case_s(res, item):
    k, n, deps, p, fkind, seed = item
    reset()
    rnd = random.Random(seed)
    spec, small, errmode, ph = make_spec(n, deps, p, fkind, rnd, extra=True)
    if k % 3 == 0:
        add_inflight(spec, random.Random(seed ^ 0x5A5A), None, "some")
    run_model(res, spec, small, errmode, ph, ("S", k, spec.key()), rnd, max_seq=12)


def part_sampled(res, tier):
    """The sample is drawn up front from res.rng (same seed, same cases)."""
    count = 60 if tier == "quick" else 4000
    items = []
    for k in range(count):
        n = res.rng.choice([4, 5])
        deps = [[i for i in range(j) if res.rng.random() < 0.5] for j in range(n)]
        items.append((k, n, deps, res.rng.randrange(n), res.rng.choice(MAIN_KINDS + ["kbi"]), res.rng.getrandbits(32)))
    if tier != "quick":
        return run_parallel(res, case_s, items, chunk=16, reserve=0.05)
    for it in items:
        if res.expired():
            return False
        case_s(res, it)
    return True


def run(res, tier, seed):
    global PENDING
    PENDING = []
    COVER["inflight"] = COVER["swallowed"] = 0
    res.bound = ("every DAG on <= 4 elements x every raising element x {ZeroDivisionError, custom BaseException, "
                 "None return, recursion limit} (quick: every 4th combination at 4 elements); for each model every "
                 "failing top-level call after each of 11 history patterns of <= 2 earlier calls of types "
                 "success / handled failure / unhandled failure; the same DAGs (>= 1 call) once more with the calls "
                 "wrapped in constructs that evaluate another element while the callee's exception propagates "
                 "{try/finally, except-then-raise, except-as-then-raise-e, context manager __exit__} x {every call, "
                 "some calls} (quick: 2 elements: 4 constructs, 3 elements: 2 constructs, 4 elements: every 8th "
                 "combination, 1 construct; thorough: 4 constructs on every call + 1 on some calls), and with 2 constructs "
                 "that swallow a failure of the side element inside the handler and let the original exception go on "
                 "{except H: try side except Exception: pass; raise, finally: try side except Exception: pass} "
                 "(quick: 2-3 elements; thorough: every call + 1 on some calls); + seeded samples "
                 "on 4-5 elements (also KeyboardInterrupt; every 3rd with such constructs)")
    res.rule = ("exhaustive product DAG x raising element x exception kind; element kinds (10), call styles (plain, "
                "list comprehension, generator, lambda, subscript), raise site (statement, comprehension, generator, "
                "nested def, referenced helper), the element whose failure is handled by its callers, handler classes "
                "(catching / not catching), cached or uncached recursion helper and the error mode are drawn by an "
                "index-seeded generator; for the in-flight constructs also the side element (an earlier node of any "
                "kind or a helper cells holding no value yet; for the swallowing constructs mostly an always-failing "
                "helper cells), its call style and the class caught.  One evaluation = one top-level call; non-trivial = the call fails (the "
                "traceback contract is evaluated); distinct = distinct (model, call history).")
    ok = part_exhaustive(res, tier)
    ok2 = part_inflight(res, tier)
    part_sampled(res, tier)
    res.exhaustive = bool(ok and ok2)
    res.notes = res.notes[:20]
    if tier == "quick":         # (thorough: counted in the worker processes, not merged)
        res.notes.append("%d of the failing calls evaluated and completed another element while the exception "
                         "was propagating; in %d another element failed meanwhile, the formula swallowing that "
                         "failure and letting the original exception go on" % (COVER["inflight"], COVER["swallowed"]))
    res.notes.append("not covered: trace_locals() contents; the text of FormulaError; the line reported for an "
                     "element whose formula returned None (no line is named by the statement)")
    PENDING = []


if __name__ == "__main__":
    main("C17", run)
