"""C19 - model registry: unique names, no model dropped, models isolated from each other (bounded stand-in).

Part R (registry): histories over {new_model, read_model, rename (+/- rename_old), close, edit bundle,
implicit current-model use} on <= 3 concurrently open models, names drawn from {None (auto), "A", "B", "C",
the name the next backup of "A" would get, the name the next auto-named model would get (and the one after it), an invalid name,
the model's own name}.  The abstract registry (class Reg, pure Python) is the reference model; after each
step the real session is compared with it:

  registry-keys        mx.get_models() maps each key to a model with that name (names unique)
  model-dropped        every model that was open and not closed is still registered (same object)
  unexpected-model     nothing else is registered
  wrong-name           a model has the requested / kept name; a displaced model is called <old>_BAK<n>
  rejected-op-changed  an invalid name / a taken name without rename_old changes nothing
  unexpected-exception modelx refused an operation the contract lets succeed
  isolation-defs / isolation-values   another model's description / held values changed
  isolation-query      another model no longer computes what its own definitions say

Part I (isolation): 2-3 open models (independent / created from the same file / same objects shared /
name re-used / one holding a reference into the other), sequences of edits on one of them; the others
must keep definitions and values (values are not compared for a model that holds a reference into the
edited one) and must still evaluate according to their own definitions.
"""
from common import *          # noqa
import os, re, shutil, tempfile, multiprocessing as mp

INVALID = "1x"


# ======================================================================================= abstract registry
class Reg:
    """Names are abstract: ("lit", s) | ("bak", prefix_name, c) = prefix + "_BAK" + str(n0 + c) |
    ("auto", c) = "Model" + str(m0 + c), where n0 / m0 are the session's name counters at history start."""

    def __init__(self):
        self.names = {}          # idx -> abstract name (open models)
        self.K = {}              # idx -> factor of foo (None: model without content)
        self.closed = set()
        self.bak_c = 0
        self.auto_c = 0
        self.n = 0               # models created so far
        self.current = None      # idx of the current model
        self.edits = 0

    def copy(self):
        r = Reg.__new__(Reg)
        r.names = dict(self.names); r.K = dict(self.K); r.closed = set(self.closed)
        r.bak_c, r.auto_c, r.n, r.current, r.edits = self.bak_c, self.auto_c, self.n, self.current, self.edits
        return r

    def holder(self, name):
        return next((i for i, nm in self.names.items() if nm == name), None)

    def fresh_bak(self, prefix):
        while True:
            self.bak_c += 1
            nm = ("bak", prefix, self.bak_c)
            if self.holder(nm) is None:
                return nm

    def fresh_auto(self):
        while True:
            self.auto_c += 1
            nm = ("auto", self.auto_c)
            if self.holder(nm) is None:
                return nm

    def resolve(self, key, i=None):
        if key is None:
            return None
        if key == "BAK":
            return ("bak", ("lit", "A"), self.bak_c + 1)
        if key == "BAK2":
            return ("bak", ("lit", "A"), self.bak_c + 2)
        if key == "AUTO":
            return ("auto", self.auto_c + 1)
        if key == "AUTO2":
            return ("auto", self.auto_c + 2)
        if key == "same":
            return self.names[i]
        if key == "bad":
            return ("lit", INVALID)
        return ("lit", key)

    # ---- transition; returns dict(raises=bool, new=idx or None, displaced=idx or None, changed=bool, target=idx)
    def apply(self, op):
        k = op[0]
        out = {"raises": False, "new": None, "displaced": None, "noop": False, "target": None}
        if k == "new":
            name = self.resolve(op[1])
            if name == ("lit", INVALID):
                out["raises"] = True
                out["noop"] = True
                return out
            if name is None:
                name = self.fresh_auto()
            else:
                j = self.holder(name)
                if j is not None:
                    self.names[j] = self.fresh_bak(name)
                    out["displaced"] = j
            i = self.n; self.n += 1
            self.names[i] = name; self.K[i] = 2 + i; self.current = i
            out["new"] = i
        elif k == "read":
            self.fresh_auto()                       # the reader creates an auto-named model first ...
            name = self.resolve(op[1]) or ("lit", "A")
            j = self.holder(name)                   # ... then renames it with rename_old=True
            if j is not None:
                self.names[j] = self.fresh_bak(name)
                out["displaced"] = j
            i = self.n; self.n += 1
            self.names[i] = name; self.K[i] = 7; self.current = i
            out["new"] = i
        elif k == "rename":
            _, i, key, ro = op
            out["target"] = i
            name = self.resolve(key, i)
            if name == self.names[i]:
                out["noop"] = True
            elif name == ("lit", INVALID):
                out["raises"] = True; out["noop"] = True
            else:
                j = self.holder(name)
                if j is None:
                    self.names[i] = name
                elif ro:
                    self.names[j] = self.fresh_bak(name)
                    out["displaced"] = j
                    self.names[i] = name
                else:
                    out["noop"] = True
        elif k == "close":
            i = op[1]
            out["target"] = i
            del self.names[i]
            self.closed.add(i)
            if self.current == i:
                self.current = None
        elif k == "edit":
            i = op[1]
            out["target"] = i
            self.K[i] += 100
            self.edits += 1
        elif k == "cur":                            # mx.new_space(): goes to the current model, or makes a model
            if self.current is None:
                i = self.n; self.n += 1
                self.names[i] = self.fresh_auto(); self.K[i] = None; self.current = i
                out["new"] = i
            out["target"] = self.current
        else:
            raise ValueError(op)
        return out

    def enabled(self, maxopen=3):
        ops = []
        openi = sorted(self.names)
        if len(openi) < maxopen:
            for key in (None, "A", "B", "BAK", "AUTO", "AUTO2", "bad"):
                ops.append(("new", key))
            for key in (None, "B", "BAK"):
                ops.append(("read", key))
        elif len(openi) == maxopen:
            ops.append(("new", None))       # one auto-named model more: lets both next auto names be taken first (seed C19-3)
        for i in openi:
            for key in ("A", "B", "BAK", "same", "bad"):
                for ro in (False, True):
                    ops.append(("rename", i, key, ro))
            ops.append(("rename", i, "C", False))
            ops.append(("rename", i, "BAK2", True))
        for i in openi:
            ops.append(("close", i))
        for i in openi:
            if self.K[i] is not None:
                ops.append(("edit", i))
        if len(openi) < maxopen or self.current is not None:
            ops.append(("cur",))
        return ops

    def features(self, op):
        k = op[0]
        f = [k]
        if k in ("new", "read"):
            name = self.resolve(op[1]) or (self.fresh_auto_peek() if k == "new" else ("lit", "A"))
            f.append({None: "auto-name" if k == "new" else "stored-name", "BAK": "name-is-next-backup-name",
                      "AUTO": "name-is-next-auto-name", "AUTO2": "name-is-second-next-auto-name",
                      "bad": "invalid-name"}.get(op[1], "explicit-name"))
            if k == "new" and op[1] is None and self.holder(("auto", self.auto_c + 1)) is not None:
                f.append("next-auto-name-taken")
                if self.holder(("auto", self.auto_c + 2)) is not None:
                    f.append("second-next-auto-name-taken")
            if name is not None and self.holder(name) is not None:
                f.append("name-taken")
                if self._next_bak_taken(name):
                    f.append("backup-name-taken-too")
            if k == "read" and self.holder(("auto", self.auto_c + 1)) is not None:
                f.append("temp-auto-name-taken")
        elif k == "rename":
            _, i, key, ro = op
            name = self.resolve(key, i)
            f.append("rename_old" if ro else "no-rename_old")
            f.append({"BAK": "name-is-next-backup-name", "BAK2": "name-is-second-next-backup-name", "same": "own-name",
                      "bad": "invalid-name"}.get(key, "explicit-name"))
            j = self.holder(name)
            if j is not None and j != i:
                f.append("name-taken")
                if ro and self._next_bak_taken(name):
                    f.append("backup-name-taken-too")
            if self.names[i][0] == "bak":
                f.append("model-has-backup-name")
        elif k == "close":
            f.append("current-model" if self.current == op[1] else "not-current-model")
        elif k == "cur":
            f.append("no-current-model" if self.current is None else "has-current-model")
        if self.closed:
            f.append("after-close")
        if any(nm[0] == "bak" for nm in self.names.values()):
            f.append("backup-named-model-open")
        if self.edits:
            f.append("after-edit")
        return f

    def fresh_auto_peek(self):
        return ("auto", self.auto_c + 1)

    def _next_bak_taken(self, name):
        return self.holder(("bak", name, self.bak_c + 1)) is not None


def reg_histories(depth, prefix=()):
    r = Reg()
    r.apply(("new", "A"))
    for op in prefix:
        r.apply(op)
    yield from _reg_dfs(r, list(prefix), depth)


def _reg_dfs(r, hist, depth):
    if len(hist) >= depth:
        yield list(hist)
        return
    ops = r.enabled()
    if not ops:
        yield list(hist)
        return
    for op in ops:
        b = r.copy()
        b.apply(op)
        hist.append(op)
        yield from _reg_dfs(b, hist, depth)
        hist.pop()


# ======================================================================================= real session helpers
def build(m, K):
    S = m.new_space("S")
    S.new_cells("foo", formula="lambda i: i * %d" % K)
    S.new_cells("bar", formula="lambda i: foo(i) + k")
    S.k = K * 10
    S.foo(1); S.bar(2)
    return S


BUILD_TXT = '''def build(m, K):
    S = m.new_space("S"); S.new_cells("foo", formula="lambda i: i * %d" % K)
    S.new_cells("bar", formula="lambda i: foo(i) + k"); S.k = K * 10; S.foo(1); S.bar(2)
'''


def refval(v):
    if is_iface(v):
        return ("iface", type(v).__name__, id(v))
    return ("val", repr(v))


def snap_space(s, with_values=True):
    cells = []
    for n, c in s.cells.items():
        cells.append((n, c.formula.source if c.formula is not None else None, c.allow_none, c.is_cached, c.doc,
                      tuple(sorted(repr(k) for k in c._impl.input_keys)),
                      tuple(sorted((repr(k), repr(v)) for k, v in c._impl.data.items())) if with_values else None))
    refs = tuple((n, refval(v)) for n, v in sorted(s.refs.items()) if n not in ("__builtins__", "_self", "_space", "_model"))
    return (s.name, s.formula.source if s.formula is not None else None, s.doc,
            tuple(b.name for b in s.bases), tuple(cells), refs,
            tuple(snap_space(ch, with_values) for ch in s.named_spaces.values()),
            tuple(sorted(repr(k) for k in getattr(s._impl, "param_spaces", {}))) if with_values else None)


def snap_model(m, with_values=True):
    """Definitions (and held values) of a model, without its name."""
    return (m.doc, tuple((n, refval(v)) for n, v in sorted(m.refs.items()) if n != "__builtins__"),
            tuple(snap_space(s, with_values) for s in m.spaces.values()))


SNAP_TXT = '''def snap(m, values=True):          # definitions (and held values) of a model, without its name
    def sp(s):
        return (s.name, s.formula and s.formula.source, tuple(b.name for b in s.bases),
                [(n, c.formula and c.formula.source, c.allow_none, c.is_cached,
                  sorted((repr(k), repr(v)) for k, v in c._impl.data.items()) if values else None) for n, c in s.cells.items()],
                [(n, id(v) if isinstance(v, mx.core.base.Interface) else repr(v)) for n, v in sorted(s.refs.items())
                 if n not in ("__builtins__", "_self", "_space", "_model")],
                [sp(c) for c in s.named_spaces.values()])
    return (m.doc, [(n, repr(v)) for n, v in sorted(m.refs.items()) if n != "__builtins__"], [sp(s) for s in m.spaces.values()])
'''


def clean_session():
    """Fresh session; registry entries that reset() could not close (left by a broken registry in an earlier
    history) are dropped so that histories do not contaminate each other.  Hygiene only, never an oracle."""
    reset()
    if mx.get_models():
        try:
            sysimpl().models.clear()
            sysimpl().currentmodel = None
        except Exception:
            pass


def probe_counters():
    """The session's next backup / auto-name numbers, learnt through the public API only."""
    p = mx.new_model("Zq"); q = mx.new_model("Zq")
    n0 = int(p.name.rsplit("_BAK", 1)[1])
    p.close(); q.close()
    r = mx.new_model()
    m0 = int(r.name[len("Model"):])
    r.close()
    return n0, m0


class Sess:
    """Real session of one history."""

    def __init__(self, saved):
        clean_session()
        self.saved = saved
        try:
            self.n0, self.m0 = probe_counters()
        except Exception:
            self.n0, self.m0 = 0, 0
        self.m = {}               # idx -> model object

    def name_str(self, nm):
        if nm is None:
            return None
        if nm[0] == "lit":
            return nm[1]
        if nm[0] == "bak":
            return "%s_BAK%d" % (self.name_str(nm[1]), self.n0 + nm[2])
        return "Model%d" % (self.m0 + nm[1])

    def pattern(self, nm):
        if nm[0] == "lit":
            return re.escape(nm[1])
        if nm[0] == "bak":
            return self.pattern(nm[1]) + r"_BAK\d+"
        return r"Model\d+"

    def execute(self, op, r, step):
        """Run op on modelx; r = abstract registry before.  Returns (exception text or None, new model or None)."""
        k = op[0]
        new = None
        try:
            if k == "new":
                new = mx.new_model(self.name_str(r.resolve(op[1])))
            elif k == "read":
                nm = r.resolve(op[1])
                new = mx.read_model(self.saved, name=self.name_str(nm)) if nm is not None else mx.read_model(self.saved)
            elif k == "rename":
                _, i, key, ro = op
                target = self.m[i].name if key == "same" else self.name_str(r.resolve(key, i))
                if ro:
                    self.m[i].rename(target, rename_old=True)
                else:
                    self.m[i].rename(target)
            elif k == "close":
                self.m[op[1]].close()
            elif k == "edit":
                i = op[1]
                K2 = r.K[i] + 100
                S = self.m[i].spaces["S"]
                S.foo.formula = "lambda i: i * %d" % K2
                S.foo[1] = 99
                S.k = K2 * 10
                S.foo(3)
            elif k == "cur":
                sp = mx.new_space("Z%d" % step)
                if r.current is None:
                    new = sp.model
            else:
                raise RuntimeError(op)
        except Exception as e:
            return "%s: %s" % (type(e).__name__, e), None
        if k == "new":
            build(new, 2 + r.n)          # (outside the try: a failure here is not the registry's)
        return None, new


def check_registry(sess, r, out):
    """Compare mx.get_models() with the abstract registry r (after the step).  (tag, text) or None."""
    reg = mx.get_models()
    for key, v in reg.items():
        if v.name != key:
            return "registry-keys", "key %r maps to a model called %r" % (key, v.name)
    ids = {id(v): key for key, v in reg.items()}
    for i in sorted(r.names):
        if id(sess.m[i]) not in ids:
            return "model-dropped", "model #%d (expected name %s) is no longer registered; registry: %s" % (
                i, sess.name_str(r.names[i]), sorted(reg))
    if len(reg) != len(r.names):
        extra = [key for key, v in reg.items() if not any(v is sess.m[i] for i in r.names)]
        return "unexpected-model", "registered but not open in the history: %s" % extra
    for i, nm in sorted(r.names.items()):
        real = sess.m[i].name
        if nm[0] == "lit":
            ok = real == nm[1]
        else:
            ok = re.fullmatch(sess.pattern(nm), real) is not None
        if not ok:
            return "wrong-name", "model #%d is called %r, expected %s" % (i, real, sess.pattern(nm))
    return None


def expected_foo(K, q, edited):
    return 99 if (edited and q == 1) else q * K


# ======================================================================================= Part R: one history
def run_reg_history(hist, saved):
    """Returns dict(steps, fail or None)."""
    sess = Sess(saved)
    r = Reg()
    # initial model "A" (#0)
    r.apply(("new", "A"))
    sess.m[0] = mx.new_model("A")
    build(sess.m[0], 2)
    edited = {0: False}
    script_lines = []        # python lines of the history, using variables M[i]
    res = {"steps": 0, "fail": None}
    before_snap = {0: snap_model(sess.m[0])}      # definitions + held values of every open model, refreshed after each step

    def fail(tag, text, feats, step, extra_check):
        res["fail"] = {"tags": [tag] + feats, "what": "step %d %s: %s" % (step, script_lines[-1] if script_lines else "", text),
                       "script": make_reg_script(sess, script_lines, extra_check, tag == "unexpected-exception"),
                       "case": tuple(hist[:step])}

    for step, op in enumerate(hist, 1):
        feats = r.features(op)
        before_names = {i: sess.m[i].name for i in r.names}
        before_reg = dict(mx.get_models())
        b = r.copy()
        out = b.apply(op)
        exc, new = sess.execute(op, r, step)
        script_lines.append(op_line(sess, op, r, step, exc is not None))
        res["steps"] = step
        if exc is not None and not out["raises"]:
            fail("unexpected-exception", exc, feats, step, [])
            return res
        if exc is None and out["raises"]:
            # an invalid name was accepted: outside this property's clauses except that nothing may be lost
            for i in r.names:
                if not any(v is sess.m[i] for v in mx.get_models().values()):
                    fail("model-dropped", "after an accepted invalid name model #%d is gone" % i, feats, step, [])
                    return res
            res["truncated"] = True
            return res
        if out["new"] is not None:
            if new is None:
                fail("unexpected-exception", "no model returned", feats, step, [])
                return res
            sess.m[out["new"]] = new
            edited[out["new"]] = False
        if op[0] == "edit":
            edited[op[1]] = True
        # ---- registry clauses
        problem = check_registry(sess, b, out)
        if problem is None and out["noop"]:
            now = mx.get_models()
            if set(now) != set(before_reg) or any(now[k_] is not before_reg[k_] for k_ in now):
                problem = ("rejected-op-changed", "registry was %s, now %s" % (sorted(before_reg), sorted(now)))
            elif any(sess.m[i].name != before_names[i] for i in r.names):
                problem = ("rejected-op-changed", "a model was renamed")
        if problem is None and not out["noop"] and op[0] in ("new", "read", "rename") and not (op[0] == "new" and op[1] is None):
            it = op[1] if op[0] == "rename" else out["new"]          # the model that asked for an explicit name
            want = sess.name_str(b.names[it])
            if mx.get_models().get(want) is not sess.m[it] or sess.m[it].name != want:
                problem = ("wrong-name", "model #%d is not registered under the requested name %r (it is called %r)" % (
                    it, want, sess.m[it].name))
        if problem is not None:
            fail(problem[0], problem[1], feats, step, [])
            return res
        # ---- isolation: every model that is not the target keeps definitions and values
        for i in sorted(b.names):
            if i == out["new"] or i == out["target"]:
                continue
            now = snap_model(sess.m[i])
            if now != before_snap[i]:
                kind = "isolation-defs" if _strip(now) != _strip(before_snap[i]) else "isolation-values"
                fail(kind, "model #%d (%s) changed although the operation was on another model" % (i, sess.m[i].name),
                     feats + (["displaced-model"] if i == out["displaced"] else []), step, [])
                return res
        # ---- every open model still computes what its own definitions say
        q = 3 + step
        for i in sorted(b.names):
            K = b.K[i]
            if K is None:
                continue
            try:
                got = sess.m[i].spaces["S"].bar(q) - sess.m[i].spaces["S"].k
                got1 = sess.m[i].spaces["S"].foo(1)
                kk = sess.m[i].spaces["S"].k
            except Exception as e:
                fail("isolation-query", "model #%d: %s: %s" % (i, type(e).__name__, e),
                     feats + (["target-model"] if i == out["target"] else []), step, [])
                return res
            if got != q * K or got1 != expected_foo(K, 1, edited[i]) or kk != K * 10:
                fail("isolation-query", "model #%d (%s): foo(%d)=%r foo(1)=%r k=%r, its definitions give %r, %r, %r" % (
                    i, sess.m[i].name, q, got, got1, kk, q * K, expected_foo(K, 1, edited[i]), K * 10),
                     feats + (["target-model"] if i == out["target"] else []), step, [])
                return res
        r = b
        before_snap = {i: snap_model(sess.m[i]) for i in r.names}
    return res


def _strip(snap_with_values):
    """The definition-only part of a snap_model() result."""
    def strip_space(s):
        name, formula, doc, bases, cells, refs, children, items = s
        return (name, formula, doc, bases, tuple(c[:6] + (None,) for c in cells), refs,
                tuple(strip_space(ch) for ch in children), None)
    doc, refs, spaces = snap_with_values
    return (doc, refs, tuple(strip_space(s) for s in spaces))


def op_line(sess, op, r, step, raised):
    """Python text of op for the replay script (variables m0, m1, ...; n0/m0_ counters)."""
    k = op[0]

    def nm_code(nm):
        if nm is None:
            return "None"
        if nm[0] == "lit":
            return repr(nm[1])
        if nm[0] == "bak":
            return '%s + "_BAK%%d" %% (bak0 + %d)' % (nm_code(nm[1]), nm[2])
        return '"Model%%d" %% (auto0 + %d)' % nm[1]
    if k == "new":
        nm = r.resolve(op[1])
        ln = "M[%d] = mx.new_model(%s); build(M[%d], %d)" % (r.n, nm_code(nm), r.n, 2 + r.n)
    elif k == "read":
        nm = r.resolve(op[1])
        ln = "M[%d] = mx.read_model(saved%s)" % (r.n, "" if nm is None else ", name=" + nm_code(nm))
    elif k == "rename":
        _, i, key, ro = op
        nm = r.resolve(key, i)
        ln = "M[%d].rename(%s%s)" % (i, "M[%d].name" % i if key == "same" else nm_code(nm), ", rename_old=True" if ro else "")
    elif k == "close":
        ln = "M[%d].close(); closed.add(%d)" % (op[1], op[1])
    elif k == "edit":
        i = op[1]
        K2 = r.K[i] + 100
        ln = 'M[%d].S.foo.formula = "lambda i: i * %d"; M[%d].S.foo[1] = 99; M[%d].S.k = %d; M[%d].S.foo(3)' % (i, K2, i, i, K2 * 10, i)
    else:
        ln = ('M[%d] = mx.new_space("Z%d").model' % (r.n, step)) if r.current is None else 'mx.new_space("Z%d")' % step
    return ln


def make_reg_script(sess, lines, extra, last_must_succeed=False):
    """Replay: after every step the registry invariants and the isolation of the untouched models are re-checked."""
    head = '''import modelx as mx, sys, os, re, tempfile, shutil, warnings
warnings.simplefilter("ignore")
tmp = tempfile.mkdtemp(); bad = []; M = {}; closed = set()
%s
%s
def run(code):                # one operation of the history; a refusal is reported, not fatal
    try: exec(code, globals()); return True
    except Exception as e: print("  refused: %%s -> %%s: %%s" %% (code, type(e).__name__, e)); return False
def check(step, touched):
    reg = mx.get_models()
    for k, v in reg.items():
        if v.name != k: bad.append("step %%d: key %%r -> model named %%r" %% (step, k, v.name))
    for i, m in M.items():
        if i not in closed and not any(v is m for v in reg.values()): bad.append("step %%d: model #%%d dropped" %% (step, i))
    if len(reg) != len([i for i in M if i not in closed]): bad.append("step %%d: registry has %%s" %% (step, sorted(reg)))
    for i, m in M.items():
        if i not in closed and i not in touched and i in S0 and snap(m) != S0[i]: bad.append("step %%d: model #%%d changed" %% (step, i))
        if i not in closed and i in Kf:
            try:
                if m.S.foo(50 + step) != (50 + step) * Kf[i]: bad.append("step %%d: model #%%d computes %%r" %% (step, i, m.S.foo(50 + step)))
            except Exception as e: bad.append("step %%d: model #%%d: %%r" %% (step, i, e))
try:
    s = mx.new_model("A"); build(s, 7); saved = tmp + "/saved"; s.write(saved); s.close()
    p = mx.new_model("Zq"); q = mx.new_model("Zq"); bak0 = int(p.name.rsplit("_BAK", 1)[1]); p.close(); q.close()
    r = mx.new_model(); auto0 = int(r.name[5:]); r.close()          # the session's name counters
    M[0] = mx.new_model("A"); build(M[0], 2); Kf = {0: 2}
''' % (BUILD_TXT, SNAP_TXT)
    L = [head]
    r = Reg(); r.apply(("new", "A"))
    # re-derive the per-step bookkeeping from the history text itself
    for n, ln in enumerate(lines, 1):
        L.append("    S0 = {i: snap(m) for i, m in M.items() if i not in closed}; names0 = {i: m.name for i, m in M.items() if i not in closed}; before = set(M)")
        if last_must_succeed and n == len(lines):
            L.append("    if not run(%r): bad.append('step %d: modelx refused an operation that must succeed')" % (ln, n))
        else:
            L.append("    run(%r)" % ln)
        L.append("    touched = set(M) - before")
        if ".S.foo.formula" in ln:
            i = int(ln.split("]")[0].split("[")[1])
            K2 = int(ln.split("i * ")[1].split('"')[0])
            L.append("    touched.add(%d); Kf[%d] = %d" % (i, i, K2))
        elif ".rename(" in ln or ".close()" in ln:
            i = int(ln.split("]")[0].split("[")[1])
            L.append("    touched.add(%d)" % i)
        elif "mx.new_space(" in ln and not ln.startswith("M["):
            L.append("    touched |= {i for i, m in M.items() if i not in closed and m is mx.cur_model()}")
        if "build(M[" in ln:
            i = int(ln.split("]")[0].split("[")[1])
            L.append("    Kf[%d] = %d" % (i, 2 + i))
        elif "mx.read_model(" in ln:
            i = int(ln.split("]")[0].split("[")[1])
            L.append("    Kf[%d] = 7" % i)
        L.append("    check(%d, touched)" % n)
    for e in extra:
        L.append("    " + e)
    L.append("finally:")
    L.append("    shutil.rmtree(tmp, ignore_errors=True)")
    L.append("print(bad); sys.exit(1 if bad else 0)")
    return "\n".join(L) + "\n"


# ======================================================================================= Part I: isolation under edits
SETUPS = ("indep", "xref", "read2", "reuse", "shared")
EDITS = ("set_formula", "set_input", "set_ref", "new_cells", "del_cells", "del_space", "new_sub_space", "clear_all",
         "clear_cells", "set_doc", "rename_space", "allow_none", "uncache", "write", "rename_model", "close",
         "new_space_cur", "copy_space_into_other", "eval")


def shared_func(i):
    return i * 2


SETUP_TXT = {
    "indep": 'X = mx.new_model("X"); build(X, 2); Y = mx.new_model("Y"); build(Y, 3)',
    "xref": ('X = mx.new_model("X"); build(X, 2); Y = mx.new_model("Y"); build(Y, 3); Z = mx.new_model("Z"); build(Z, 5)\n'
             'X.S.r = Y.S.foo; X.S.new_cells("qux", formula="lambda i: r(i) + 1"); X.S.qux(1); X.S.qux(2)'),
    "read2": 'X = mx.read_model(saved); Y = mx.read_model(saved)',
    "reuse": 'X = mx.new_model("A"); build(X, 2); X.rename("B"); Y = mx.new_model("A"); build(Y, 3)',
    "shared": ('X = mx.new_model("X"); Y = mx.new_model("Y"); L = [1, 2]\n'
               'for m_ in (X, Y):\n    S_ = m_.new_space("S"); S_.new_cells("foo", formula=shared_func); S_.new_cells("bar", formula="lambda i: foo(i) + k"); S_.k = 20; S_.lst = L; S_.foo(1); S_.bar(2)'),
}
SETUP_K = {"indep": {"X": 2, "Y": 3}, "xref": {"X": 2, "Y": 3, "Z": 5}, "read2": {"X": 7, "Y": 7},
           "reuse": {"X": 2, "Y": 3}, "shared": {"X": 2, "Y": 2}}


def edit_code(kind, t, other, st, step):
    """Python text of an edit on model variable t (state st[t]: dict K, space name, has_foo)."""
    S = "%s.%s" % (t, st[t]["space"])
    if kind == "set_formula":
        return '%s.foo.formula = "lambda i: i * %d"' % (S, st[t]["K"] + 100)
    if kind == "set_input":
        return "%s.foo[1] = 99" % S
    if kind == "set_ref":
        return "%s.k = %d" % (S, 1000 + step)
    if kind == "new_cells":
        return '%s.new_cells("baz%d", formula="lambda i: foo(i) + k")' % (S, step)
    if kind == "del_cells":
        return "del %s.foo" % S
    if kind == "del_space":
        return "del %s" % S
    if kind == "new_sub_space":
        return '%s.new_space("T%d", bases=%s)' % (t, step, S)
    if kind == "clear_all":
        return "%s.clear_all()" % t
    if kind == "clear_cells":
        return "%s.foo.clear()" % S
    if kind == "set_doc":
        return '%s.doc = "doc %d"' % (t, step)
    if kind == "rename_space":
        return '%s.rename("S%d")' % (S, step)
    if kind == "allow_none":
        return "%s.foo.allow_none = True" % S
    if kind == "uncache":
        return "%s.foo.is_cached = False" % S
    if kind == "write":
        return '%s.write(tmp + "/w%d")' % (t, step)
    if kind == "rename_model":
        return '%s.rename(%s.name, rename_old=True)' % (t, other)
    if kind == "close":
        return "%s.close()" % t
    if kind == "new_space_cur":
        return 'mx.cur_model(%s.name); mx.new_space("N%d"); mx.cur_space().new_cells("nc", formula="lambda i: i")' % (t, step)
    if kind == "copy_space_into_other":
        return '%s.copy(%s, "CP%d")' % (S, other, step)
    if kind == "eval":
        return "%s.foo(%d)" % (S, 20 + step)
    raise ValueError(kind)


def edit_enabled(kind, t, st):
    s = st[t]
    if not s["open"]:
        return False
    needs_foo = kind in ("set_formula", "set_input", "del_cells", "clear_cells", "allow_none", "uncache", "eval")
    needs_space = needs_foo or kind in ("set_ref", "new_cells", "del_space", "new_sub_space", "rename_space",
                                        "copy_space_into_other")
    if kind == "set_input" and not s["cached"]:
        return False
    if kind in ("eval", "new_cells") and s["dangling"]:
        return False
    if needs_foo and not s["has_foo"]:
        return False
    if needs_space and not s["has_space"]:
        return False
    if kind == "new_cells" and not s["has_foo"]:
        return False
    return True


def edit_apply(kind, t, other, st, step, setup=None):
    s = st[t]
    if setup == "xref" and t == "Y" and kind in ("del_cells", "del_space", "close"):
        st["X"]["dangling"] = True                  # X's reference now points to a deleted object
    if kind == "set_formula":
        s["K"] += 100; s["input"] = False
    elif kind == "set_input":
        s["input"] = True
    elif kind == "set_ref":
        s["k"] = 1000 + step
    elif kind == "del_cells":
        s["has_foo"] = False
    elif kind == "del_space":
        s["has_space"] = False; s["has_foo"] = False
    elif kind == "rename_space":
        s["space"] = "S%d" % step
    elif kind == "clear_all":
        s["input"] = False
    elif kind == "clear_cells":
        s["input"] = False
    elif kind == "close":
        s["open"] = False
    elif kind == "uncache":
        s["cached"] = False


def iso_histories(depth):
    for setup in SETUPS:
        models = sorted(SETUP_K[setup])
        targets = [m for m in models if m != "Z"]
        st0 = {m: {"K": SETUP_K[setup][m], "space": "S", "has_foo": True, "has_space": True, "open": True,
                   "input": False, "cached": True, "dangling": False,
                   "k": 20 if setup == "shared" else SETUP_K[setup][m] * 10} for m in models}
        yield from _iso_dfs(setup, st0, targets, [], depth)


def _iso_dfs(setup, st, targets, hist, depth):
    if len(hist) >= depth:
        yield (setup, list(hist))
        return
    any_ = False
    for t in targets:
        other = next(m for m in targets if m != t)
        for kind in EDITS:
            if not edit_enabled(kind, t, st):
                continue
            if kind in ("rename_model", "copy_space_into_other") and not st[other]["open"]:
                continue
            any_ = True
            st2 = {m: dict(v) for m, v in st.items()}
            edit_apply(kind, t, other, st2, len(hist) + 1, setup)
            hist.append((kind, t))
            yield from _iso_dfs(setup, st2, targets, hist, depth)
            hist.pop()
    if not any_:
        yield (setup, list(hist))


ISO_HEAD = '''import modelx as mx, sys, os, tempfile, shutil, warnings
warnings.simplefilter("ignore")
tmp = tempfile.mkdtemp(); bad = []
def shared_func(i):
    return i * 2
def run(code):                # one edit of the history; a refusal is reported, not fatal
    try: exec(code, globals()); return True
    except Exception as e: print("  refused: %%s -> %%s: %%s" %% (code, type(e).__name__, e)); return False
%s
%s
try:
    s = mx.new_model("A"); build(s, 7); saved = tmp + "/saved"; s.write(saved); s.close()
''' % (BUILD_TXT, SNAP_TXT)


def run_iso_history(setup, hist, saved, tmp):
    clean_session()
    ns = {"mx": mx, "build": build, "saved": saved, "tmp": tmp, "shared_func": shared_func}
    exec(SETUP_TXT[setup], ns)
    models = sorted(SETUP_K[setup])
    targets = [m for m in models if m != "Z"]
    st = {m: {"K": SETUP_K[setup][m], "space": "S", "has_foo": True, "has_space": True, "open": True,
              "input": False, "cached": True, "dangling": False,
                   "k": 20 if setup == "shared" else SETUP_K[setup][m] * 10} for m in models}
    res = {"steps": 0, "fail": None}
    lines = []
    holds_ref_into = {("X", "Y")} if setup == "xref" else set()       # X holds a reference into Y
    cur = {m: snap_model(ns[m]) for m in models}      # refreshed after each step (the queries add values)
    for step, (kind, t) in enumerate(hist, 1):
        other = next(m for m in targets if m != t)
        code = edit_code(kind, t, other, st, step)
        others = [m for m in models if m != t and st[m]["open"]]
        if kind == "copy_space_into_other":
            others = [m for m in others if m != other]        # the receiving model is a target as well
        names = {m: ns[m].name for m in others}
        feats = [setup, kind, "target-" + ("referrer" if (t, other) in holds_ref_into else
                                          "referee" if (other, t) in holds_ref_into else "plain")]
        if step > 1:
            pk, pt = hist[step - 2]
            feats.append("after-edit-of-same-model" if pt == t else
                         "after-edit-of-referrer" if (pt, t) in holds_ref_into else
                         "after-edit-of-referee" if (t, pt) in holds_ref_into else "after-edit-of-other-model")
        lines.append(code)
        res["steps"] = step
        try:
            exec(code, ns)
        except Exception as e:
            res["fail"] = {"tags": ["unexpected-exception"] + feats,
                           "what": "step %d %s: %s: %s" % (step, code, type(e).__name__, e),
                           "script": iso_script(setup, lines, None, models, st, must=True), "case": (setup,) + tuple(hist[:step])}
            return res
        edit_apply(kind, t, other, st, step, setup)
        for m in others:
            if kind == "rename_model" and m == other:
                if ns[m].name == names[m] or not ns[m].name.startswith(names[m] + "_BAK"):
                    res["fail"] = {"tags": ["wrong-name"] + feats, "what": "step %d %s: displaced model is called %r" % (step, code, ns[m].name),
                                   "script": iso_script(setup, lines, None, models, st), "case": (setup,) + tuple(hist[:step])}
                    return res
            full = snap_model(ns[m])
            if full == cur[m]:
                continue
            if _strip(full) != _strip(cur[m]):
                tag = "isolation-defs"
            elif (m, t) not in holds_ref_into:
                tag = "isolation-values"
            else:
                continue
            res["fail"] = {"tags": [tag] + feats + (["other-holds-ref-into-target"] if (m, t) in holds_ref_into else []),
                           "what": "step %d %s: model %s changed" % (step, code, m),
                           "script": iso_script(setup, lines, m, models, st), "case": (setup,) + tuple(hist[:step])}
            return res
        # every open model still follows its own definitions
        for m in models:
            s = st[m]
            if not s["open"] or not s["has_foo"] or s["dangling"]:
                continue
            q = 30 + step
            try:
                sp = ns[m].spaces[s["space"]]
                got, kk = (sp.bar(q) - sp.k if "bar" in sp.cells else sp.foo(q)), sp.k
            except Exception as e:
                res["fail"] = {"tags": ["isolation-query"] + feats + (["queried-target"] if m == t else ["queried-other"]),
                               "what": "step %d %s: %s.foo: %s: %s" % (step, code, m, type(e).__name__, e),
                               "script": iso_script(setup, lines, None, models, st), "case": (setup,) + tuple(hist[:step])}
                return res
            if got != q * s["K"] or kk != s["k"]:
                res["fail"] = {"tags": ["isolation-query"] + feats + (["queried-target"] if m == t else ["queried-other"]),
                               "what": "step %d %s: %s computes foo(%d)=%r k=%r; its definitions give %r %r" % (
                                   step, code, m, q, got, kk, q * s["K"], s["k"]),
                               "script": iso_script(setup, lines, None, models, st), "case": (setup,) + tuple(hist[:step])}
                return res
        if step < len(hist):
            cur = {m: snap_model(ns[m]) for m in models if st[m]["open"]}
    return res


def iso_script(setup, lines, changed, models, st, must=False):
    """Replay of an isolation history; `changed`: the model whose snapshot is compared across the last edit."""
    L = [ISO_HEAD]
    for ln in SETUP_TXT[setup].split("\n"):
        L.append("    " + ln)
    for ln in lines[:-1]:
        L.append("    run(%r)" % ln)
    if changed is not None:
        L.append("    before = snap(%s)" % changed)
        L.append("    before_defs = snap(%s, False)" % changed)
    if must:
        L.append("    if not run(%r): bad.append('modelx refused an operation that must succeed')" % lines[-1])
    else:
        L.append("    run(%r)" % lines[-1])
    if changed is not None:
        if setup == "xref" and changed == "X":
            L.append("    if snap(%s, False) != before_defs: bad.append('definitions of %s changed')" % (changed, changed))
        else:
            L.append("    if snap(%s) != before: bad.append('%s changed')" % (changed, changed))
    for m in models:
        s = st[m]
        if s["open"] and s["has_foo"] and not s["dangling"]:
            L.append("    try:")
            L.append("        if %s.%s.foo(77) != 77 * %d: bad.append('%s computes %%r' %% %s.%s.foo(77))" % (m, s["space"], s["K"], m, m, s["space"]))
            L.append("    except Exception as e: bad.append('%s: %%s: %%s' %% (type(e).__name__, e))" % m)
    L.append("finally:")
    L.append("    shutil.rmtree(tmp, ignore_errors=True)")
    L.append("print(bad); sys.exit(1 if bad else 0)")
    return "\n".join(L) + "\n"


# ======================================================================================= workers / run
def _worker(task):
    kind, payload, deadline = task
    part = {"evaluations": 0, "distinct": set(), "failures": [], "samples": [], "complete": True}
    tmp = tempfile.mkdtemp(prefix="c19_")
    try:
        reset()
        s = mx.new_model("A"); build(s, 7)
        saved = os.path.join(tmp, "saved")
        s.write(saved); s.close()
        if kind == "reg":
            depth, prefix = payload
            gen = (("reg", h) for h in reg_histories(depth, prefix))
        elif kind == "iso":
            gen = (("iso", h) for h in payload)
        else:
            gen = payload
        skip = None
        for what, h in gen:
            if time.time() > deadline:
                part["complete"] = False
                break
            if what == "reg":
                if skip is not None and tuple(h[:len(skip)]) == skip:
                    continue
                skip = None
                out = run_reg_history(h, saved)
                key = ("reg",) + tuple(h[:out["steps"]])
            else:
                setup, hh = h
                if skip is not None and (setup,) + tuple(hh[:len(skip) - 1]) == skip:
                    continue
                skip = None
                out = run_iso_history(setup, hh, saved, tmp)
                key = ("iso", setup) + tuple(hh[:out["steps"]])
            part["evaluations"] += 1
            part["distinct"].add(hashlib.md5(repr(key).encode()).digest()[:8])
            if out["fail"] is not None:
                part["failures"].append(out["fail"])
                skip = tuple(out["fail"]["case"])
            elif len(part["samples"]) < 1:
                part["samples"].append([repr(x) for x in key])
    finally:
        reset()
        shutil.rmtree(tmp, ignore_errors=True)
    return part


def _random_reg(rng, n, lo, hi):
    hs = []
    for _ in range(n):
        r = Reg(); r.apply(("new", "A"))
        h = []
        for _ in range(rng.randint(lo, hi)):
            ops = r.enabled()
            op = ops[rng.randrange(len(ops))]
            r.apply(op); h.append(op)
        hs.append(("reg", h))
    return hs


def run(res, tier, seed):
    quick = tier == "quick"
    nproc = max(1, min(14, (os.cpu_count() or 2) - 2))
    rdepth = 3 if quick else 4
    idepth = 2 if quick else 3
    res.bound = ("registry: histories of length <= %d after an initial model 'A' over new / read / rename(+-rename_old) / close / "
                 "edit / implicit-current-model ops, <= 3 models open (+ one auto-named model more), names {auto, A, B, C, next backup name of A, second next, "
                 "next auto name, second next auto name, own name, invalid}; isolation: 5 set-ups (independent, cross-model reference + bystander, "
                 "both read from one file, name re-used, shared function/list objects) x edit sequences of length <= %d over "
                 "%d edit kinds on either model%s" % (rdepth, idepth, len(EDITS),
                                                     "" if quick else "; plus seeded random registry histories of length 5-8"))
    res.rule = ("exhaustive DFS over the abstract registry model (class Reg) / the edit alphabet, each history replayed on "
                "modelx with the registry and isolation clauses checked after every step; the subtree below a failing prefix "
                "is skipped; every history is non-trivial (>= 1 model is open besides the one operated on, or the registry "
                "clause applies); distinct = distinct executed op sequence")
    deadline = res.t0 + res.budget_s * (0.78 if quick else 0.88)
    tasks = []
    # isolation first (smaller), then registry split on the first two ops
    iso = list(iso_histories(idepth))
    n = max(1, len(iso) // (nproc * 8))
    iso_tasks = [("iso", iso[i:i + n], deadline) for i in range(0, len(iso), n)]
    iso_tasks = [iso_tasks[j] for i in range(8) for j in range(i, len(iso_tasks), 8)]     # spread the set-ups
    r0 = Reg(); r0.apply(("new", "A"))
    def reg_tasks_for(depth):
        by1 = []
        for op1 in r0.enabled():
            r1 = r0.copy(); r1.apply(op1)
            by1.append([("reg", (depth, [op1, op2]), deadline) for op2 in r1.enabled()])
        ts = []                                 # interleaved: an unfinished run has touched every first operation
        while any(by1):
            for l in by1:
                if l:
                    ts.append(l.pop(0))
        return ts
    if quick:
        groups = [("isolation histories (length <= %d)" % idepth, iso_tasks),
                  ("registry histories of length <= 3", reg_tasks_for(3))]
    else:
        rt = []
        for i in range(nproc * 2):
            rng = random.Random("%d/%d" % (seed, i))
            rt.append(("list", _random_reg(rng, 1500, 5, 8), deadline))
        groups = [("registry histories of length <= 3", reg_tasks_for(3)),
                  ("random registry histories of length 5-8", rt),
                  ("isolation histories (length <= %d)" % idepth, iso_tasks),
                  ("registry histories of length 4", reg_tasks_for(4))]
    reported = set()
    ctx = mp.get_context("fork")
    all_complete = True
    with ctx.Pool(nproc) as pool:
        # the first groups are queued one after the other, the last two alternately (both progress when time is short)
        nseq = len(groups) if quick else len(groups) - 2
        pending = [(label, []) for label, _ in groups]
        for gi in range(nseq):
            pending[gi][1].extend(pool.apply_async(_worker, (t,)) for t in groups[gi][1])
        rest = [list(ts) for _, ts in groups[nseq:]]
        while any(rest):
            for j, ts in enumerate(rest):
                if ts:
                    pending[nseq + j][1].append(pool.apply_async(_worker, (ts.pop(0),)))
        for label, asyncs in pending:
            complete = True; n_eval = 0
            for ar in asyncs:
                part = ar.get()
                n_eval += part["evaluations"]
                res.evaluations += part["evaluations"]
                res._distinct |= part["distinct"]
                for f in part["failures"]:
                    if f["case"] in reported:
                        continue
                    reported.add(f["case"])
                    res.fail(f["tags"], f["what"], script=f["script"], case=f["case"])
                for s in part["samples"]:
                    res.sample(s)
                complete = complete and part["complete"]
            res.notes.append("%s: %d histories, %s" % (label, n_eval, "finished" if complete else "NOT finished (time budget)"))
            all_complete = all_complete and complete
    res.exhaustive = all_complete


if __name__ == "__main__":
    main("C19", run)
