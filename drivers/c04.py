"""C04 - write/read round trip (directory and zip) reproduces the model.  Bounded stand-in driver.

A *case* is a recipe: a list of blocks (python statements on the public modelx API, feature tags).  The
contract evaluated on the model the recipe builds (c04_lib.evaluate):

  Describe(read(write(m))) = Describe(m)      for the directory and the zip, read under a new name with the
                                              original still open, read under the written name in a fresh
                                              session, and along write-read-write-read chains that cross
                                              containers;
  every cells returns the same values (an independent evaluation plan run on the original and each copy);
  Describe(m) is unchanged by writing, m.path is the destination;
  directory listing = zip member list, text members equal (object ids masked);
  write(read(write(m))) = write(m) on file names and text contents (ids and the model name masked);
  a model written without error is readable.

Describe = the public description listed in the statement (c04_lib.describe).  Nothing but the statement
is used as oracle; known defects are not special-cased.
"""
from common import *
import c04_lib as L
import multiprocessing as mp
import tempfile, shutil

M0 = ['m = mx.new_model("M")']

# ------------------------------------------------------------------------------------ vocabulary
DIVIDER = "# " + "-" * 75
DOCS = [
    ("plain", "plain doc"),
    ("squote", "it's"),
    ("dquote-inside", 'say "hi" there'),
    ("ends-dquote", 'ends with quote"'),
    ("triple-dquote", 'has """ inside'),
    ("triple-squote", "has ''' inside"),
    ("backslash", "back\\slash"),
    ("backslash-escape", "esc\\n and \\t seq"),
    ("ends-backslash", "ends with backslash\\"),
    ("multiline", "first line\n\nthird line\nfourth"),
    ("indented-multiline", "first\n    indented\n  less"),
    ("non-ascii", "na\u00efve \u00dcn\u00ef \u2013 \u6f22\u5b57 \U0001F600"),
    ("leading-space", "  padded  "),
    ("trailing-newline", "ends with newline\n"),
    ("leading-newline", "\nstarts with newline"),
    ("tab", "tab\there"),
    ("crlf", "dos\r\nline"),
    ("hash", "# not a comment"),
    ("code-like", "_is_cached = False\n_allow_none = True\nx = ('Pickle', 1)"),
    ("divider-like", "before\n" + DIVIDER + "\n# References\nafter"),
]
DOCS_QUICK_SECONDARY = {"plain", "ends-dquote", "triple-dquote", "backslash-escape", "multiline", "non-ascii", "divider-like"}

# reference values: (kind, expression, class)
REFVALS = [
    ("int0", "0", "lit"), ("int", "7", "lit"), ("negint", "-3", "lit"), ("bigint", "2**70", "lit"),
    ("float", "1.5", "lit"), ("negfloat", "-2.5", "lit"), ("smallfloat", "1e-07", "lit"), ("bigfloat", "1e+22", "lit"),
    ("inf", 'float("inf")', "lit"), ("neginf", 'float("-inf")', "lit"), ("nan", 'float("nan")', "lit"),
    ("negzero", "-0.0", "lit"), ("true", "True", "lit"), ("false", "False", "lit"), ("none", "None", "lit"),
    ("str", '"abc"', "lit"), ("str-empty", '""', "lit"), ("str-dquote", "'q\"uote\"'", "lit"),
    ("str-squote", '"it\'s"', "lit"), ("str-backslash", '"back\\\\slash\\\\n"', "lit"), ("str-newline", '"two\\nlines"', "lit"),
    ("str-nonascii", '"\u00fcn\u00ef \u6f22 \U0001F600"', "lit"), ("str-true", '"True"', "lit"),
    ("str-tuple-like", '\'("Pickle", 1)\'', "lit"), ("str-hash", '"# x"', "lit"), ("str-lambda", '"lambda x: x"', "lit"),
    ("str-control", '"bell\\x07nul\\x00"', "lit"), ("str-u2028", '"line\\u2028sep"', "lit"),
    ("list", "[1, 2, (3, 4)]", "pkl"), ("tuple", '(1, "a", None)', "pkl"), ("dict", '{"k": [1, 2], 3: "v"}', "pkl"),
    ("set", "{1, 2, 3}", "pkl"), ("bytes", 'b"\\x00\\xffbytes"', "pkl"), ("complex", "3+4j", "pkl"),
    ("box", 'Box(1, "x")', "pkl"), ("nested-box", "Box([Box(1)], {\"k\": (1, 2)})", "pkl"), ("range", "range(3)", "pkl"),
    ("decimal", '__import__("decimal").Decimal("1.50")', "pkl"), ("date", '__import__("datetime").date(2020, 2, 29)', "pkl"),
    ("ndarray", '__import__("numpy").array([[1.5, 2.0], [3.0, 4.0]])', "pkl"),
    ("dataframe", '__import__("pandas").DataFrame({"a": [1, 2], "b": ["x", "y"]})', "pkl"),
    ("series", '__import__("pandas").Series([1.0, 2.0], index=["p", "q"], name="s")', "pkl"),
    ("empty-list", "[]", "pkl"), ("empty-tuple", "()", "pkl"),
    ("module", "math", "mod"), ("module-dotted", '__import__("os").path', "mod"),
    ("builtin-func", "len", "pkl"), ("module-func", "math.sqrt", "pkl"),
    ("list-of-mx", "[S.f, C, m]", "mxin"), ("box-of-mx", "Box(S.f, T)", "mxin"), ("dict-of-mx", '{"k": T.t, "c": C.g}', "mxin"),
    ("mx:model", "m", "obj"), ("mx:space-self-or-parent", "S", "obj"), ("mx:space-child", "C", "obj"),
    ("mx:space-other", "T", "obj"), ("mx:cells-S", "S.f", "obj"), ("mx:cells-nested", "C.g", "obj"), ("mx:cells-other", "T.t", "obj"),
]
REF_SCAFFOLD = [
    'S = m.new_space("S")', 'C = S.new_space("C")', 'T = m.new_space("T")',
    'S.new_cells("f", formula="lambda x: x + 1")', 'C.new_cells("g", formula="def g(x):\\n    return 2 * x")',
    'T.new_cells("t", formula="lambda: 5")',
]


def block(lines, *tags):
    return (list(lines), tuple(tags))


def case(group, key, blocks, eval_first=False, random=False):
    return {"group": group, "key": (group,) + tuple(key) + (("eval-first",) if eval_first else ()), "blocks": blocks,
            "eval_first": eval_first, "random": random, "chains": True}


def doc_literal_styles(doc):
    out = [("repr", repr(doc))]
    if '"""' not in doc and "\\" not in doc and not doc.endswith('"') and "\r" not in doc:
        out.append(("triple", '"""' + doc + '"""'))
    return out


def cells_block(var, holder, name, form, cached, allow_none, doc, docway, body="None if x == 3 else x + 1"):
    by_setter = cached == "setter"
    cached = cached is True
    """Lines creating one cells with the given attributes; tags name the attributes."""
    tags = ["cells:" + form]
    lines = []
    if form == "lambda":
        src = "lambda x: " + body
    elif form == "def":
        src = "def %s(x):\n" % name
        if doc is not None and docway.startswith("source"):
            lit = dict(doc_literal_styles(doc[1]))[docway.split("-")[1]]
            src += "    " + lit + "\n"
        src += "    return " + body
    lines.append("%s = %s.new_cells(%r, formula=%r%s)" % (var, holder, name, src, "" if cached or by_setter else ", is_cached=False"))
    if by_setter:
        lines.append("%s.is_cached = False" % var)
        tags.append("uncached-by:setter")
    if not cached:
        tags.append("uncached")
    if allow_none is not None:
        lines.append("%s.allow_none = %r" % (var, allow_none))
        tags.append("allow_none:%s" % allow_none)
    if doc is not None:
        tags += ["doc:" + doc[0], "doc-at:cells-" + form, "doc-by:" + docway]
        if docway == "set":
            lines.append("%s.doc = %r" % (var, doc[1]))
    return block(lines, *tags)


def gen_cells_attrs(tier):
    """G1: lambda/def x cached x allow_none x doc (x the way the doc got there)."""
    scaffold = block(M0 + ['S = m.new_space("S")'])
    for form in ("lambda", "def"):
        for cached in (True, False, "setter"):
            for an in (None, True, False):
                for doc in [None] + DOCS:
                    if cached == "setter" and doc is not None and doc[0] != "plain":
                        continue
                    ways = [None] if doc is None else (["set"] if form == "lambda" else
                                                       ["set"] + ["source-" + s for s, _ in doc_literal_styles(doc[1])])
                    for way in ways:
                        if tier == "quick" and doc is not None and doc[0] not in DOCS_QUICK_SECONDARY and \
                                (an is False or (form == "def" and way != "set" and not cached)):
                            continue
                        b = cells_block("c", "S", "f", form, cached, an, doc, way)
                        yield case("cells-attrs", (form, cached, an, doc[0] if doc else None, way), [scaffold, b])


def gen_docs_at(tier):
    """G2: every doc text on the model, a space, a nested space, at creation or by assignment."""
    for name, text in DOCS:
        for where in ("model", "space", "nested-space"):
            lines = M0 + ['S = m.new_space("S")', 'C = S.new_space("C")', 'S.new_cells("f", formula="lambda x: x")']
            if where == "model":
                feat = ["m.doc = %r" % text]
            elif where == "space":
                feat = ["S.doc = %r" % text]
            else:
                feat = ["C.doc = %r" % text]
            yield case("docs-at", (name, where), [block(lines), block(feat, "doc:" + name, "doc-at:" + where)])


def ref_block(holder, holdertag, name, kind, expr, cls, mode):
    tags = ["ref:" + kind, "ref-class:" + cls, "ref-at:" + holdertag]
    if mode == "assign":
        lines = ["%s.%s = %s" % (holder, name, expr)]
    else:
        lines = ["%s.set_ref(%r, %s, refmode=%r)" % (holder, name, expr, mode)]
        tags.append("refmode:" + mode)
    return block(lines, *tags)


def gen_refs(tier):
    """G3: every reference value kind x holder (model / space / nested space) x way of setting it."""
    scaffold = block(M0 + REF_SCAFFOLD)
    for kind, expr, cls in REFVALS:
        combos = [("m", "model", "assign")]
        for holder, htag in (("S", "space"), ("C", "nested-space")):
            for mode in ("assign", "auto", "absolute", "relative"):
                combos.append((holder, htag, mode))
        if tier == "quick" and cls in ("lit", "pkl", "mod") and kind not in ("int", "str", "list", "box", "module"):
            combos = [("m", "model", "assign"), ("S", "space", "assign"), ("C", "nested-space", "relative"),
                      ("S", "space", "absolute")]
        for holder, htag, mode in combos:
            yield case("refs", (kind, htag, mode), [scaffold, ref_block(holder, htag, "r", kind, expr, cls, mode)])


TREE = [
    'S = m.new_space("S")', 'C = S.new_space("C")', 'G = C.new_space("G")', 'T = m.new_space("T")', 'D = T.new_space("D")',
    'S.new_cells("f", formula="lambda x: x + 1")', 'C.new_cells("g", formula="lambda x: x + 2")',
    'G.new_cells("h", formula="lambda x: x + 3")', 'T.new_cells("t", formula="lambda x: x + 4")',
    'D.new_cells("d", formula="lambda x: x + 5")',
]
TREE_OBJS = ["m", "S", "C", "G", "T", "D", "S.f", "C.g", "G.h", "T.t", "D.d"]


def gen_objref_matrix(tier):
    """G4: object-valued references: every holder x every target x every mode in a 3-level tree."""
    scaffold = block(M0 + TREE)
    holders = ["m", "S", "C", "G", "T", "D"]
    for h in holders:
        for tg in TREE_OBJS:
            for mode in (("assign",) if h == "m" else ("assign", "absolute", "relative", "auto")):
                if tier == "quick" and mode == "auto":
                    continue
                kind = "cells" if "." in tg else ("model" if tg == "m" else "space")
                tags = ["objref", "holder:" + h, "target:" + tg, "target-kind:" + kind]
                if mode == "assign":
                    lines = ["%s.r = %s" % (h, tg)]
                else:
                    lines = ["%s.set_ref('r', %s, refmode=%r)" % (h, tg, mode)]
                    tags.append("refmode:" + mode)
                # a cells in the holder that uses the reference, so that values depend on it
                if h != "m":
                    use = "r(1)" if kind == "cells" else ("r.name" if kind != "model" else "r is _model")
                    lines.append('%s.new_cells("use", formula="lambda: %s")' % (h, use))
                yield case("objref-matrix", (h, tg, mode), [scaffold, block(lines, *tags)])


def hand(group, key, lines, *tags, eval_both=False):
    yield case(group, key, [block(M0), block(lines, *tags)])
    if eval_both:
        yield case(group, key, [block(M0), block(lines, *tags)], eval_first=True)


def gen_inheritance(tier):
    """G5: inheritance structures (direct bases, order, relative base paths, overrides, derived members)."""
    g = "inheritance"
    B = ['B = m.new_space("B")', 'B.new_cells("f", formula="lambda x: 1")', 'B.new_cells("k", formula="def k(x):\\n    return f(x) + 10")']
    yield from hand(g, ("single",), B + ['D = m.new_space("D", bases=B)'], "inherit:single")
    two = ['B1 = m.new_space("B1")', 'B1.new_cells("f", formula="lambda x: 1")', 'B1.new_cells("only1", formula="lambda: 1")',
           'B2 = m.new_space("B2")', 'B2.new_cells("f", formula="lambda x: 2")', 'B2.new_cells("only2", formula="lambda: 2")']
    yield from hand(g, ("two-bases", "12"), two + ['D = m.new_space("D", bases=[B1, B2])'], "inherit:two-bases", "base-order:declared")
    yield from hand(g, ("two-bases", "21"), two + ['D = m.new_space("D", bases=[B2, B1])'], "inherit:two-bases", "base-order:reversed")
    yield from hand(g, ("two-bases", "add-later"), two + ['D = m.new_space("D")', "D.add_bases(B2)", "D.add_bases(B1)"],
                    "inherit:two-bases", "base-order:added-later")
    yield from hand(g, ("chain",), B + ['D = m.new_space("D", bases=B)', 'E = m.new_space("E", bases=D)',
                                       'D.new_cells("mid", formula="lambda: 7")'], "inherit:chain")
    yield from hand(g, ("diamond",), B + ['L = m.new_space("L", bases=B)', 'R = m.new_space("R", bases=B)',
                                         'R.f.formula = "lambda x: 3"', 'X = m.new_space("X", bases=[L, R])'], "inherit:diamond")
    yield from hand(g, ("sub-declared-before-base",), ['D = m.new_space("D")'] + B + ["D.add_bases(B)"], "inherit:sub-first")
    yield from hand(g, ("sub-sorts-before-base",), ['Z = m.new_space("Z")', 'Z.new_cells("f", formula="lambda x: 1")',
                                                   'A = m.new_space("A", bases=Z)'], "inherit:sub-first")
    # relative base paths
    yield from hand(g, ("base-nested-sibling",), ['P = m.new_space("P")', 'B = P.new_space("B")', 'B.new_cells("f", formula="lambda x: 1")',
                                                 'D = P.new_space("D", bases=B)'], "inherit:nested", "base-path:sibling")
    yield from hand(g, ("base-in-other-parent",), ['P = m.new_space("P")', 'B = P.new_space("B")', 'B.new_cells("f", formula="lambda x: 1")',
                                                  'Q = m.new_space("Q")', 'D = Q.new_space("D", bases=B)'], "inherit:nested", "base-path:other-parent")
    yield from hand(g, ("base-top-sub-nested",), B + ['Q = m.new_space("Q")', 'W = Q.new_space("W")', 'D = W.new_space("D", bases=B)'],
                    "inherit:nested", "base-path:top-from-depth-2")
    yield from hand(g, ("base-deeper-than-sub",), ['P = m.new_space("P")', 'Q = P.new_space("Q")', 'B = Q.new_space("B")',
                                                  'B.new_cells("f", formula="lambda x: 1")', 'D = m.new_space("D", bases=B)'],
                    "inherit:nested", "base-path:deeper")
    yield from hand(g, ("base-same-name-elsewhere",), ['P = m.new_space("P")', 'B = P.new_space("X")', 'B.new_cells("f", formula="lambda x: 1")',
                                                      'Q = m.new_space("Q")', 'D = Q.new_space("X", bases=B)'], "inherit:nested", "base-path:same-name")
    yield from hand(g, ("base-is-uncle-with-child",), ['P = m.new_space("P")', 'B = m.new_space("B")', 'B.new_cells("f", formula="lambda x: 1")',
                                                      'K = B.new_space("K")', 'K.new_cells("kk", formula="lambda: 2")',
                                                      'D = P.new_space("D", bases=B)'], "inherit:nested", "base-path:uncle")
    # overrides and derived members
    for form, src in (("lambda", "lambda x: 2"), ("def", "def f(x):\\n    return 2")):
        for extra, tag in (([], None), (["D.f.is_cached = False"], "uncached")):
            yield from hand(g, ("override", form, tag), B + ['D = m.new_space("D", bases=B)', 'D.f.formula = "%s"' % src] + extra,
                            "inherit:override", "cells:" + form, *([tag, "uncached-by:setter"] if tag else []))
    yield from hand(g, ("derived-cells-uncached-by-setter",), B + ['D = m.new_space("D", bases=B)', "D.f.is_cached = False", "D.k.is_cached = False"],
                    "inherit:override-flag", "cells:lambda", "cells:def", "uncached", "uncached-by:setter")
    yield from hand(g, ("derived-cells-allow_none",), B + ['D = m.new_space("D", bases=B)', "D.k.allow_none = True", "D.f.allow_none = False"],
                    "inherit:single", "derived-cells", "allow_none-on-derived")
    yield from hand(g, ("override-by-formula-assignment",), B + ['D = m.new_space("D", bases=B)', 'D.f.formula = "lambda x: 5"'], "inherit:override-assign")
    yield from hand(g, ("base-uncached",), ['B = m.new_space("B")', 'B.new_cells("f", formula="lambda x: 1", is_cached=False)',
                                           'B.new_cells("h", formula="def h(x):\\n    return 1", is_cached=False)',
                                           'D = m.new_space("D", bases=B)'], "inherit:single", "uncached", "derived-cells", "cells:lambda", "cells:def")
    yield from hand(g, ("base-allow-none",), ['B = m.new_space("B")', 'c = B.new_cells("f", formula="lambda x: None")', "c.allow_none = True",
                                             'D = m.new_space("D", bases=B)'], "inherit:single", "allow_none:True", "derived-cells")
    yield from hand(g, ("base-cells-doc",), ['B = m.new_space("B")', 'c = B.new_cells("f", formula="lambda x: 1")', 'c.doc = "lambda doc"',
                                            'B.new_cells("h", formula="def h(x):\\n    \'def doc\'\\n    return 1")',
                                            'D = m.new_space("D", bases=B)'], "inherit:single", "doc:plain", "derived-cells")
    yield from hand(g, ("derived-cells-input",), B + ['D = m.new_space("D", bases=B)', "D.f[1] = 5"], "inherit:single", "derived-cells", "input")
    yield from hand(g, ("base-cells-input",), B + ["B.f[1] = 5", 'D = m.new_space("D", bases=B)'], "inherit:single", "base-cells", "input")
    yield from hand(g, ("sub-space-allow-none",), ['B = m.new_space("B")', 'B.new_cells("f", formula="lambda x: None")', "B.allow_none = True",
                                                  'D = m.new_space("D", bases=B)', 'E = m.new_space("E", bases=B)', "E.allow_none = False"],
                    "inherit:single", "space-allow_none")
    # the base is edited after the sub space was derived
    for tag, edit in (("allow_none-true", ["B.f.allow_none = True", "B.k.allow_none = True"]), ("allow_none-false", ["m.allow_none = True", "B.f.allow_none = False"]),
                      ("uncached-lambda", ["B.f.is_cached = False"]), ("uncached-def", ["B.k.is_cached = False"]), ("doc", ['B.f.doc = "late doc"', 'B.k.doc = "late doc"']),
                      ("formula", ['B.f.formula = "lambda x: None"', 'B.k.formula = "def k(x):\\n    return None"']),
                      ("space-allow_none", ["B.allow_none = True", 'B.f.formula = "lambda x: None"']),
                      ("new-cells", ['B.new_cells("late", formula="lambda x: None")', "B.late.allow_none = True"]),
                      ("ref", ["B.x = 1", "B.x = 2", "B.y = B.f"]), ("rename", ['B.f.rename("f2")']), ("input", ["B.f[1] = 5"])):
        more = {"uncached-lambda": ("cells:lambda", "uncached"), "uncached-def": ("cells:def", "uncached")}.get(tag, ())
        yield from hand(g, ("base-edited-after-derivation", tag), B + ['D = m.new_space("D", bases=B)'] + edit,
                        "inherit:single", "base-edit-after-derive:" + tag, *more)
    # references through inheritance
    for mode in ("auto", "absolute", "relative"):
        yield from hand(g, ("base-objref", mode), B + ['B.set_ref("r", B.f, refmode=%r)' % mode, 'B.new_cells("use", formula="lambda: r(1)")',
                                                     'D = m.new_space("D", bases=B)', 'D.f.formula = "lambda x: 2"'],
                        "inherit:single", "derived-ref", "objref", "refmode:" + mode)
        yield from hand(g, ("base-selfref", mode), B + ['B.set_ref("me", B, refmode=%r)' % mode, 'D = m.new_space("D", bases=B)'],
                        "inherit:single", "derived-ref", "objref-self", "refmode:" + mode)
    yield from hand(g, ("base-literal-ref",), B + ["B.x = 3", 'B.lst = [1, 2]', 'D = m.new_space("D", bases=B)'], "inherit:single", "derived-ref")
    yield from hand(g, ("sub-overrides-ref",), B + ["B.x = 3", 'D = m.new_space("D", bases=B)', "D.x = 4"], "inherit:single", "ref-override")
    yield from hand(g, ("sub-overrides-objref",), B + ["B.x = B.f", 'D = m.new_space("D", bases=B)', "D.x = B.k"], "inherit:single", "ref-override", "objref")
    yield from hand(g, ("removed-base",), two + ['D = m.new_space("D", bases=[B1, B2])', "D.remove_bases(B1)"], "inherit:removed-base")
    yield from hand(g, ("base-with-params",), ['B = m.new_space("B", formula="lambda i: None")', 'B.new_cells("f", formula="lambda x: x * i")',
                                              'D = m.new_space("D", bases=B)', "B[3].f[1] = 70"],
                    "inherit:single", "params", "itemspace-input", "derived-space", eval_both=True)
    yield from hand(g, ("sub-own-params",), B + ['D = m.new_space("D", bases=B, formula="lambda j: None")', "D[2].f[1] = 50"],
                    "inherit:single", "params", "itemspace-input", "derived-cells")
    yield from hand(g, ("nested-with-nested-base",), ['P = m.new_space("P")', 'B = P.new_space("B")', 'B.new_cells("f", formula="lambda x: y")',
                                                     "P.y = 1", 'Q = m.new_space("Q", bases=P)', 'D = Q.new_space("B2", bases=B)', "Q.y = 2"],
                    "inherit:nested", "inherit:two-levels")


def gen_params(tier):
    """G6: parameter formulas and inputs held inside ItemSpaces."""
    g = "params"
    T = ['T = m.new_space("T", formula=%r)', 'T.new_cells("a", formula="lambda x: x * i")']
    forms = [("lambda-1", "lambda i: None"), ("lambda-default", "lambda i, j=2: None"), ("lambda-spaced", "lambda  i ,j = 2 : None"),
             ("def-_formula", "def _formula(i):\n    return None"), ("def-other-name", "def params(i, j=2):\n    return None"),
             ("def-doc-comment", "def _formula(i):\n    # comment\n    'param doc'\n    return None  # trailing"),
             ("lambda-refs", 'lambda i: {"refs": {"k": i * 2}}'), ("lambda-multiline", "lambda i: (\n    None)"),
             ("def-refs", 'def _formula(i):\n    refs = {"k": i * 2}\n    return {"refs": refs}'),
             ("lambda-annot-like", 'lambda i, s="x: y": None')]
    for tag, f in forms:
        lines = [T[0] % f, T[1]]
        yield from hand(g, ("formula", tag), lines, "param-formula:" + tag)
        yield from hand(g, ("formula", tag, "input"), lines + ["T[1].a[2] = 7"], "param-formula:" + tag, "itemspace-input", eval_both=True)
    yield from hand(g, ("parameters-property",), ['T = m.new_space("T")', 'T.parameters = ("i", "j")', 'T.new_cells("a", formula="lambda x: x * i + j")',
                                                 "T[1, 2].a[3] = 9"], "param-formula:parameters-property", "itemspace-input")
    yield from hand(g, ("formula-set-later",), ['T = m.new_space("T")', 'T.new_cells("a", formula="lambda x: x * i")', 'T.formula = "lambda i: None"',
                                               "T[1].a[3] = 9"], "param-formula:set-later", "itemspace-input")
    yield from hand(g, ("formula-deleted",), ['T = m.new_space("T", formula="lambda i: None")', 'T.new_cells("a", formula="lambda x: x")',
                                             "T[1].a[3] = 9", "del T.formula"], "param-formula:deleted")
    base = [T[0] % "lambda i, j=2: None", T[1]]
    inputs = [
        ("one", ["T[1].a[2] = 7"]),
        ("two-spaces", ["T[1].a[2] = 7", "T[1, 3].a[2] = 8", "T[2].a[0] = 9"]),
        ("two-keys", ["T[1].a[2] = 7", "T[1].a[3] = 8"]),
        ("str-arg", ['T["x"].a[2] = 7']), ("neg-arg", ["T[-1].a[2] = 7"]), ("float-arg", ["T[1.5].a[2] = 7"]),
        ("bool-arg", ["T[True].a[2] = 7"]), ("none-arg", ["T[None].a[2] = 7"]), ("tuple-arg", ["T((1, 2), 3).a[2] = 7"]),
        ("str-value", ['T[1].a[2] = "seven"']), ("list-value", ["T[1].a[2] = [1, [2]]"]), ("box-value", ["T[1].a[2] = Box(1, 2)"]),
        ("mx-value", ["T[1].a[2] = T"]), ("mx-cells-value", ["T[1].a[2] = T.a"]), ("model-value", ["T[1].a[2] = m"]),
        ("str-key", ['T[1].a["k"] = 7']), ("tuple-key", ["T[1].a[((1, 2),)] = 7"]),
        ("same-value-object", ["v = [1, 2]", "T[1].a[2] = v", "T[2].a[2] = v", "T.a[5] = v"]),
        ("static-and-item", ["T.a[2] = 6", "T[1].a[2] = 7"]),
        ("evaluated-item-without-input", ["T[1].a[2] = 7", "T[5].a(1)"]),
    ]
    for tag, ls in inputs:
        yield from hand(g, ("input", tag), base + ls, "itemspace-input", "item-input:" + tag, eval_both=(tag in ("one", "two-spaces", "static-and-item")))
    yield from hand(g, ("input", "none-value"), base + ["m.allow_none = True", "T[1].a[2] = None"], "itemspace-input", "item-input:none-value", "allow_none:True")
    yield from hand(g, ("input", "def-cells"), [T[0] % "lambda i: None", 'T.new_cells("a", formula="def a(x):\\n    return x * i")', "T[1].a[2] = 7"],
                    "itemspace-input", "cells:def")
    yield from hand(g, ("input", "no-formula-cells"), [T[0] % "lambda i: None", 'T.new_cells("a")', "T[1].a[()] = 7"],
                    "itemspace-input", "cells:none")
    nested = ['S = m.new_space("S")', 'C = S.new_space("C", formula="lambda i: None")', 'C.new_cells("a", formula="lambda x: x * i")']
    yield from hand(g, ("itemspace-of-nested",), nested + ["C[1].a[2] = 7"], "itemspace-input", "item-at:nested-space")
    child = ['T = m.new_space("T", formula="lambda i: None")', 'K = T.new_space("K")', 'K.new_cells("b", formula="lambda x: x * i")']
    yield from hand(g, ("static-child-of-itemspace",), child + ["T[1].K.b[2] = 7"], "itemspace-input", "item-at:child-of-itemspace", eval_both=True)
    yield from hand(g, ("static-grandchild-of-itemspace",), child + ['G = K.new_space("G")', 'G.new_cells("c", formula="lambda x: x + i")',
                                                                     "T[1].K.G.c[2] = 7", "T[2].K.b[0] = 1"], "itemspace-input", "item-at:grandchild-of-itemspace")
    yield from hand(g, ("itemspace-in-itemspace",), ['T = m.new_space("T", formula="lambda i: None")', 'K = T.new_space("K", formula="lambda j: None")',
                                                    'K.new_cells("b", formula="lambda x: x * i * j")', "T[1].K[2].b[3] = 7", "T[1].K[4].b[3] = 8",
                                                    "T[5].K[2].b[3] = 9"], "itemspace-input", "item-at:itemspace-in-itemspace", eval_both=True)
    yield from hand(g, ("itemspace-in-static-param-child",), ['T = m.new_space("T")', 'K = T.new_space("K", formula="lambda j: None")',
                                                             'K.new_cells("b", formula="lambda x: x * j")', "K[2].b[3] = 7", "T.K.b[1] = 3"],
                    "itemspace-input", "item-at:nested-space")
    yield from hand(g, ("refs-and-items",), [T[0] % 'lambda i: {"refs": {"k": i * 2}}', 'T.new_cells("a", formula="lambda x: x * k")', "T.k = 1",
                                            "T[1].a[2] = 7"], "itemspace-input", "param-formula:lambda-refs", "dynamic-refs", eval_both=True)
    yield from hand(g, ("item-refs-other-space",), ['S = m.new_space("S")', 'S.new_cells("f", formula="lambda x: x + 1")',
                                                   T[0] % "lambda i: None", T[1], "T.s = S", "T.sf = S.f",
                                                   'T.new_cells("b", formula="lambda x: sf(x) + i")', "T[1].b[2] = 7"], "itemspace-input", "objref")


INPUT_VALUES = [("int", "5"), ("str", '"five"'), ("float-nan", 'float("nan")'), ("none", "None"), ("list", "[1, [2, 3]]"),
                ("box", "Box(1, (2,))"), ("mx-space", "S"), ("mx-cells", "S.other"), ("mx-model", "m"), ("box-of-mx", "Box(S, S.other)"),
                ("big-str", '"x" * 3000 + "\\u6f22"')]
INPUT_KEYS1 = [("int", "1"), ("zero", "0"), ("neg", "-1"), ("str", '"k"'), ("str-nonascii", '"\\u6f22"'), ("float", "1.5"), ("bool", "True"),
               ("none", "None"), ("mx-space", "S"), ("box-like-tuple-in-2", None)]


def gen_inputs(tier):
    """G7: input values of cells: arity x formula form x value kind, and key kinds."""
    g = "inputs"
    scaffold = M0 + ['S = m.new_space("S")', 'S.new_cells("other", formula="lambda x: 2 * x")']
    forms = {"lambda": 'c = S.new_cells("c", formula="lambda %s: 1")', "def": 'c = S.new_cells("c", formula="def c(%s):\\n    return 1")',
             "none": None}
    for arity, params, key in ((0, "", "()"), (1, "x", "1"), (2, "x, y", "(1, 2)"), (3, "x, y=2, z=3", "(1, 2, 3)")):
        for form, tmpl in forms.items():
            if form == "none":
                if arity == 0:
                    mk = 'c = S.new_cells("c")'
                else:
                    continue
            else:
                mk = tmpl % params
            for vk, vexpr in INPUT_VALUES:
                lines = [mk]
                tags = ["input", "cells:" + form, "arity:%d" % arity, "input-value:" + vk]
                if vk == "none":
                    lines.append("c.allow_none = True")
                    tags.append("allow_none:True")
                lines.append("c[%s] = %s" % (key, vexpr))
                yield case(g, (arity, form, vk), [block(scaffold), block(lines, *tags)], eval_first=(vk == "int"))
    for kk, kexpr in INPUT_KEYS1:
        if kexpr is None:
            continue
        lines = ['c = S.new_cells("c", formula="lambda x: 1")', "c[%s] = 5" % kexpr]
        yield case(g, ("key", kk), [block(scaffold), block(lines, "input", "input-key:" + kk)])
    multi = ['c = S.new_cells("c", formula="lambda x, y: x + y")', "c[1, 2] = 10", 'c["a", None] = 11', "c[1, (2, 3)] = 12", "c[1.5, -1] = 13"]
    yield case(g, ("multi-keys",), [block(scaffold), block(multi, "input", "input-key:mixed-2")])
    several = ['c = S.new_cells("c", formula="lambda x: c(x - 1) + 1 if x > 0 else 0")', "c[0] = 100", "c[2] = 200",
               'd = S.new_cells("d", formula="def d(x):\\n    return c(x) * 2")', "d[3] = -1"]
    yield case(g, ("several",), [block(scaffold), block(several, "input", "input:several-cells")])
    yield case(g, ("several",), [block(scaffold), block(several, "input", "input:several-cells")], eval_first=True)
    shared = ["v = [1, 2]", 'c = S.new_cells("c", formula="lambda x: 1")', 'd = S.new_cells("d", formula="lambda x: 1")', "c[1] = v", "d[1] = v", "S.v = v"]
    yield case(g, ("shared-object",), [block(scaffold), block(shared, "input", "input:shared-object")])
    over = ['c = S.new_cells("c", formula="lambda x: x")', "c(1)", "c(2)", "c[2] = 20"]
    yield case(g, ("input-over-computed",), [block(scaffold), block(over, "input", "input:over-computed")])
    nested = ['C = S.new_space("C")', 'G = C.new_space("G")', 'c = G.new_cells("c", formula="lambda x: 1")', "c[1] = 5", 'C.new_cells("c", formula="lambda x: 2")', "C.c[1] = 6"]
    yield case(g, ("nested-spaces",), [block(scaffold), block(nested, "input", "input:nested-space")])
    same = ['T = m.new_space("T")', 'T.new_cells("c", formula="lambda x: 1")', 'S.new_cells("c", formula="lambda x: 1")', "T.c[1] = 5", "S.c[1] = 6", "S.c[2] = 5"]
    yield case(g, ("same-name-two-spaces",), [block(scaffold), block(same, "input", "input:same-cells-name")])


SYNTAX = [
    ("def-oneline", "def {n}(x): return x + 1"),
    ("def-oneline-semicolon", "def {n}(x): y = x; return y + 1"),
    ("def-trailing-comment-last-line", "def {n}(x):\n    return x + 1  # last"),
    ("def-comment-lines", "def {n}(x):\n    # leading\n    y = x  # trailing\n    # last line comment\n    return y + 1"),
    ("def-comment-after-body", "def {n}(x):\n    return x + 1\n    # dangling comment"),
    ("def-blank-lines", "def {n}(x):\n\n    y = x\n\n\n    return y + 1"),
    ("def-nested-def", "def {n}(x):\n    def inner(z):\n        return z + 1\n    return inner(x)"),
    ("def-nested-lambda-class", "def {n}(x):\n    class K:\n        v = 1\n    g = lambda z: z + K.v\n    return g(x)"),
    ("def-defaults", "def {n}(x, y=2, z='s'):\n    return x + y"),
    ("def-annotations", "def {n}(x: int, y: 'str' = 2) -> int:\n    return x + y"),
    ("def-multiline-signature", "def {n}(x,\n        y=2):\n    return (x +\n            y)"),
    ("def-multiline-string", "def {n}(x):\n    s = '''a\nb # no comment\n'''\n    return len(s) + x"),
    ("def-string-divider", "def {n}(x):\n    s = '''\n" + DIVIDER + "\n# References\n'''\n    return x + 1"),
    ("def-comment-divider", "def {n}(x):\n    " + DIVIDER + "\n    # References\n    return x + 1"),
    ("def-docstring-then-comment", "def {n}(x):\n    \"\"\"doc\"\"\"\n    # comment\n    return x + 1"),
    ("def-tabs", "def {n}(x):\n\treturn x + 1"),
    ("def-comprehension", "def {n}(x):\n    return sum(i for i in range(x)) + len([j for j in (1, 2) if j > x])"),
    ("def-backslash-continuation", "def {n}(x):\n    return x + \\\n        1"),
    ("def-try-except", "def {n}(x):\n    try:\n        return 1 // x\n    except ZeroDivisionError:\n        return -1"),
    ("def-non-ascii", "def {n}(x):\n    return '\u6f22' * x  # \u00fc"),
    ("def-calls-sibling", "def {n}(x):\n    return sib(x) + gref"),
    ("def-recursive", "def {n}(x):\n    return {n}(x - 1) + 1 if x > 0 else 0"),
    ("def-string-looks-like-props", "def {n}(x):\n    return x\n    _is_cached = False"),
    ("lambda-simple", "lambda x: x + 1"),
    ("lambda-default", "lambda x, y=2: x + y"),
    ("lambda-parenthesised-multiline", "lambda x: (x +\n    1)"),
    ("lambda-string-hash", "lambda x: '# no comment' * x"),
    ("lambda-nested", "lambda x: (lambda y: y + 1)(x)"),
    ("lambda-conditional", "lambda x: 1 if x else 2"),
    ("lambda-dict-colon", "lambda x: {'a': x, 'b': [x][0:1]}['a']"),
    ("lambda-noargs", "lambda: 5"),
    ("lambda-non-ascii", "lambda x: '\u6f22' * x"),
    ("lambda-calls-sibling", "lambda x: sib(x) + gref"),
    ("lambda-string-triple", "lambda x: '''t\"\"\"q''' * x"),
    ("lambda-trailing-string", "lambda x: 'doc-like'"),
    ("none", None),
]
FOLLOWERS = [
    ("alone", []),
    ("then-lambda-with-doc-and-props", ['z = S.new_cells("zz", formula="lambda x: None")', 'z.doc = "z doc"', "z.allow_none = True"]),
    ("then-def-uncached", ['S.new_cells("zz", formula="def zz(x):\\n    return x", is_cached=False)']),
    ("then-lambda-plain", ['S.new_cells("zz", formula="lambda x: x")']),
]


def gen_syntax(tier):
    """G8: formula texts with varied syntax x what follows the cells in the written file x flags on the cells."""
    g = "syntax"
    scaffold = M0 + ['S = m.new_space("S")', 'S.new_cells("sib", formula="lambda x: x * 2")', "S.gref = 100"]
    for tag, text in SYNTAX:
        for ftag, follow in FOLLOWERS:
            for flags in ("plain", "uncached+allow_none"):
                if tier == "quick" and flags != "plain" and ftag not in ("alone", "then-lambda-with-doc-and-props"):
                    continue
                if text is None:
                    lines = ['c = S.new_cells("aa")']
                else:
                    lines = ['c = S.new_cells("aa", formula=%r%s)' % (text.replace("{n}", "aa"), ", is_cached=False" if flags != "plain" else "")]
                tags = ["syntax:" + tag, "followed:" + ftag, "cells:" + ("none" if text is None else "lambda" if text.startswith("lambda") else "def")]
                if flags != "plain":
                    if text is None:
                        continue
                    lines.append("c.allow_none = False")
                    tags += ["uncached", "allow_none:False"]
                yield case(g, (tag, ftag, flags), [block(scaffold), block(lines + follow, *tags)])


def gen_model_level(tier):
    """G9: model/space level properties and names."""
    g = "model-level"
    for man in (None, True, False):
        for san in (None, True, False):
            for can in (None, True, False):
                lines = ['S = m.new_space("S")', 'C = S.new_space("C")', 'c = C.new_cells("c", formula="lambda x: None if x else 1")',
                         'S.new_cells("d", formula="def d(x):\\n    return None")']
                tags = ["allow_none-chain"]
                if man is not None:
                    lines.append("m.allow_none = %r" % man); tags.append("model-allow_none:%s" % man)
                if san is not None:
                    lines.append("S.allow_none = %r" % san); tags.append("space-allow_none:%s" % san)
                if can is not None:
                    lines.append("c.allow_none = %r" % can); tags.append("allow_none:%s" % can)
                yield from hand(g, ("allow_none", man, san, can), lines, *tags)
    yield from hand(g, ("empty-model",), [], "empty-model")
    yield from hand(g, ("empty-space",), ['m.new_space("S")'], "empty-space")
    yield from hand(g, ("non-ascii-names",), ['S = m.new_space("Sp\u00e4ce")', 'S.new_cells("z\u00e9ro", formula="lambda x: x")',
                                             'S.new_cells("\u6f22", formula="def \u6f22(x):\\n    return x")', 'S.r\u00e9f = 1', "S.z\u00e9ro[1] = 2",
                                             'K = S.new_space("\u5b50", formula="lambda i: None")', 'K.new_cells("k", formula="lambda x: i")',
                                             "K[1].k[2] = 3", "S.o = K"], "names:non-ascii")
    yield from hand(g, ("keyword-like-names",), ['S = m.new_space("lambda_")', 'S.new_cells("def_", formula="lambda x: x")', 'S.new_cells("None_", formula="lambda: 1")',
                                                "S.True_ = 1", 'm.new_space("bases")', 'm.new_space("cells")'], "names:keyword-like")
    yield from hand(g, ("many-spaces-order",), ['m.new_space("Zed")', 'm.new_space("Alpha")', 'M2 = m.new_space("Mid")', 'M2.new_space("Zz")', 'M2.new_space("Aa")'],
                    "names:order")
    yield from hand(g, ("deep-nesting",), ['a = m.new_space("A")', 'b = a.new_space("B")', 'c = b.new_space("C")', 'd = c.new_space("D")',
                                          'd.new_cells("f", formula="lambda x: x")', "d.f[1] = 2", "d.up = a", "a.down = d.f", 'd.set_ref("rel", b, refmode="relative")'],
                    "deep-nesting", "objref")
    yield from hand(g, ("global-ref-shadowed",), ["m.x = 1", 'S = m.new_space("S")', "S.x = 2", 'S.new_cells("f", formula="lambda: x")',
                                                 'T = m.new_space("T")', 'T.new_cells("f", formula="lambda: x")'], "global-ref", "ref-shadow")
    yield from hand(g, ("global-refs-many",), ["m.a = 1", 'm.b = "s"', "m.c = [1]", "m.d = None", 'S = m.new_space("S")', "m.e = S", "m.mth = math",
                                              'S.new_cells("f", formula="lambda: (a, b, c, d, e.name, mth.pi)")'], "global-ref")
    yield from hand(g, ("deleted-members",), ['S = m.new_space("S")', 'S.new_cells("f", formula="lambda x: x")', 'S.new_cells("g", formula="lambda x: x")', "S.x = 1", "S.y = 2",
                                             'T = m.new_space("T")', "del S.g", "del S.y", "del m.T", "S.f[1] = 3", "S.f.clear()"], "deleted-members")
    yield from hand(g, ("renamed-members",), ['S = m.new_space("S")', 'c = S.new_cells("f", formula="def f(x):\\n    return x")', 'c.rename("g")', 'S.rename("S2")', "c[1] = 5",
                                             'T = m.new_space("T", bases=S)'], "renamed-members")
    yield from hand(g, ("copied-space",), ['S = m.new_space("S")', 'S.new_cells("f", formula="def f(x):\\n    return x")', "S.x = [1]", "S.f[1] = 3",
                                          'S.copy(m, "S2")'], "copied-space")
    yield from hand(g, ("sorted-cells",), ['S = m.new_space("S")', 'S.new_cells("b", formula="lambda: 1")', 'S.new_cells("a", formula="lambda: 2")', "S.sort_cells()"], "sorted-cells")


PREFIX_PAIRS = [("c1", "c10"), ("prem", "prem_rate"), ("d", "data")]


def gen_name_prefixes(tier):
    """G10: sibling names of which one is a proper string PREFIX of the other (c1 / c10, prem / prem_rate, S / S1,
    r / r1), where the members differ in what the writer stores for them (input values, pickled values, child
    directories).  A container that is queried by path must keep the two apart: every per-name file or
    directory of the one exists next to none (or a different one) of the other."""
    g = "name-prefix"
    F = {"short": "lambda x: x + 1", "long": "def %s(x):\\n    return 2 * x"}
    holders_all = ("long", "short", "both", "none")
    for short, long_ in PREFIX_PAIRS:
        secondary = tier == "quick" and (short, long_) != PREFIX_PAIRS[0]
        mk = {"short": '%%s.new_cells(%r, formula="%s")' % (short, F["short"]),
              "long": '%%s.new_cells(%r, formula="%s")' % (long_, F["long"] % long_)}
        name = {"short": short, "long": long_}

        def inputs(holder, sp, value="%d"):
            ks = {"long": ["long"], "short": ["short"], "both": ["long", "short"], "none": []}[holder]
            return ["%s.%s[%d] = %s" % (sp, name[k], i + 1, value % (50 + i) if "%" in value else value)
                    for k in ks for i in range(2)]

        # -- a. both cells defined in one space; who holds inputs x creation order
        for holder in holders_all:
            for order in (("short", "long"), ("long", "short")):
                if secondary and (holder == "none" or order[0] == "long"):
                    continue
                lines = ['S = m.new_space("S")'] + [mk[k] % "S" for k in order] + inputs(holder, "S")
                yield from hand(g, ("cells", short, holder, order[0] + "-first"), lines,
                                "name-prefix:cells", "prefix-data-in:" + holder, "prefix-order:%s-first" % order[0],
                                "cells:lambda", "cells:def", *(["input"] if holder != "none" else []),
                                eval_both=(holder == "long" and not secondary))
        # -- b. pickled (non literal) input values, three names in a chain, a third cells between them
        if not secondary:
            for holder in ("long", "short"):
                lines = (['S = m.new_space("S")', mk["short"] % "S", 'S.new_cells("mid", formula="lambda x: 0")', mk["long"] % "S"]
                         + inputs(holder, "S", value="Box([1, 2], S)"))
                yield from hand(g, ("cells-pickled-input", short, holder), lines, "name-prefix:cells", "prefix-data-in:" + holder,
                                "input", "input-value:box-of-mx")
            lines = ['S = m.new_space("S")'] + ['S.new_cells(%r, formula="lambda x: x + %d")' % (short + "0" * i, i) for i in range(3)]
            for k in range(3):
                yield from hand(g, ("cells-chain", short, k), lines + ["S.%s[1] = 7" % (short + "0" * k)],
                                "name-prefix:cells", "prefix-chain", "prefix-data-in:%d-of-3" % k, "input")
        # -- c. derived cells: the pair is defined in a base; inputs in the base / in the sub / in an overriding cells of the sub
        for where in ("sub", "base", "sub-override", "base-and-sub"):
            for holder in (("long", "short") if secondary else ("long", "short", "both")):
                lines = ['B = m.new_space("B")', mk["short"] % "B", mk["long"] % "B"]
                tags = ["name-prefix:cells", "derived-cells", "inherit:single", "prefix-data-in:" + holder, "prefix-data-at:" + where, "input"]
                if where == "base":
                    lines += inputs(holder, "B") + ['D = m.new_space("D", bases=B)']
                elif where == "sub":
                    lines += ['D = m.new_space("D", bases=B)'] + inputs(holder, "D")
                elif where == "base-and-sub":       # the base holds inputs for the one, the sub for the other name
                    other = {"long": "short", "short": "long", "both": "both"}[holder]
                    lines += inputs(holder, "B") + ['D = m.new_space("D", bases=B)'] + inputs(other, "D", value="%d + 100")
                else:                                # the holder(s) are overridden (defined) in the sub, the other one stays derived
                    lines += ['D = m.new_space("D", bases=B)']
                    for k in (["long", "short"] if holder == "both" else [holder]):
                        lines.append('D.%s.formula = "lambda x: 3 * x"' % name[k])
                    lines += inputs(holder, "D")
                    tags.append("inherit:override")
                yield from hand(g, ("derived", short, where, holder), lines, *tags)
        # -- d. inputs held inside ItemSpaces (and next to static inputs)
        for holder in ("long", "short"):
            if secondary and holder == "short":
                continue
            lines = ['T = m.new_space("T", formula="lambda i: None")', mk["short"] % "T", mk["long"] % "T",
                     "T[1].%s[2] = 7" % name[holder], "T[2].%s[2] = 8" % name[holder]]
            yield from hand(g, ("itemspace", short, holder), lines, "name-prefix:cells", "itemspace-input", "prefix-data-in:" + holder)
            yield from hand(g, ("itemspace+static", short, holder), lines + ["T.%s[3] = 9" % name[holder]],
                            "name-prefix:cells", "itemspace-input", "input", "prefix-data-in:" + holder)
    # -- e. spaces: S / S1 as siblings at the top and nested; which of them holds child spaces / cells with inputs
    fill = {"empty": [], "cells": ['%(v)s.new_cells("f", formula="lambda x: x")'],
            "inputs": ['%(v)s.new_cells("f", formula="lambda x: x")', "%(v)s.f[1] = 5"],
            "child": ['%(v)s_K = %(v)s.new_space("K")', '%(v)s_K.new_cells("k", formula="lambda x: x")', "%(v)s_K.k[1] = 6"],
            "child-prefix": ['%(v)s_K = %(v)s.new_space("S")', '%(v)s_K1 = %(v)s.new_space("S10")',
                             '%(v)s_K1.new_cells("k", formula="lambda x: x")', "%(v)s_K1.k[1] = 6"]}
    for level in ("top", "nested"):
        for a, b in itertools.product(fill, fill):
            if a == b and a != "inputs":
                continue
            if tier == "quick" and level == "nested" and "empty" not in (a, b):
                continue
            par = "m" if level == "top" else "P"
            lines = (['P = m.new_space("P")'] if level == "nested" else []) + \
                ['S = %s.new_space("S")' % par, 'S1 = %s.new_space("S1")' % par] + \
                [l % {"v": "S"} for l in fill[a]] + [l % {"v": "S1"} for l in fill[b]]
            yield from hand(g, ("spaces", level, a, b), lines, "name-prefix:spaces", "prefix-at:" + level,
                            "prefix-short-holds:" + a, "prefix-long-holds:" + b, *(["input"] if "inputs" in (a, b) else []))
    # a space and a cells / reference of its parent sharing a prefix
    yield from hand(g, ("space-vs-cells",), ['S = m.new_space("S")', 'S.new_cells("ab", formula="lambda x: x")', 'K = S.new_space("abc")',
                                             'K.new_cells("ab", formula="lambda x: x")', "K.ab[1] = 5", 'S.new_space("a")'],
                    "name-prefix:space-vs-cells", "input")
    yield from hand(g, ("space-vs-cells", "inputs-in-parent"), ['S = m.new_space("S")', 'S.new_cells("abc", formula="lambda x: x")', "S.abc[1] = 5",
                                                                'K = S.new_space("ab")', 'K.new_cells("a", formula="lambda x: x")'],
                    "name-prefix:space-vs-cells", "input")
    # -- f. references r / r1 / r10: literal, pickled and modelx-object values in every arrangement
    vals = {"lit": "7", "pkl": "[1, (2, 3)]", "obj": "T", "box": "Box(T.t, [1])"}
    for holder, htag in (("m", "model"), ("S", "space"), ("C", "nested-space")):
        for a, b in itertools.permutations(vals, 2):
            if tier == "quick" and (htag == "nested-space" or (htag == "model" and "box" in (a, b))):
                continue
            lines = REF_SCAFFOLD + ["%s.r = %s" % (holder, vals[a]), "%s.r1 = %s" % (holder, vals[b]), "%s.r10 = %s" % (holder, vals[a])]
            yield from hand(g, ("refs", htag, a, b), lines, "name-prefix:refs", "ref-at:" + htag, "prefix-short-ref:" + a, "prefix-long-ref:" + b)
    # a reference, a cells and a space sharing prefixes in one space
    yield from hand(g, ("mixed-members",), REF_SCAFFOLD + ["S.fx = [1, 2]", 'S.new_cells("fxy", formula="lambda x: fx[0] + x")', "S.fxy[1] = 5",
                                                          'S.new_space("fxyz")', "S.f[1] = 0"],
                    "name-prefix:mixed", "input")


# ------------------------------------------------------------------------------------ model objects inside pickled values
# inheritance scaffolds: (tag, lines, sub-space variable, [(target tag, expression, member tag, kind)])
_F1 = 'formula="lambda x: x + 1"'
_FK = 'formula="def k(x):\\n    return 2 * x"'
PKLOBJ_SCAFFOLDS = [
    ("single", ['B = m.new_space("B")', 'B.new_cells("f", %s)' % _F1, 'B.new_cells("k", %s)' % _FK, "B.x = 1",
                'Sub = m.new_space("Sub", bases=B)', 'Sub.new_cells("own", formula="lambda x: 3 * x")'], "Sub",
     [("derived-cells", "Sub.f", "derived", "cells"), ("derived-def-cells", "Sub.k", "derived", "cells"),
      ("base-cells", "B.f", "defined", "cells"), ("own-cells", "Sub.own", "defined", "cells"),
      ("sub-space", "Sub", "defined", "space"), ("base-space", "B", "defined", "space"),
      ("derived+defined", "Sub.k, B.f, Sub", "derived", "cells")]),
    ("multi", ['B1 = m.new_space("B1")', 'B1.new_cells("f", %s)' % _F1, 'B2 = m.new_space("B2")', 'B2.new_cells("k", %s)' % _FK,
               'Sub = m.new_space("Sub", bases=[B1, B2])'], "Sub",
     [("derived-from-1st", "Sub.f", "derived", "cells"), ("derived-from-2nd", "Sub.k", "derived", "cells"),
      ("sub-space", "Sub", "defined", "space")]),
    ("chain", ['B = m.new_space("B")', 'B.new_cells("f", %s)' % _F1, 'D = m.new_space("D", bases=B)', 'D.new_cells("k", %s)' % _FK,
               'Sub = m.new_space("Sub", bases=D)'], "Sub",
     [("derived-2-levels", "Sub.f", "derived", "cells"), ("derived-1-level", "Sub.k", "derived", "cells"),
      ("derived-in-middle", "D.f", "derived", "cells")]),
    ("nested", ['P = m.new_space("P")', 'B = P.new_space("B")', 'B.new_cells("f", %s)' % _F1, 'Sub = P.new_space("Sub", bases=B)'], "Sub",
     [("derived-in-nested", "Sub.f", "derived", "cells"), ("nested-sub-space", "Sub", "defined", "space"),
      ("base-cells", "B.f", "defined", "cells")]),
    ("nested-deep", ['B = m.new_space("B")', 'B.new_cells("f", %s)' % _F1, 'Q = m.new_space("Q")', 'W = Q.new_space("W")',
                     'Sub = W.new_space("Sub", bases=B)', 'K = Sub.new_space("K", bases=B)'], "Sub",
     [("derived-at-depth-3", "Sub.f", "derived", "cells"), ("derived-at-depth-4", "K.f", "derived", "cells"),
      ("deep-sub-space", "K", "defined", "space")]),
]
# (tag, template, accessor of the first held object from the name `items`)
PKLOBJ_CONTAINERS = [("list", "[%s]", "items[0]"), ("tuple", "(%s, 1)", "items[0]"), ("dict", '{"f": (%s)}', None),
                     ("nested", '{"a": [(%s, 2)], "b": None}', "items['a'][0][0]"), ("box", "Box([%s], 1)", "items.a[0]")]


def gen_objects_in_pickles(tier):
    """G11: model objects INSIDE pickled values (restored by path while the data is unpickled): containers held by a
    reference, by a cells input value, or a cells input key, holding defined / DERIVED members of a sub space.
    inheritance scaffold x held object x container x where held x holder (created before / after the target space,
    the sub space itself, the base space, the model, an ItemSpace)."""
    g = "objects-in-pickles"
    for itag, scaffold, sub, targets in PKLOBJ_SCAFFOLDS:
        base = scaffold[0].split(" = ")[0]
        for ttag, texpr, member, kind in targets:
            first = texpr.split(",")[0]
            secondary = tier == "quick" and (itag != "single" or ttag not in ("derived-cells", "sub-space", "base-cells"))
            common = ["value:container-of-objects", "inherit:" + itag, "member:" + member, "held:" + ttag, "held-kind:" + kind]
            for order in ("holder-first", "holder-last"):
                H = ['H = m.new_space("H")']
                pre = M0 + (H + scaffold if order == "holder-first" else scaffold + H)
                otag = "order:" + order
                # -- held by a reference of another space
                for ctag, tmpl, acc in PKLOBJ_CONTAINERS:
                    if secondary and ctag not in ("list", "dict"):
                        continue
                    if ctag == "dict" and "," in texpr:
                        val = "{%s}" % ", ".join('"k%d": %s' % (i, e.strip()) for i, e in enumerate(texpr.split(",")))
                        acc = "items['k0']"
                    else:
                        val = tmpl % texpr
                        acc = acc or "items['f']"
                    lines = ["H.items = " + val]
                    if kind == "cells":
                        lines.append('H.new_cells("use", formula="lambda x: %s(x) + 100")' % acc)
                    else:
                        lines.append('H.new_cells("use", formula="lambda: %s.name")' % acc)
                    yield case(g, (itag, ttag, "ref", ctag, order), [block(pre), block(lines, "held-in:ref", "container:" + ctag, otag, *common)])
                # -- held by an input value / an input key
                for ctag, tmpl, _ in PKLOBJ_CONTAINERS[:2] + PKLOBJ_CONTAINERS[3:4]:
                    if secondary and ctag != "list":
                        continue
                    lines = ['c = H.new_cells("c", formula="lambda x: 1")', "c[1] = " + tmpl % texpr]
                    yield case(g, (itag, ttag, "input-value", ctag, order),
                               [block(pre), block(lines, "input", "held-in:input-value", "container:" + ctag, otag, *common)])
                for ctag, key in (("direct", "%s, 1" % first), ("tuple", "(%s, 2), 1" % texpr)):
                    if secondary and ctag != "direct":
                        continue
                    lines = ['c = H.new_cells("c", formula="lambda x, y: 1")', "c[%s] = 5" % key]
                    yield case(g, (itag, ttag, "input-key", ctag, order),
                               [block(pre), block(lines, "input", "held-in:input-key", "container:" + ctag, otag, *common)])
            # -- other holders (list only): the sub space itself, its base (the reference is then derived too), the model,
            #    an input inside an ItemSpace, a direct object next to the container
            pre = M0 + scaffold
            lst = "[%s]" % texpr
            others = [("sub-space", ["%s.items = %s" % (sub, lst)], "held-in:ref"),
                      ("base-space", ["%s.items = %s" % (base, lst)], "held-in:ref"),
                      ("model", ["m.items = %s" % lst], "held-in:ref"),
                      ("itemspace", ['H = m.new_space("H", formula="lambda i: None")', 'H.new_cells("c", formula="lambda x: i")',
                                     "H[1].c[1] = %s" % lst], "held-in:input-value"),
                      ("with-direct-ref", ['H = m.new_space("H")', "H.direct = %s" % first, "H.items = %s" % lst], "held-in:ref")]
            for htag, lines, where in others:
                if secondary and htag not in ("sub-space", "model"):
                    continue
                yield case(g, (itag, ttag, "holder", htag), [block(pre), block(lines, where, "container:list", "holder:" + htag,
                                                                                *((("input", "itemspace-input") if htag == "itemspace" else ()) + tuple(common)))])


KITCHEN = M0 + [
    'm.doc = "model doc"', "m.g1 = 1.5", 'm.g2 = {"a": (1, 2)}',
    'S = m.new_space("S")', 'S.doc = "space S"', 'C = S.new_space("C")', 'T = m.new_space("T", formula="lambda i, j=2: None")',
    'B = m.new_space("B")', 'D = m.new_space("D", bases=B)',
    'S.new_cells("f", formula="def f(x):\\n    \'\'\'f doc\'\'\'\\n    return x + g1  # c")', 'S.new_cells("l", formula="lambda x: f(x) * 2")', 'S.l.doc = "lam doc"',
    'C.new_cells("g", formula="lambda x: x + up.f(x)")', "C.up = S", 'C.set_ref("rel", C, refmode="relative")', 'C.set_ref("ab", S.f, refmode="absolute")',
    'T.new_cells("t", formula="lambda x: x * i + j")', "T[1].t[2] = 7", "T[1, 3].t[2] = 8", "T.t[0] = -1",
    'B.new_cells("b", formula="lambda x: bb")', "B.bb = 10", "D.bb = 20", "S.box = Box(C, [T.t])", "S.f[5] = 55", "S.l.allow_none = True",
]


def gen_kitchen(tier):
    for ef in (False, True):
        yield case("kitchen", ("sink",), [block(KITCHEN, "kitchen-sink")], eval_first=ef)
        yield case("kitchen", ("sink-evaluated",), [block(KITCHEN + ["S.l(3)", "C.g(2)", "T[4].t(1)", "D.b(1)"], "kitchen-sink", "values-held")], eval_first=ef)


# ------------------------------------------------------------------------------------ random combinations (thorough)
UNIVERSE = M0 + ['S = m.new_space("S")', 'C = S.new_space("C")', 'T = m.new_space("T", formula="lambda i: None")',
                 'B = m.new_space("B")', 'D = m.new_space("D", bases=B)',
                 'S.new_cells("f", formula="lambda x: x + 1")', 'C.new_cells("g", formula="def g(x):\\n    return 2 * x")',
                 'T.new_cells("t", formula="lambda: 5")', 'B.new_cells("bf", formula="lambda x: x")']


def random_case(rng, idx):
    blocks = [block(UNIVERSE)]
    holders = [("S", "space"), ("C", "nested-space"), ("T", "space"), ("B", "space"), ("D", "space")]
    n = rng.randint(3, 7)
    for j in range(n):
        kind = rng.choice(["cells", "cells", "ref", "ref", "doc", "input", "item", "syntax"])
        nm = "n%d" % j
        h, htag = rng.choice(holders)
        if kind == "cells":
            form = rng.choice(["lambda", "def"])
            doc = rng.choice([None, None] + DOCS)
            way = None if doc is None else rng.choice(["set"] if form == "lambda" else ["set"] + ["source-" + s for s, _ in doc_literal_styles(doc[1])])
            b = cells_block("c%d" % j, h, nm, form, rng.random() < 0.6, rng.choice([None, True, False]), doc, way)
            if h == "B":        # B already has the sub space D: the cells and its flags arrive after the derivation
                b = (b[0], b[1] + ("base-edit-after-derive:new-cells",))
            blocks.append(b)
        elif kind == "ref":
            k, expr, cls = rng.choice(REFVALS)
            if rng.random() < 0.2:
                blocks.append(ref_block("m", "model", nm, k, expr, cls, "assign"))
            else:
                blocks.append(ref_block(h, htag, nm, k, expr, cls, rng.choice(["assign", "auto", "absolute", "relative"])))
        elif kind == "doc":
            d = rng.choice(DOCS)
            tgt, where = rng.choice([("m", "model"), ("S", "space"), ("C", "nested-space"), ("D", "space")])
            blocks.append(block(["%s.doc = %r" % (tgt, d[1])], "doc:" + d[0], "doc-at:" + where))
        elif kind == "input":
            vk, vexpr = rng.choice([v for v in INPUT_VALUES if v[0] not in ("mx-cells", "box-of-mx", "none")])
            kk, kexpr = rng.choice([k for k in INPUT_KEYS1 if k[1]])
            blocks.append(block(['c%d = %s.new_cells(%r, formula="lambda x: 1")' % (j, h, nm), "c%d[%s] = %s" % (j, kexpr, vexpr)],
                                "input", "input-key:" + kk, "input-value:" + vk))
        elif kind == "item":
            arg = rng.choice(["1", '"x"', "-1", "None", "1.5"])
            blocks.append(block(['T.new_cells(%r, formula="lambda x: x * 2")' % nm, "T[%s].%s[2] = %s" % (arg, nm, rng.choice(["7", "[1]", "S", '"s"']))],
                                "itemspace-input"))
        else:
            tag, text = rng.choice([s for s in SYNTAX if s[1] and "sib" not in s[1]])
            blocks.append(block(['%s.new_cells(%r, formula=%r)' % (h, nm, text.replace("{n}", nm))], "syntax:" + tag))
    return case("random", (idx,), blocks, eval_first=rng.random() < 0.3, random=True)


# ------------------------------------------------------------------------------------ evaluation

def flat_lines(blocks):
    return [l for ls, _ in blocks for l in ls]


def case_tags(blocks):
    return tuple(sorted({t for _, ts in blocks for t in ts}))


def check_signature(fails):
    return {t for tags, _ in fails for t in tags if not t.startswith("stage:")}


def shrink(c, fails):
    """Remove feature blocks one at a time while the same check keeps failing (random cases only)."""
    target = sorted(check_signature(fails))[0]
    blocks = list(c["blocks"])
    st, f = L.evaluate(flat_lines(blocks), c["eval_first"], light=True)
    light = st == "ok" and target in check_signature(f)
    changed = True
    while changed:
        changed = False
        for i in range(len(blocks) - 1, 0, -1):
            trial = blocks[:i] + blocks[i + 1:]
            st, f = L.evaluate(flat_lines(trial), c["eval_first"], light=light)
            if st == "ok" and target in check_signature(f):
                blocks, changed = trial, True
    st, fails = L.evaluate(flat_lines(blocks), c["eval_first"])      # full contract on the reduced recipe
    return blocks, fails


DEADLINE = [None]     # absolute time set before the pool forks: tasks started later are skipped (clean stop, no killed workers)


def worker(c):
    if DEADLINE[0] and time.time() > DEADLINE[0]:
        return None
    reset()
    groups = []           # [(blocks, status, fails)]
    st, fails = L.evaluate(flat_lines(c["blocks"]), c["eval_first"], chains=c["chains"])
    if c["random"] and fails:
        rest = list(c["blocks"])
        for _ in range(4):
            mb, mf = shrink(dict(c, blocks=rest), fails)
            groups.append((mb, "ok", mf))
            culprit = {id(b) for b in mb[1:]}
            rest = [b for b in rest if id(b) not in culprit]
            st2, fails = L.evaluate(flat_lines(rest), c["eval_first"])
            if st2 != "ok" or not fails:
                break
    else:
        groups.append((c["blocks"], st, fails))
    return c["key"], st, [(flat_lines(b), case_tags(b), s, f) for b, s, f in groups]


DIRISH = {"stage:read-dir", "stage:read-dir2", "stage:read-samename", "stage:rewrite-dir", "stage:write-dir"}
ZIPISH = {"stage:read-zip", "stage:read-zip2", "stage:read-cross", "stage:rewrite-zip", "stage:write-zip", "stage:read-evaluated"}


def report(res, key, lines, ctags, fails):
    bycheck = {}
    for tags, what in fails:
        stage = [t for t in tags if t.startswith("stage:")][0]
        for t in tags:
            if not t.startswith("stage:"):
                bycheck.setdefault(t, []).append((stage, what))
    for chk, items in sorted(bycheck.items()):
        stages = {s for s, _ in items}
        extra = ()
        if stages <= DIRISH:
            extra = ("only:dir",)
        elif stages <= ZIPISH:
            extra = ("only:zip",)
        res.fail(tags=ctags + (chk,) + extra, what=items[0][1] + "  [stages: %s]" % ", ".join(sorted(s[6:] for s in stages)),
                 script=L.make_script(lines), case=key)


GENERATORS = [gen_kitchen, gen_inheritance, gen_params, gen_model_level, gen_inputs, gen_name_prefixes, gen_objects_in_pickles, gen_docs_at, gen_cells_attrs,
              gen_refs, gen_objref_matrix, gen_syntax]
PRODUCT_GROUPS = {"cells-attrs", "refs", "objref-matrix", "syntax", "docs-at"}


def run(res, tier, seed):
    res.bound = ("models of <= 5 spaces (nesting <= 4 in one chain case), <= 5 cells per space; exhaustive single-feature "
                 "products: cells {lambda, def} x cached x allow_none {None,True,False} x 20 doc texts x way of documenting; "
                 "20 doc texts x {model, space, nested space}; 60 reference values (literal / picklable / module / containers of modelx "
                 "objects / modelx objects) x {model, space, nested space} x {assignment, auto, absolute, relative}; object references "
                 "holder x target x mode over a 3-level tree; 40 inheritance recipes; 60 parameter-formula / ItemSpace-input recipes; "
                 "input arity 0-3 x formula form x value kind, key kinds; 36 formula texts x 4 followers x flags; model-level properties; "
                 "name-prefix pairs (c1/c10, prem/prem_rate, d/data; S/S1; r/r1/r10): cells x who holds inputs {long, short, both, none} x "
                 "creation order, pickled inputs, 3-name chains, derived pairs with inputs in base / sub / overriding cells, ItemSpace "
                 "inputs; sibling spaces top/nested x content of each {empty, cells, inputs, child, prefixed children}; references "
                 "x value class of each {literal, pickled, object, container of objects} x holder; "
                 "model objects inside pickled values: 5 inheritance scaffolds (single, multi, chain, nested, depth 3-4) x held object "
                 "{derived / defined cells, sub / base space, mixed} x container {list, tuple, dict, nested, Box} x held in {reference, input "
                 "value, input key, ItemSpace input} x holder {created before / after the target, the sub space, its base, the model}; "
                 "both containers, up to 7 reads and 6 writes per case (chains dir->dir, zip->zip, dir->zip, after evaluation; quick: second-generation reads only for the hand-written groups)"
                 + ("; plus seeded random combinations of 3-7 features" if tier == "thorough" else "; reduced products (quick)"))
    res.rule = ("one case = one recipe (scaffold + one feature block, or hand-written recipe) x evaluate-before-writing flag; a case is "
                "non-trivial when the API built the recipe (then every clause of the contract was evaluated on it); distinct = distinct "
                "(group, feature key, flag); failures are grouped per failed clause, tags = feature tags of the recipe + clause "
                "(+ only:dir / only:zip when container specific); random cases are shrunk block-wise before reporting")
    cases = []
    for gen in GENERATORS:
        cases.extend(gen(tier))
    if tier == "quick":         # the big products run the second-generation chains only in the thorough tier
        for c in cases:
            if c["group"] in PRODUCT_GROUPS:
                c["chains"] = False
    if tier == "thorough":      # every systematic recipe also with evaluation before the first write
        cases += [dict(c, eval_first=True, key=c["key"] + ("eval-first",)) for c in cases if not c["eval_first"]]
    nsys = len(cases)
    if tier == "thorough":
        for i in range(700):
            cases.append(random_case(res.rng, i))
    soft_deadline = res.budget_s * 0.8
    nproc = int(os.environ.get("C04_NPROC", 0)) or max(2, min(12, (os.cpu_count() or 4) - 2))
    unbuildable = []
    done = 0
    res.exhaustive = True
    L.BASE = tempfile.mkdtemp(prefix="c04_")
    DEADLINE[0] = res.t0 + soft_deadline
    ctx = mp.get_context("fork")
    pool = ctx.Pool(nproc)
    try:
        for c, out in zip(cases, pool.imap(worker, cases, chunksize=3)):
            if out is None:
                continue
            key, st, groups = out
            done += 1
            built = st == "ok"
            res.count(key, nontrivial=built)
            if not built:
                unbuildable.append((key, st))
            for lines, ctags, s, fails in groups:
                if fails:
                    report(res, key, lines, ctags, fails)
            if done % 400 == 1:
                res.sample({"key": key, "recipe": flat_lines(c["blocks"])})
        if done < len(cases):
            if done < nsys:
                res.exhaustive = False
            res.notes.append("stopped by the time budget after %d of %d cases (%d systematic)" % (done, len(cases), nsys))
        pool.close()
    finally:
        pool.terminate()
        pool.join()
        shutil.rmtree(L.BASE, ignore_errors=True)
    reasons = {}
    for key, st in unbuildable:
        reasons.setdefault((key[0], st[13:70]), []).append(key)
    res.notes.append("%d systematic cases, %d random; %d recipes were rejected by the API while building (counted as trivial): %s"
                     % (nsys, len(cases) - nsys, len(unbuildable),
                        sorted((g, r, len(ks), ks[0]) for (g, r), ks in reasons.items())))


if __name__ == "__main__":
    main("C04", run)
