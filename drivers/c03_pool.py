"""Tiny helper: run case batches of a driver in worker processes and merge their private Results in order.

    run_parallel(res, fn, tasks, nproc)

`fn(task, sub)` is a module-level function; it runs in a worker with a private `Result` `sub` that shares the
start time and budget of `res` (so `sub.expired()` is the global deadline).  The merge is done in task order,
hence the outcome does not depend on scheduling.  An exception in a worker propagates (checker fault).
"""
import multiprocessing
import os

from common import Result

_STATE = {}


def _init(fn, prop, tier, seed, t0, budget):
    _STATE.update(fn=fn, prop=prop, tier=tier, seed=seed, t0=t0, budget=budget)


def _work(task):
    s = _STATE
    sub = Result(s["prop"], s["tier"], s["seed"], s["budget"])
    sub.t0 = s["t0"]
    s["fn"](task, sub)
    return {"evaluations": sub.evaluations, "distinct": sub._distinct, "failures": sub.failures,
            "failure_counts": sub.failure_counts, "monitors": sub.monitors, "samples": sub.samples,
            "notes": sub.notes, "exhaustive": sub.exhaustive}


def merge(res, out, cap=3):
    res.evaluations += out["evaluations"]
    res._distinct |= out["distinct"]
    kept = {}
    for f in res.failures:
        k = tuple(f["tags"])
        kept[k] = kept.get(k, 0) + 1
    for f in out["failures"]:
        k = tuple(f["tags"])
        if kept.get(k, 0) < cap:
            kept[k] = kept.get(k, 0) + 1
            res.failures.append(f)
    for k, v in out["failure_counts"].items():
        res.failure_counts[k] = res.failure_counts.get(k, 0) + v
    for k, v in out["monitors"].items():
        m = res.monitors.setdefault(k, {"evaluations": 0, "failed": 0})
        m["evaluations"] += v["evaluations"]
        m["failed"] += v["failed"]
    for s in out["samples"]:
        res.sample(s)
    for n in out["notes"]:
        if n not in res.notes:
            res.notes.append(n)
    if not out["exhaustive"]:
        res.exhaustive = False


def default_nproc():
    n = os.cpu_count() or 2
    env = os.environ.get("VERIF_DRIVER_PROCS")
    if env:
        return max(1, int(env))
    return max(1, min(10, n - 2))


def run_parallel(res, fn, tasks, nproc=None, chunksize=1, margin=1.0):
    nproc = nproc or default_nproc()
    tasks = list(tasks)
    if not tasks:
        return
    if nproc == 1:
        _init(fn, res.prop, res.tier, res.seed, res.t0, res.budget_s * margin)
        for t in tasks:
            merge(res, _work(t))
        return
    ctx = multiprocessing.get_context("fork")
    with ctx.Pool(nproc, initializer=_init,
                  initargs=(fn, res.prop, res.tier, res.seed, res.t0, res.budget_s * margin)) as pool:
        for out in pool.imap(_work, tasks, chunksize=chunksize):
            merge(res, out)
