"""C20 - formula capture is faithful and idempotent; rename and doc edits are inert.  Bounded stand-in driver.

For every text of the grammar (c20_lib) a cells is created from the source text and from the function object
(defined in a real module file), and the contract is evaluated:

  (1) ast(formula.source) = ast(the definition, decorators dropped, name = cells name)   [docstring modulo inspect.cleandoc];
      source is exactly one def (or one lambda expression); cells.parameters / name / doc agree with the definition;
  (3) cells(*args) = f(*args) for the function Python compiles from the text, globals {g, other} bound in the space;
  (2) a cells created from formula.source (same name, and with the name taken from the def) has the same source and values;
  (4) doc = d: cells.doc == d, ast = the same def with docstring d, values/parameters/name unchanged;
      rename(n): name == n, ast = the same def named n, doc and values unchanged; lambdas: source unchanged.

A failing case is minimised axis by axis (each axis reset to its neutral value while the same check keeps
failing), so the reported tags are the features the failure needs.
"""
from common import *
import c20_lib as G
import ast, itertools, tempfile, shutil, multiprocessing as mp

# ------------------------------------------------------------------------------------ per-process context
class Ctx:
    def __init__(self):
        self.factory = G.FuncFactory()
        self.m = None
        self.count = 0

    def space(self):
        if self.m is None or self.count % 120 == 0:
            reset()
            self.m = mx.new_model("C20")
            self.m.allow_none = True        # a plain function may return None; that policy is not C20's subject
            self.m.g = G.G_VALUE
            H = self.m.new_space("H")
            H.new_cells("other", formula="lambda a: a * 3")
            self.m.other = H.other
            self.m.twice = G.twice
        self.count += 1
        return self.m.new_space("S%d" % self.count)

    def close(self):
        self.factory.close()
        reset()


CTX = None


def ctx():
    global CTX
    if CTX is None:
        CTX = Ctx()
    return CTX


def _exc(e):
    return "%s: %s" % (type(e).__name__, (str(e).splitlines() or [""])[0][:150])


OPS_DEFAULT = (("doc", "plain"), ("rename", "zz_new"), ("doc", "multiline"))


SAFE_DOCS = ["plain", "multiline", "quotes-inside", "non-ascii"]


def plan_ops(i):
    """Edit sequence of case number i: rotates through the new-doc texts and the order of rename / doc.  The first
    doc text is always an ordinary one; the last edit of every 4th case uses one of the unusual texts."""
    a = SAFE_DOCS[i % len(SAFE_DOCS)]
    kinds = list(G.NEWDOCS)
    b = kinds[(i // 4) % len(kinds)] if i % 4 == 0 else SAFE_DOCS[(i // 4 + 1) % len(SAFE_DOCS)]
    orders = [(("doc", a), ("rename", "zz_new"), ("doc", b)),
              (("rename", "zz_new"), ("doc", a), ("rename", "y"), ("doc", b)),
              (("doc", a), ("doc", b)),
              (("rename", "zz_new"), ("doc", b))]
    return orders[i % 4 if i % 4 else (i // 4) % 4]


# ------------------------------------------------------------------------------------ evaluation of one case
def evaluate(case):
    """[(check tag, op tags, text)] for one case (empty list = the contract holds)."""
    c = ctx()
    fails = []
    kind = case["kind"]
    if kind == "def":
        defname = case.get("defname", "f")
        cname = G.NAMES[case["name"]] or defname
        text = case.get("text") or G.render(case, defname)
        if case["form"] == "source":
            e_dump, e_doc, e_params, ref = G.expected_def(text, cname)
        samples = case.get("samples") or G.PARAMS[case["params"]][2]
    else:
        cname = "lam"
        lam_text = G.LAMBDAS[case["lam"]][0]
        text = case.get("text") or G.render(case)
        e_dump, e_params, ref = G.expected_lambda(lam_text)
        e_doc = None
        samples = G.LAMBDAS[case["lam"]][2]
    S = c.space()
    msrc = None
    # ---- creation
    try:
        if case["form"] == "source":
            formula = text
        else:
            mod = c.factory.load(text, G.INDENTS[case["indent"]] or ("    " if text.lstrip("\n").startswith((" ", "\t")) else ""))
            formula = getattr(mod, "V" if kind == "lambda" else defname)
            if kind == "def":
                msrc = c.factory.last_source
                e_dump, e_doc, e_params, ref = G.expected_def(text, cname, msrc, formula)
        if kind == "def" and case["name"] == "same":
            cells = S.new_cells(formula=formula) if case.get("name_from_def", True) else S.new_cells(name=cname, formula=formula)
        else:
            cells = S.new_cells(name=cname, formula=formula)
    except Exception as e:
        return [("create-raises", (), "creating the cells raised %s\n--- text ---\n%s" % (_exc(e), text))]

    def check_state(stage, optags, dump, doc, name, exact_doc):
        """Compare the cells with the expected definition; returns True when something failed."""
        bad = False
        src = cells.formula.source
        try:
            if kind == "def":
                got, gname = (G.dump_def_source_exact if exact_doc else G.dump_def_source)(src)
                if gname != name:
                    fails.append((stage + ":source-name", optags, "source defines %r, cells is %r\n%s" % (gname, name, src))); bad = True
            else:
                got = ast.dump(ast.parse(src, mode="eval").body)
            if got != dump:
                fails.append((stage + ":ast-differs", optags, "formula.source is not the definition\n--- source ---\n%s\n--- text ---\n%s" % (src, text))); bad = True
        except (SyntaxError, ValueError) as e:
            fails.append((stage + ":source-invalid", optags, "formula.source is not a self-contained definition (%s)\n--- source ---\n%s" % (_exc(e), src))); bad = True
        if cells.name != name:
            fails.append((stage + ":name", optags, "cells.name %r, expected %r" % (cells.name, name))); bad = True
        if tuple(cells.parameters) != tuple(e_params):
            fails.append((stage + ":parameters", optags, "cells.parameters %r, expected %r" % (cells.parameters, e_params))); bad = True
        gdoc = cells.doc
        if (gdoc if exact_doc or gdoc is None else __import__("inspect").cleandoc(gdoc)) != (doc if exact_doc or doc is None else __import__("inspect").cleandoc(doc)):
            fails.append((stage + ":doc", optags, "cells.doc %r, expected %r" % (gdoc, doc))); bad = True
        if ref is not None:
            for args in samples:
                a, b = G.outcome(ref, args), G.cells_outcome(cells, args)
                if a != b:
                    fails.append((stage + ":value-differs", optags, "%s%r: function %r, cells %r\n--- text ---\n%s" % (name, args, a, b, text))); bad = True
                    break
        return bad

    if check_state("capture", (), e_dump, e_doc, cname, False):
        return fails
    # ---- idempotence
    try:
        src = cells.formula.source
        S2 = c.space()
        again = S2.new_cells(name=cname, formula=src)
        if again.formula.source != src:
            fails.append(("idempotence:source-differs", (), "Formula(source).source != source\n--- first ---\n%s\n--- second ---\n%s" % (src, again.formula.source)))
        if ref is not None:
            for args in samples[:1]:
                if G.cells_outcome(again, args) != G.outcome(ref, args):
                    fails.append(("idempotence:value-differs", (), "cells rebuilt from formula.source gives %r" % (G.cells_outcome(again, args),)))
        if kind == "def":
            S3 = c.space()
            byname = S3.new_cells(formula=src)
            if byname.name != cname or byname.formula.source != src:
                fails.append(("idempotence:name-from-source", (), "cells created from formula.source alone is %r with source\n%s" % (byname.name, byname.formula.source)))
    except Exception as e:
        fails.append(("idempotence:raises", (), "creating a cells from formula.source raised %s\n--- source ---\n%s" % (_exc(e), cells.formula.source)))
    # ---- edits
    name, doc, doc_set = cname, e_doc, False
    done = []
    for op, arg in case.get("ops", ()):
        optags = tuple("prior:" + o for o, _ in done) + (("newdoc:" + arg,) if op == "doc" and arg != "plain" else ())
        stage = "set-doc" if op == "doc" else "rename"
        before_src = cells.formula.source
        try:
            if op == "doc":
                cells.doc = G.NEWDOCS[arg]
                doc, doc_set = G.NEWDOCS[arg], True
            else:
                cells.rename(arg)
                name = arg
        except Exception as e:
            fails.append((stage + ":raises", optags, "%s raised %s\n--- source before ---\n%s" % ("doc = %r" % G.NEWDOCS[arg] if op == "doc" else "rename(%r)" % arg, _exc(e), before_src)))
            break
        if kind == "def":
            dump = G.with_doc(text, name, doc, msrc, formula) if doc_set else G.expected_def(text, name, msrc, formula)[0]
        else:
            dump = e_dump
            if cells.formula.source != before_src:
                fails.append((stage + ":lambda-source-changed", optags, "%r -> %r" % (before_src, cells.formula.source)))
        if name not in S.cells or (op == "rename" and len(S.cells) != 1):
            fails.append((stage + ":space-listing", optags, "space cells are %r" % (list(S.cells),)))
        if check_state(stage, optags, dump, doc, name, doc_set and kind == "def"):
            break
        done.append((op, arg))
    return fails


def signature(fails):
    return [f[0] for f in fails]


def minimise(case, check):
    """Reset axes to neutral / drop edits while `check` keeps failing; returns the reduced case."""
    cur = dict(case)
    neutral = G.neutral(case["kind"])

    def still(c2):
        if c2["kind"] == "def" and not G.valid_combo(c2):
            return False
        try:
            return check in signature(evaluate(c2))
        except Exception:
            return False
    # edits first: keep only what the check needs
    ops = list(cur.get("ops", ()))
    if not check.startswith(("set-doc", "rename")):
        if still(dict(cur, ops=())):
            cur["ops"] = ()
    else:
        i = 0
        while i < len(cur["ops"]):
            trial = cur["ops"][:i] + cur["ops"][i + 1:]
            if still(dict(cur, ops=trial)):
                cur["ops"] = trial
            else:
                i += 1
    for i, (op, arg) in enumerate(cur.get("ops", ())):      # an ordinary doc text where the unusual one is not needed
        if op == "doc" and arg != "plain":
            trial = cur["ops"][:i] + (("doc", "plain"),) + cur["ops"][i + 1:]
            if still(dict(cur, ops=trial)):
                cur["ops"] = trial
    for ax in (G.AXES[case["kind"]] if "text" not in cur else ["form", "name"]):
        if cur[ax] != neutral[ax]:
            c2 = dict(cur)
            c2[ax] = neutral[ax]
            if c2["kind"] == "lambda" and c2["form"] == "func" and c2["host"] == "bare":
                c2["host"] = "assignment"
            if still(c2):
                cur = c2
    return cur


def make_script(case):
    return ('''import warnings; warnings.filterwarnings("ignore")
import sys, os
sys.path.insert(0, os.environ.get("C20_DRIVERS", "/verif/drivers"))
import c20
case = %r
print(c20.case_text(case))
try:
    fails = c20.evaluate(case)
finally:
    c20.ctx().close()
for f in fails:
    print(f[0], f[1]); print(f[2])
print("C20 violated" if fails else "C20 holds for this text")
sys.exit(1 if fails else 0)
''' % (case,))


DEFCELLS_SCRIPT = '''import warnings; warnings.filterwarnings("ignore")
import sys, os
sys.path.insert(0, os.environ.get("C20_DRIVERS", "/verif/drivers"))
import c20
case = %r
print(case["text"])
try:
    fails = c20.evaluate_defcells(case)
finally:
    c20.ctx().close()
for f in fails:
    print(f[0]); print(f[2])
print("C20 violated" if fails else "C20 holds for this text")
sys.exit(1 if fails else 0)
'''


def case_text(case):
    if "text" in case:
        return case["text"]
    return G.render(case, "f") if case["kind"] == "def" else G.render(case)


KNOWN = {}          # check -> minimal failing cases found by this process


def contained(small, case):
    """Every non-neutral axis value and every edit of `small` is also in `case` (in order)."""
    if small["kind"] != case["kind"] or "text" in small or "text" in case:
        return False
    n = G.neutral(case["kind"])
    if any(small[a] != n[a] and small[a] != case[a] for a in G.AXES[case["kind"]]):
        return False
    it = iter(case.get("ops", ()))
    return all(op in it for op in small.get("ops", ()))


def worker(chunk):
    out = []
    for case in chunk:
        fails = evaluate(case)
        reports = []
        seen = set()
        for check, optags, what in fails:
            if check in seen:
                continue
            seen.add(check)
            hit = next((k for k in KNOWN.get(check, ()) if contained(k[0], case)), None)
            if hit:
                reports.append(hit)
                continue
            small = minimise(case, check)
            f2 = [f for f in evaluate(small) if f[0] == check]
            if f2:
                rep = (small, check, f2[0][1], f2[0][2])
                KNOWN.setdefault(check, []).append(rep)
            else:
                rep = (case, check, optags, what)
            reports.append(rep)
        out.append((case["key"], reports))
    return out


# ------------------------------------------------------------------------------------ enumeration
QUICK = {
    "params": ["x", "x,y=2", "annotated"],
    "doc": ["none", "single", "triple-multiline", "triple-squote-ends-dquote"],
    "comments": ["none", "leading", "trailing", "all"],
    "body": ["simple", "multi", "nested-def", "nested-def-decorated", "nested-class", "nested-class-staticmethod", "comprehension", "multiline-expr", "oneline", "if-else"],
    "deco": ["none", "one", "two"],
    "indent": ["0", "4", "8"],
    "name": ["same", "longer"],
    "retann": ["none"],
}


def def_cases(tier):
    ax = {a: (QUICK[a] if tier == "quick" else list(getattr(G, {"params": "PARAMS", "doc": "DOCSTRINGS", "comments": "COMMENTS", "body": "BODIES",
                                                                  "deco": "DECORATORS", "indent": "INDENTS", "name": "NAMES", "retann": "RETANN"}[a])))
          for a in ["params", "doc", "comments", "body", "deco", "indent", "name", "retann"]}
    i = 0
    for combo in itertools.product(*[ax[a] for a in ["body", "doc", "comments", "deco", "params", "indent", "name", "retann"]]):
        body, doc, comments, deco, params, indent, name, retann = combo
        case = {"kind": "def", "params": params, "doc": doc, "comments": comments, "body": body, "deco": deco, "indent": indent, "name": name,
                "retann": retann}
        if not G.valid_combo(case):
            continue
        if tier == "thorough":
            # the full product is ~10^6: keep every combination of any 4 axes neutral-or-not by sampling a fixed lattice
            h = hash_combo(combo)
            nonneutral = sum(1 for a, v in zip(["body", "doc", "comments", "deco", "params", "indent", "name", "retann"], combo) if v != G.neutral("def")[a])
            if nonneutral > 3 and h % 16 != 0:
                continue
        i += 1
        case["form"] = "func" if i % 2 else "source"
        case["ops"] = plan_ops(i)
        case["key"] = ("def",) + combo + (case["form"],)
        yield case


def hash_combo(combo):
    import hashlib
    return int(hashlib.md5(repr(combo).encode()).hexdigest()[:8], 16)


def lambda_cases(tier):
    i = 0
    for lam in G.LAMBDAS:
        for host in G.HOSTS:
            for indent in ((["0", "4"] if lam.startswith("inner-") else ["0", "4", "8"]) if tier == "quick" else list(G.INDENTS)):
                for form in ("source", "func"):
                    if form == "func" and host == "bare":
                        continue
                    i += 1
                    yield {"kind": "lambda", "lam": lam, "host": host, "indent": indent, "form": form, "name": "same", "ops": plan_ops(i),
                           "key": ("lambda", lam, host, indent, form)}


SPECIAL = [
    # (tag, text, def name, samples, forms)
    ("noparams", "def f():\n    return g + 1", "f", [()]),
    ("noparams-oneline", "def f(): return g + 1", "f", [()]),
    ("name-in-string-and-default", "def f(x, y='f'):\n    'f is documented'\n    return y + 'def f(x):' * x", "f", [(2,)]),
    ("name-is-prefix", "def ff(x):\n    return x + g", "ff", [(2,)]),
    ("leading-blank-lines", "\n\ndef f(x):\n    return x + g", "f", [(2,)]),
    ("trailing-blank-lines", "def f(x):\n    return x + g\n\n\n", "f", [(2,)]),
    ("trailing-spaces", "def f(x):   \n    return x + g   \n", "f", [(2,)]),
    ("crlf", "def f(x):\r\n    return x + g\r\n", "f", [(2,)]),
    ("no-final-newline-comment", "def f(x):\n    return x + g  # end", "f", [(2,)]),
    ("non-ascii", "def f(x):\n    '漢字 doc'\n    s = 'ünï'  # é\n    return len(s) + x", "f", [(2,)]),
    ("non-ascii-name", "def 漢(x):\n    return x + g", "漢", [(2,)]),
    ("multiline-string-indent-4", "    def f(x):\n        s = '''a\n        b'''\n        return len(s) + x", "f", [(2,)]),
    ("multiline-string-indent-8", "        def f(x):\n            s = '''a\n              b\n            '''\n            return len(s) + x", "f", [(2,)]),
    ("docstring-only-body", "def f(x):\n    'only a docstring'", "f", [(2,)]),
    ("pass-body", "def f(x):\n    pass", "f", [(2,)]),
    ("oneline-pass", "def f(x): pass", "f", [(2,)]),
    ("oneline-ellipsis", "def f(x): ...", "f", [(2,)]),
    ("oneline-string-body", "def f(x): 'doc only'", "f", [(2,)]),
    ("oneline-after-decorator", "@deco\ndef f(x): return x + g", "f", [(2,)]),
    ("semicolon-multiline", "def f(x):\n    y = x; z = g\n    return y + z", "f", [(2,)]),
    ("docstring-then-semicolon", "def f(x):\n    'doc'; y = x\n    return y + g", "f", [(2,)]),
    ("fstring-quotes", "def f(x):\n    return f\"{x!r:>4}\" + f'{g}'", "f", [(2,)]),
    ("walrus-star-args-call", "def f(x):\n    return max(*[x, g], key=lambda v: -v)", "f", [(2,)]),
    ("global-in-default", "def f(x, y=len('abc')):\n    return x + y + g", "f", [(2,)]),
    ("deco-three-with-args", "@deco2(1)\n@deco\n@deco2(n=2)\ndef f(x):\n    return x + g", "f", [(2,)]),
    ("deco-blank-line-between", "@deco\n\ndef f(x):\n    return x + g", "f", [(2,)]),
    ("comment-looks-like-def", "# def g(x): pass\ndef f(x):\n    # def h(y):\n    return x + g", "f", [(2,)]),
    ("docstring-concatenated", "def f(x):\n    'implicit ' \"concatenation\"\n    return x + g", "f", [(2,)]),
    ("docstring-parenthesised", "def f(x):\n    ('parenthesised '\n     'docstring')\n    return x + g", "f", [(2,)]),
    ("string-before-def-keyword", "def f(x): return 'def' if x else 'lambda x: x'", "f", [(2,), (0,)]),
]


def special_cases(tier):
    i = 0
    for tag, text, defname, samples in SPECIAL:
        for form in ("source", "func"):
            for name in ("same", "longer", "shorter"):
                i += 1
                ind = "0"
                stripped = text.lstrip("\n")
                lead = len(stripped) - len(stripped.lstrip(" "))
                if lead:
                    ind = str(lead)
                yield {"kind": "def", "form": form, "params": "x", "doc": "none", "comments": "none", "body": "simple", "deco": "none",
                       "indent": ind if ind in G.INDENTS else "0", "name": name, "retann": "none", "text": text, "defname": defname,
                       "samples": samples, "ops": plan_ops(i), "special": tag, "key": ("special", tag, form, name),
                       "extra_tags": ("body:oneline",) if "\n" not in text.strip().split("def ", 1)[1] else ()}


def defcells_cases(tier):
    """Cells created by the decorator itself, inside a real module (the decorator line must disappear from the source)."""
    texts = [
        ("bare", "@mx.defcells\ndef f(x):\n    return x + g"),
        ("call-form", "@mx.defcells()\ndef f(x):\n    'doc'\n    return x + g") if False else ("bare-doc", "@mx.defcells\ndef f(x):\n    'doc'\n    return x + g"),
        ("stacked-under", "@mx.defcells\n@deco\ndef f(x):\n    return x + g"),
        ("oneline", "@mx.defcells\ndef f(x): return x + g"),
        ("comment-between", "@mx.defcells\n# comment\ndef f(x):\n    return x + g"),
        ("indented", "    @mx.defcells\n    def f(x):\n        return x + g"),
    ]
    for i, (tag, text) in enumerate(texts):
        yield {"kind": "defcells", "text": text, "tag": tag, "ops": plan_ops(i), "key": ("defcells", tag)}


def evaluate_defcells(case):
    """`@mx.defcells` in a module file: the resulting cells must be the undecorated function."""
    c = ctx()
    S = c.space()
    fails = []
    text = case["text"]
    try:
        c.m.cur_space(S.name)
        mod = c.factory.load(text, "    " if text.startswith(" ") else "")
        cells = mod.f
    except Exception as e:
        return [("create-raises", (), "defcells raised %s\n%s" % (_exc(e), text))]
    plain = "\n".join(l for l in __import__("textwrap").dedent(text).split("\n") if not l.startswith(("@mx.defcells",)))
    e_dump, e_doc, e_params, ref = G.expected_def(plain, "f")
    try:
        got, gname = G.dump_def_source(cells.formula.source)
        if got != e_dump or gname != "f":
            fails.append(("capture:ast-differs", (), "source\n%s\ntext\n%s" % (cells.formula.source, text)))
    except (SyntaxError, ValueError) as e:
        fails.append(("capture:source-invalid", (), "%s\n%s" % (_exc(e), cells.formula.source)))
    if cells.parent is not S:
        fails.append(("capture:wrong-space", (), repr(cells)))
    if G.cells_outcome(cells, (3,)) != G.outcome(ref, (3,)):
        fails.append(("capture:value-differs", (), "%r vs %r" % (G.cells_outcome(cells, (3,)), G.outcome(ref, (3,)))))
    return fails


DEADLINE = [None]


def worker_any(chunk):
    if DEADLINE[0] and time.time() > DEADLINE[0]:
        return None
    out = []
    plain = []
    for case in chunk:
        if case["kind"] == "defcells":
            out.append((case["key"], [(case, chk, tags, what) for chk, tags, what in evaluate_defcells(case)]))
        else:
            plain.append(case)
    return out + worker(plain)


def run(res, tier, seed):
    res.bound = ("def texts: body {13 + 3 one-line forms} x docstring {10 literal styles} x comments {8 placements} x decorators {0,1,2,multi-line,commented} "
                 "x parameters {6 shapes incl. defaults, annotations, multi-line} x indentation {0,4,8%s} x cells name {same, longer%s} x return annotation; "
                 "lambdas: 26 lambda texts (14 of them holding an inner lambda inside a generator expression / list, dict, set comprehension / "
                 "conditional expression, with and without a condition clause) x 11 host statements x indentation; each text as source string or as function object from a module file "
                 "(alternating; every lambda in both forms); 28 special texts x both forms x 3 names; @mx.defcells in module files; "
                 "edit sequences of doc=d (9 texts d) and rename rotate over the cases; %s"
                 % (", 2, tab" if tier == "thorough" else "", ", shorter" if tier == "thorough" else "",
                    "thorough: all combinations with <= 3 non-neutral axes, a 1/16 lattice of the rest" if tier == "thorough" else
                    "quick: reduced value lists per axis (3 x 4 x 4 x 8 x 3 x 3 x 2), full product"))
    res.rule = ("exhaustive product inside the stated lists; one evaluation = one text through capture, idempotence and a 3-step edit sequence; non-trivial "
                "when the text is valid Python for the combination (always, invalid combinations are not generated); distinct = distinct (axis values, form)")
    cases = list(special_cases(tier)) + list(defcells_cases(tier)) + list(lambda_cases(tier)) + list(def_cases(tier))
    head = [c for c in cases if c["kind"] != "def" or "special" in c]
    tail = [c for c in cases if not (c["kind"] != "def" or "special" in c)]
    __import__("random").Random(20).shuffle(tail)     # fixed order: a budget stop then cuts a uniform sample, not a corner of the product
    cases = head + tail
    nproc = max(2, min(12, (os.cpu_count() or 4) - 2))
    soft_deadline = res.budget_s * 0.8
    chunks = [cases[i:i + 40] for i in range(0, len(cases), 40)]
    G.BASE = tempfile.mkdtemp(prefix="c20_")
    DEADLINE[0] = res.t0 + soft_deadline
    ctx_ = mp.get_context("fork")
    pool = ctx_.Pool(nproc, initializer=_init)
    res.exhaustive = True
    done = 0
    try:
        for out in pool.imap(worker_any, chunks):
            for key, reports in (out or ()):
                done += 1
                res.count(key, nontrivial=True)
                for small, check, optags, what in reports:
                    if small["kind"] == "defcells":
                        tags = ("defcells", "text:" + small["tag"], check)
                        script = DEFCELLS_SCRIPT % ({k: v for k, v in small.items() if k != "key"},)
                    else:
                        tags = G.feature_tags(small) + tuple(optags) + (check,) + ((("special:" + small["special"]),) + tuple(small.get("extra_tags", ())) if small.get("special") else ())
                        script = make_script({k: v for k, v in small.items() if k != "key"})
                    res.fail(tags=tags, what=what, script=script, case=key)
                if done % 3000 == 1:
                    res.sample({"key": key})
        if done < len(cases):
            res.exhaustive = False
            res.notes.append("stopped by the time budget after %d of %d texts" % (done, len(cases)))
        pool.close()
        res.notes.append("%d texts enumerated (%d def, %d lambda, %d special, %d defcells)" % (
            len(cases), sum(1 for c in cases if c["kind"] == "def" and "special" not in c), sum(1 for c in cases if c["kind"] == "lambda"),
            sum(1 for c in cases if "special" in c), sum(1 for c in cases if c["kind"] == "defcells")))
    finally:
        pool.terminate()
        pool.join()
        shutil.rmtree(G.BASE, ignore_errors=True)


def _init():
    sys.unraisablehook = lambda *a: None


if __name__ == "__main__":
    main("C20", run)
