"""C14 - saving never loses the last good save; failed saves and loads leave no residue.  Bounded stand-in driver.

Fault injection (c14_lib.Injector): every top-level pathlib.Path / shutil / zipfile.ZipFile / os / open / pickle
call made during `Model.write`, `Model.zip` or `read_model` is a fault point; the n-th one is made to raise once
(instead of doing its work, or - except for the renames/moves assumed atomic - right after doing it).

Save contract, after the faulty save of generation k+1 onto a path holding generations k, k-1, ... (each
generation differs in a literal reference, a pickled reference and an input value):
  * the save returned normally  => the path reads back equal to generation k+1, backups hold k, k-1, k-2;
  * the save raised             => generation k+1 is complete at the path, or generation k reads back equal from
                                   the path or from _BAK1;
  * every _BAKn present reads back equal to the generation it held (no damaged backup), generations found at
    path, _BAK1.._BAK3 are strictly decreasing, nothing but the oldest generation has disappeared, no _BAK4;
  * zip: the destination, if present, is a complete archive of generation k+1 or k;
  * registry = {the model}, System.serializing / IOManager.serializing are None, the model still describes as
    generation k+1; a following save to the same path succeeds and reads back equal, generations still in order.
Sequences of saves (seq_case): after k clean saves the same open model is saved again and again on the same path,
edited into the next generation before each save - two to four saves in a row made to fail (same or different fault
points, raise-instead / raise-after), failures separated by good saves - always ending with a clean save.  The same
save contract is evaluated after EVERY save of the sequence against the complete generations that were on disk before
it (the most recent one must stay at the path or _BAK1 however many saves fail in a row; the up to three most recent
ones must survive, in order; a clean save succeeds and keeps them).  Fault points are named (operation, call site,
n-th occurrence) so that they stay meaningful when the files are in another state (c14_lib).
Load contract, after the faulty read: no model other than those registered before is registered, flags are
None, the files are untouched, a following read succeeds and equals the saved generation, and the model read
can be saved again.
"""
from common import *
import c04_lib as L
from c14_lib import INJ, NO_AFTER
import multiprocessing as mp
import tempfile, shutil, zipfile, pathlib, gc, hashlib

# ------------------------------------------------------------------------------------ corpus
CORPUS = {
    "plain": ['S = m.new_space("S")', 'S.new_cells("f", formula="def f(x):\\n    return x + k")', "S.k = 1",
              'S.new_cells("h", formula="lambda x: f(x) * 2")'],
    "pickled": ['S = m.new_space("S")', 'C = S.new_space("C")', 'S.new_cells("f", formula="lambda x: x + len(data)")',
                'C.new_cells("g", formula="def g(x):\\n    return up.f(x)")', "C.up = S", "S.box = Box(C, [S.f])",
                'T = m.new_space("T", formula="lambda i: None")', 'T.new_cells("a", formula="lambda x: x * i")', "T[1].a[2] = 3",
                'B = m.new_space("B", bases=S)'],
    "io": ['S = m.new_space("S")', 'import pandas as pd', 'S.new_pandas("df", "data/df.csv", pd.DataFrame({"a": [1, 2, 3]}), file_type="csv")',
           'S.new_cells("f", formula="lambda x: int(df[\'a\'][x])")', 'S.new_pandas("ser", "data/ser.xlsx", pd.Series([1.5, 2.5], name="s"), file_type="excel")'],
}
GEN = ["m.gen = {g}", "m.spaces['S'].data = [{g}] * 3", "m.spaces['S'].f[0] = {g} * 100"]
SLOTS = ["", "_BAK1", "_BAK2", "_BAK3"]


def model_lines(name, g):
    return ['m = mx.new_model("M")'] + CORPUS[name] + [l.format(g=g) for l in GEN]


def build(name, g):
    ns = {"mx": mx, "Box": L.Box}
    for code in model_lines(name, g):
        exec(code, ns)
    return ns["m"]


def close_all(keep=()):
    for mm in list(mx.get_models().values()):
        if not any(mm is k for k in keep):
            try:
                mm.close()
            except Exception:
                pass


_DESC = {}


def expected(name, g):
    """Description of generation g of corpus model `name` (built in a scratch session)."""
    if (name, g) not in _DESC:
        close_all()
        m = build(name, g)
        _DESC[(name, g)] = L.describe(m)
        m.close()
    return _DESC[(name, g)]


def ddiff(d0, d1):
    """Difference of two descriptions; reference modes are C04's business, not C14's."""
    return [x for x in L.diff(d0, d1) if x[0][-1] != "refmode"]


def do_save(m, path, container):
    return m.write(path) if container == "dir" else m.zip(path)


_TEMPLATES = {}
_ROOT = None
_BASE = None        # set by run() before the pool forks; removed by run() in its finally
_SEQ = [0]


def root():
    """Scratch directory of this process (shallow on purpose: path depth adds find_zip_parent calls)."""
    global _ROOT
    if _ROOT is None:
        if _BASE:
            _ROOT = os.path.join(_BASE, "p%d" % os.getpid())
            os.makedirs(_ROOT, exist_ok=True)
        else:
            _ROOT = tempfile.mkdtemp(prefix="c14_")
    return _ROOT


def workdir():
    _SEQ[0] += 1
    d = os.path.join(root(), "w%d" % _SEQ[0])
    os.makedirs(d)
    return d


def precompute(name, upto=6):
    for g in range(1, max(6, upto) + 1):
        expected(name, g)


def set_generation(m, g):
    """Edit the open model into generation g (the three things in which generations differ)."""
    ns = {"m": m, "mx": mx}
    for l in GEN:
        exec(l.format(g=g), ns)


def template(name, container, k):
    """A directory holding the result of k successive clean saves (generations 1..k) of model `name`."""
    key = (name, container, k)
    if key not in _TEMPLATES:
        d = os.path.join(root(), "t_%s_%s_%d" % key)
        os.makedirs(d)
        p = os.path.join(d, "m" + (".zip" if container == "zip" else ""))
        for g in range(1, k + 1):
            close_all()
            m = build(name, g)
            do_save(m, p, container)
            m.close()
        _TEMPLATES[key] = d
    return _TEMPLATES[key]


def probe(path, name, keep):
    """('absent',) | ('gen', g, equal?) | ('unreadable', why) for one slot."""
    if not os.path.lexists(path):
        return ("absent",)
    try:
        r = mx.read_model(path, name="probe")
    except Exception as e:
        close_all(keep)
        return ("unreadable", "%s: %s" % (type(e).__name__, str(e)[:100]))
    try:
        d = L.describe(r)
        g = d.get(("model", "ref", "gen", "value"))
        g = int(g[1]) if g and g[0] == "int" else None
        if g is None or g < 1 or g > 9:
            return ("unreadable", "no generation marker")
        dd = ddiff(expected(name, g), d)
        return ("gen", g, not dd, dd[:2])
    finally:
        close_all(keep)


def flags_clean():
    s = sysimpl()
    bad = []
    if getattr(s, "serializing", None) is not None:
        bad.append("System.serializing=%r" % (s.serializing,))
    if getattr(s.iomanager, "serializing", None) is not None:
        bad.append("IOManager.serializing=%r" % (s.iomanager.serializing,))
    return bad


def tree_bytes(path):
    if os.path.isdir(path):
        return L.list_dir(path)
    if os.path.isfile(path):
        with open(path, "rb") as f:
            return {"": f.read()}
    return None


# ------------------------------------------------------------------------------------ one save fault
def save_case(name, container, k, fail_at, mode, flavour):
    """Returns (log_len, fired, violations[(tag, text)])."""
    bad = []
    precompute(name)
    tpl = template(name, container, k)
    work = workdir()
    try:
        w = os.path.join(work, "w")
        shutil.copytree(tpl, w)
        p = os.path.join(w, "m" + (".zip" if container == "zip" else ""))
        new = k + 1
        close_all()
        m = build(name, new)
        gc.collect()        # no stale ZipFile objects whose __del__ would add calls to the log
        _, exc, log, fired = INJ.run(lambda: do_save(m, p, container), fail_at, mode, flavour)
        if fail_at is not None and fired is None:
            return len(log), None, exc, bad          # the save made fewer calls than expected: nothing injected
        keep = (m,)
        slots = [probe(p + s, name, keep) for s in SLOTS]
        summary = "slots after the save: " + ", ".join("%s=%s" % (s or "path", x[:3]) for s, x in zip(SLOTS, slots))
        gens = [(i, x[1]) for i, x in enumerate(slots) if x[0] == "gen"]
        where = {g: i for i, g in gens}
        if os.path.lexists(p + "_BAK4"):
            bad.append(("extra-backup", "_BAK4 exists; " + summary))
        for i, x in enumerate(slots):
            if x[0] == "gen" and not x[2]:
                bad.append(("copy-differs", "slot %s holds generation %d but reads back different: %r; %s" % (SLOTS[i] or "path", x[1], x[3], summary)))
            if x[0] == "unreadable" and (i > 0 or container == "zip"):
                bad.append(("backup-damaged" if i else "partial-zip", "slot %s is present but unreadable (%s); %s" % (SLOTS[i] or "path", x[1], summary)))
        if [g for _, g in gens] != sorted({g for _, g in gens}, reverse=True):
            bad.append(("order-broken", summary))
        if exc is None:
            if slots[0][0] != "gen" or slots[0][1] != new:
                bad.append(("success-but-wrong", "save returned normally but the path does not hold generation %d; %s" % (new, summary)))
            for j, g in enumerate(range(k, max(k - 3, 0), -1), start=1):
                if where.get(g) != j:
                    bad.append(("success-but-wrong", "save returned normally, generation %d expected at _BAK%d; %s" % (g, j, summary)))
        else:
            new_complete = slots[0][0] == "gen" and slots[0][1] == new and slots[0][2]
            if k >= 1 and not new_complete and where.get(k) not in (0, 1):
                bad.append(("latest-lost", "save raised %s; generation %d is neither at the path nor at _BAK1; %s" % (type(exc).__name__, k, summary)))
            for g in range(k, max(k - 3, 0), -1):       # generations that sat at path, _BAK1, _BAK2: must survive, at most one slot further
                old = k - g
                if where.get(g) not in (old, old + 1):
                    if not (g == k and new_complete and where.get(g) == 1):
                        bad.append(("generation-lost" if g != k else "latest-lost",
                                    "save raised %s; generation %d (was at %s) is now at %s; %s"
                                    % (type(exc).__name__, g, SLOTS[old] or "path", where.get(g), summary)))
        if container == "zip" and os.path.lexists(p) and not (os.path.isfile(p) and zipfile.is_zipfile(p)):
            bad.append(("partial-zip", "the zip destination exists but is not a zip archive; " + summary))
        # ---- session
        names = sorted(mx.get_models())
        if names != ["M"] or mx.get_models().get("M") is not m:
            bad.append(("registry-residue", "models registered after the save: %r" % names))
        fl = flags_clean()
        if fl:
            bad.append(("flag-stale", "; ".join(fl)))
        try:
            dd = ddiff(expected(name, new), L.describe(m))
            if dd:
                bad.append(("model-altered", "the model changed during the save: %r" % (dd[:2],)))
        except Exception as e:
            bad.append(("model-unusable", "describing the model after the save raised %r" % (e,)))
        # ---- a following save and load behave normally
        try:
            do_save(m, p, container)
            x = probe(p, name, keep)
            if x[0] != "gen" or x[1] != new or not x[2]:
                bad.append(("followup-wrong", "the following save does not read back as generation %d: %r" % (new, x[:4])))
            after = [probe(p + s, name, keep) for s in SLOTS[1:]]
            g2 = [x[1] for x in after if x[0] == "gen"]
            if g2 != sorted(set(g2), reverse=True) or any(x[0] == "gen" and not x[2] for x in after):
                bad.append(("followup-order-broken", "after the following save the backups hold %r" % ([x[:3] for x in after],)))
            if exc is not None and k >= 1 and k not in g2 and not (slots[0][0] == "gen" and slots[0][1] == new):
                bad.append(("followup-latest-lost", "after the following save generation %d is gone: %r" % (k, [x[:3] for x in after])))
        except Exception as e:
            bad.append(("followup-save-fails", "a save after the failed one raised %s: %s" % (type(e).__name__, str(e)[:200])))
        fl = flags_clean()
        if fl and not any(t == "flag-stale" for t, _ in bad):
            bad.append(("flag-stale", "after follow-up: " + "; ".join(fl)))
        return len(log), fired, exc, bad
    finally:
        close_all()
        shutil.rmtree(work, ignore_errors=True)


# ------------------------------------------------------------------------------------ a sequence of saves
_READBACK = {}      # (corpus model, md5 of the bytes of a saved copy) -> what probe() read it back as


def seq_case(name, container, k, steps):
    """k clean saves (generations 1..k), then one save per step of the same open model, edited into the next
    generation before each save: step = None (clean save) or (fault point, mode, error) with the fault point named
    (operation, call site, n) - see c14_lib.  The contract is evaluated after EVERY save:

      * no _BAK4; every slot present reads back equal to the generation it names (zip: also the path); the
        generations found at path, _BAK1.._BAK3 are strictly decreasing; a zip destination is a complete archive;
      * the save returned normally => the path holds the new generation and the up to three most recent complete
        generations that were on disk before the save are all still there, in order, and nothing else;
      * the save raised => the most recent complete copy (the new generation if it is complete at the path, else the
        one that was the most recent before the save) is at the path or at _BAK1, and the up to three most recent
        complete generations that were on disk before the save are still there;
      * registry = {the model}, serializing flags None, the model still describes as the generation being saved;
      * a clean save succeeds.
    Returns (trace [(fired fault point or None, exception type name or None) per step], violations [(step, tag, text)])."""
    bad, trace = [], []
    precompute(name, k + len(steps))
    tpl = template(name, container, k)
    work = workdir()
    try:
        w = os.path.join(work, "w")
        shutil.copytree(tpl, w)
        p = os.path.join(w, "m" + (".zip" if container == "zip" else ""))
        close_all()
        g = k + 1
        m = build(name, g)
        keep = (m,)
        prev = {k - i: i for i in range(min(k, 4))}         # complete generation -> slot, before the step

        def probe1(path):
            """probe(), remembering per process what a copy with exactly these bytes read back as (a copy that was only
            renamed, or copied from the template, is not read again)."""
            if os.path.islink(path) or not (os.path.isfile(path) or os.path.isdir(path)):
                return probe(path, name, keep)
            h = hashlib.md5()
            if os.path.isdir(path):
                for d, dirs, files in os.walk(path):
                    dirs.sort()
                    h.update(("D" + os.path.relpath(d, path) + "\0").encode())
                    for f in sorted(files):
                        with open(os.path.join(d, f), "rb") as fh:
                            h.update(("F" + f + "\0").encode() + fh.read() + b"\0")
            else:
                with open(path, "rb") as fh:
                    h.update(b"file\0" + fh.read())
            key = (name, h.hexdigest())
            if key not in _READBACK:
                _READBACK[key] = probe(path, name, keep)
            return _READBACK[key]

        for n, step in enumerate(steps, 1):
            if n > 1:
                g += 1
                set_generation(m, g)
            gc.collect()
            if step is None:
                fired = None
                try:
                    do_save(m, p, container)
                    exc = None
                except Exception as e:
                    exc = e
            else:
                _, exc, _log, fired = INJ.run(lambda: do_save(m, p, container), step[0], step[1], step[2])
            trace.append((fired, type(exc).__name__ if exc is not None else None))
            slots = [probe1(p + s_) for s_ in SLOTS]
            summary = "slots after save #%d (generation %d, %s): " % (n, g, "raised " + type(exc).__name__ if exc is not None else "returned normally") + \
                      ", ".join("%s=%s" % (s_ or "path", x[:3]) for s_, x in zip(SLOTS, slots)) + \
                      "; complete generations before it: %r" % (sorted(prev.items(), key=lambda t: t[1]),)
            order = [x[1] for x in slots if x[0] == "gen"]
            where = {x[1]: i for i, x in enumerate(slots) if x[0] == "gen" and x[2]}
            add = lambda tag, text: bad.append((n, tag, text))
            if os.path.lexists(p + "_BAK4"):
                add("extra-backup", "_BAK4 exists; " + summary)
            for i, x in enumerate(slots):
                if x[0] == "gen" and not x[2]:
                    add("copy-differs", "slot %s holds generation %d but reads back different: %r; %s" % (SLOTS[i] or "path", x[1], x[3], summary))
                if x[0] == "unreadable" and (i > 0 or container == "zip"):
                    add("backup-damaged" if i else "partial-zip", "slot %s is present but unreadable (%s); %s" % (SLOTS[i] or "path", x[1], summary))
            if order != sorted(set(order), reverse=True):
                add("order-broken", summary)
            if container == "zip" and os.path.lexists(p) and not (os.path.isfile(p) and zipfile.is_zipfile(p)):
                add("partial-zip", "the zip destination exists but is not a zip archive; " + summary)
            survivors = sorted(prev, reverse=True)[:3]
            latest = survivors[0] if survivors else None
            if exc is None:
                if where.get(g) != 0:
                    add("success-but-wrong", "save returned normally but the path does not hold generation %d; %s" % (g, summary))
                if [x for x in order if x != g] != survivors:
                    add("success-but-wrong", "save returned normally; the earlier generations kept should be %r, in this order; %s" % (survivors, summary))
            else:
                if step is None:
                    add("followup-save-fails", "a clean save raised %s: %s; %s" % (type(exc).__name__, str(exc)[:200], summary))
                new_complete = where.get(g) == 0
                if latest is not None and not new_complete and where.get(latest) not in (0, 1):
                    add("latest-lost", "save raised %s; the most recent complete copy (generation %d) is neither at the path nor at _BAK1; %s"
                        % (type(exc).__name__, latest, summary))
                for gg in survivors:
                    if gg not in where and not (gg == latest and not new_complete):
                        add("generation-lost",
                            "save raised %s; generation %d (was at %s) is gone; %s" % (type(exc).__name__, gg, SLOTS[prev[gg]] or "path", summary))
            # ---- session
            names = sorted(mx.get_models())
            if names != ["M"] or mx.get_models().get("M") is not m:
                add("registry-residue", "models registered after save #%d: %r" % (n, names))
            fl = flags_clean()
            if fl:
                add("flag-stale", "after save #%d: %s" % (n, "; ".join(fl)))
            try:
                dd = ddiff(expected(name, g), L.describe(m))
                if dd:
                    add("model-altered", "the model changed during save #%d: %r" % (n, dd[:2]))
            except Exception as e:
                add("model-unusable", "describing the model after save #%d raised %r" % (n, e))
            prev = where
        return trace, bad
    finally:
        close_all()
        shutil.rmtree(work, ignore_errors=True)


# ------------------------------------------------------------------------------------ one load fault
def load_case(name, container, collide, fail_at, flavour):
    bad = []
    precompute(name)
    tpl = template(name, container, 1)
    work = workdir()
    try:
        w = os.path.join(work, "w")
        shutil.copytree(tpl, w)
        p = os.path.join(w, "m" + (".zip" if container == "zip" else ""))
        close_all()
        before_files = tree_bytes(p)
        old = build(name, 2) if collide else None       # an open model with the name stored in the file
        before = list(mx.get_models().values())
        kw = {} if collide else {"name": "L"}
        gc.collect()
        res_, exc, log, fired = INJ.run(lambda: mx.read_model(p, **kw), fail_at, "before", flavour)
        if fail_at is not None and fired is None:
            return len(log), None, exc, bad
        after = list(mx.get_models().values())
        if exc is not None:
            extra = [mm for mm in after if not any(mm is b for b in before)]
            if extra:
                bad.append(("half-loaded-model", "the failed read left %r registered" % ([mm.name for mm in extra],)))
            if collide and not any(mm is old for mm in after):
                bad.append(("old-model-dropped", "the model that was open before the failed read is no longer registered"))
            if collide and any(mm is old for mm in after):
                try:
                    dd = ddiff(expected(name, 2), L.describe(old))
                    if dd:
                        bad.append(("old-model-altered", "%r" % (dd[:2],)))
                except Exception as e:
                    bad.append(("old-model-unusable", repr(e)))
        else:
            try:
                res_.close()
            except Exception as e:
                bad.append(("loaded-model-unusable", repr(e)))
        fl = flags_clean()
        if fl:
            bad.append(("flag-stale", "; ".join(fl)))
        if tree_bytes(p) != before_files:
            bad.append(("files-touched", "the read changed the saved files"))
        try:
            r = mx.read_model(p, name="L2")
            dd = ddiff(expected(name, 1), L.describe(r))
            if dd:
                bad.append(("followup-wrong", "a read after the failed one differs: %r" % (dd[:2],)))
            p2 = os.path.join(w, "again" + (".zip" if container == "zip" else ""))
            do_save(r, p2, container)
            x = probe(p2, name, tuple(mx.get_models().values()))
            if x[0] != "gen" or not x[2]:
                bad.append(("followup-wrong", "saving the model read after the failed read gives %r" % (x[:4],)))
        except Exception as e:
            bad.append(("followup-load-fails", "a read/save after the failed read raised %s: %s" % (type(e).__name__, str(e)[:200])))
        return len(log), fired, exc, bad
    finally:
        close_all()
        shutil.rmtree(work, ignore_errors=True)


# ------------------------------------------------------------------------------------ scripts
SCRIPT = '''import warnings; warnings.filterwarnings("ignore")
import sys, os, tempfile, shutil
sys.path.insert(0, os.environ.get("C14_DRIVERS", "/verif/drivers"))
import c14
from c14_lib import INJ
INJ.install()
try:
    n, fired, exc, bad = c14.{func}(*{args!r})
finally:
    INJ.uninstall()
    shutil.rmtree(c14.root(), ignore_errors=True)
print("fault point:", fired, "| the operation under test", "raised %r" % (exc,) if exc else "returned normally")
for b in bad:
    print(b)
print("C14 violated" if bad else "C14 holds for this fault")
sys.exit(1 if bad else 0)
'''


SEQ_SCRIPT = '''import warnings; warnings.filterwarnings("ignore")
import sys, os, tempfile, shutil
sys.path.insert(0, os.environ.get("C14_DRIVERS", "/verif/drivers"))
import c14
from c14_lib import INJ
INJ.install()
try:
    trace, bad = c14.seq_case(*{args!r})
finally:
    INJ.uninstall()
    shutil.rmtree(c14.root(), ignore_errors=True)
for n, (fired, exc) in enumerate(trace, 1):
    print("save #%d:" % n, "fault at %r," % (fired,) if fired else "no fault,", "raised " + exc if exc else "returned normally")
for b in bad:
    print(b)
print("C14 violated" if bad else "C14 holds for this sequence of saves")
sys.exit(1 if bad else 0)
'''


# ------------------------------------------------------------------------------------ sequences of saves
SEQ_CONTAINERS = ("zip", "dir")


def keyed(log):
    """Fault points of a clean log named (operation, call site, n-th occurrence)."""
    cnt, out = {}, []
    for lab, site in log:
        n = cnt.get((lab, site), 0)
        cnt[(lab, site)] = n + 1
        out.append((lab, site, n))
    return out


def select_sequences(log, tier, light=False):
    """Sequences of saves for one (model, container, history): tuples of steps, the last one always a clean save.

    With F(p) = fault p raises instead of the call, A(p) = right after it (not renames/moves), per scenario:
      twice      F(p) F(p) ok            p = first and last (thorough: and middle; light: first only, every 2nd of them
                                         when there are more than 30) occurrence per (operation, call site)
      four       F(p) x4 ok              p = first occurrences (quick: every 3rd)   [more failures than backup slots]
      three      F(p) x3 ok              thorough: every 2nd first occurrence
      mixed      F(p) F(q) ok            p != q over one fault point per phase of the save (quick: each p with 2 q's,
                                         light: 1)
      completed  A(p) F(p) ok, A(p) A(p) ok   (a save that raised after doing the work, then one that did not)
      alternate  F(p) ok F(p) ok         failures separated by good saves"""
    ks = keyed(log)
    by = {}
    for i, kk in enumerate(ks):
        by.setdefault(kk[:2], []).append(i)
    firsts = [ks[v[0]] for v in sorted(by.values())]
    if tier == "thorough":
        rep = [ks[i] for i in sorted({j for v in by.values() for j in (v[0], v[len(v) // 2], v[-1])})]
    else:
        rep = [ks[i] for i in sorted({j for v in by.values() for j in ((v[0],) if light else (v[0], v[-1]))})]
        if light and len(rep) > 30:
            rep = rep[::2]
    F = lambda q: (q, "before", "EIO")
    A = lambda q: (q, "after", "EIO")
    can_after = lambda q: q[0] not in NO_AFTER
    phase = firsts[::3]
    out = []
    for q in rep:
        out.append((F(q), F(q), None))
    for q in (firsts if tier == "thorough" else firsts[1::3]):
        out.append((F(q),) * 4 + (None,))
    if tier == "thorough":
        for q in firsts[::2]:
            out.append((F(q),) * 3 + (None,))
    for i, q in enumerate(phase):
        others = [r for r in phase if r != q]
        if tier != "thorough":
            others = [others[(i + d) % len(others)] for d in ((0,) if light else (0, len(others) // 2))] if others else []
        for r in others:
            out.append((F(q), F(r), None))
    for q in (firsts if tier == "thorough" else phase):
        if can_after(q):
            out.append((A(q), F(q), None))
            if tier == "thorough":
                out.append((A(q), A(q), None))
    for q in (firsts[::2] if tier == "thorough" else phase[::2]):
        out.append((F(q), None, F(q), None))
    seen, uniq = set(), []
    for sq in out:
        if sq not in seen:
            seen.add(sq)
            uniq.append(sq)
    return uniq


# ------------------------------------------------------------------------------------ tasks
def count_ops(kind, name, container, k_or_collide):
    if kind == "save":
        n, _, exc, _ = save_case(name, container, k_or_collide, None, "before", "EIO")
    else:
        n, _, exc, _ = load_case(name, container, k_or_collide, None, "EIO")
    return n


DEADLINE = [None]


def worker(task):
    kind, name, container, x, points = task
    if DEADLINE[0] and time.time() > DEADLINE[0]:
        return task[:4], None
    sys.unraisablehook = lambda *a: None
    INJ.install()
    out = []
    if kind == "seq":
        for steps in points:
            trace, bad = seq_case(name, container, x, steps)
            out.append((steps, trace, bad))
        return task[:4], out
    for fail_at, mode, flavour in points:
        if kind == "save":
            n, fired, exc, bad = save_case(name, container, x, fail_at, mode, flavour)
        else:
            n, fired, exc, bad = load_case(name, container, x, fail_at, flavour)
        out.append((fail_at, mode, flavour, fired, type(exc).__name__ if exc else None, bad))
    return task[:4], out


def survey(task):
    """Clean run of one scenario under the (disarmed) injector: returns its log of fault points."""
    kind, name, container, x = task
    sys.unraisablehook = lambda *a: None
    INJ.install()
    precompute(name)
    tpl = template(name, container, x if kind == "save" else 1)
    work = workdir()
    if kind == "save":
        w = os.path.join(work, "w")
        shutil.copytree(tpl, w)
        p = os.path.join(w, "m" + (".zip" if container == "zip" else ""))
        close_all()
        m = build(name, x + 1)
        gc.collect()
        _, exc, log, _ = INJ.run(lambda: do_save(m, p, container))
    else:
        w = os.path.join(work, "w")
        shutil.copytree(tpl, w)
        p = os.path.join(w, "m" + (".zip" if container == "zip" else ""))
        close_all()
        if x:
            build(name, 2)
        gc.collect()
        _, exc, log, _ = INJ.run(lambda: mx.read_model(p, **({} if x else {"name": "L"})))
    close_all()
    shutil.rmtree(work, ignore_errors=True)
    return task, list(log), repr(exc) if exc else None


def select_points(log, tier, kind):
    """Fault points (index, mode, error).

    thorough: every call raises OSError instead of executing; per (operation, call site) the first, a middle and the
    last occurrence also raise after executing, raise FileNotFoundError, and (archive/file writes) PermissionError.
    quick: per (operation, call site) the first and the last occurrence; raise-after and FileNotFoundError on part of them."""
    by = {}
    for i, key in enumerate(log):
        by.setdefault(key, []).append(i)
    pts = []
    if tier == "thorough":
        rep = sorted({j for v in by.values() for j in (v[0], v[len(v) // 2], v[-1])})
        for i in range(len(log)):
            pts.append((i, "before", "EIO"))
        for i in rep:
            label = log[i][0]
            if kind == "save" and label not in NO_AFTER:
                pts.append((i, "after", "EIO"))
            pts.append((i, "before", "ENOENT"))
            if kind == "save" and label.startswith(("ZipFile", "shutil", "open", "Path.open")):
                pts.append((i, "before", "EACCES"))
    else:
        rep = sorted({j for v in by.values() for j in (v[0], v[-1])})
        for n, i in enumerate(rep):
            label, site = log[i]
            pts.append((i, "before", "EIO"))
            if kind == "save" and label not in NO_AFTER and "find_zip_parent" not in site and n % 2 == 0:
                pts.append((i, "after", "EIO"))
            if kind == "load" and n % 4 == 0:
                pts.append((i, "before", "ENOENT"))
            if kind == "save" and label.startswith("ZipFile") and "copy_file" in site:
                pts.append((i, "before", "EACCES"))     # the retry loop of ziputil.copy_file
    return pts


def run(res, tier, seed):
    models = ["plain", "pickled", "io"]
    ks = [0, 1, 4] if tier == "quick" else [0, 1, 2, 3, 4]
    res.bound = ("quick: 2 of the " if tier == "quick" else "") + ("3 corpus models (literal refs only / pickled refs, nested + derived spaces, ItemSpace input / pandas IOSpecs written "
                 "as csv and xlsx) x {dir, zip} x faulty save number k+1 for k in %s prior clean saves, and faulty loads with / without an "
                 "open model of the same name; fault points = %s top-level pathlib/shutil/zipfile/os/open/pickle call made by the operation; "
                 "modes: raise instead of the call, raise right after it (not for rename/move); errors: OSError(EIO) / PicklingError%s"
                 % (ks, "every" if tier == "thorough" else "first and last occurrence per (operation, call site) of the",
                    "; FileNotFoundError, PermissionError (archive writes) and raise-after on first/middle/last occurrence per (operation, call site)"
                    if tier == "thorough" else ", FileNotFoundError on a quarter of the load points, PermissionError on the archive calls of copy_file"))
    res.bound += ("; + sequences of 3-5 saves on one path (containers %s; %s), ending with a clean save: the same fault twice / "
                  "three times (thorough) / four times in a row, two different faults in a row (one fault point per phase of the save), "
                  "a fault raised after the work then the same fault instead of it, faults separated by clean saves; fault points = "
                  "%s occurrence per (operation, call site) of the clean log, named by (operation, site, occurrence)"
                  % ("/".join(SEQ_CONTAINERS), "models pickled k=4 (zip: and k=1) and io k=4" if tier == "quick" else "pickled x k in 0,1,2,4, plain and io x k in 1,4",
                     "first (zip, pickled, k=4: and last)" if tier == "quick" else "first, middle and last"))
    res.rule = ("exhaustive over the bound; one evaluation = one injected fault followed by the whole contract (4 slots read back, registry, flags, "
                "model, following save and load); non-trivial when the fault fired (the call with that index was reached); "
                "distinct = distinct (scenario, call index, mode, error).  One sequence of saves = one evaluation (the contract is "
                "evaluated after each of its saves); non-trivial when at least two of its faults fired; distinct = distinct "
                "(scenario, sequence of named fault points)")
    if tier == "quick":
        scenarios = [("save", n, c, k) for n in ("pickled", "io") for c in ("dir", "zip") for k in ((0, 1, 4) if n == "pickled" else (4,))] + \
                    [("load", n, c, col) for n in ("pickled", "io") for c in ("dir", "zip") for col in ((False, True) if n == "pickled" else (False,))]
    else:
        scenarios = [("save", n, c, k) for n in models for c in ("dir", "zip") for k in ks] + \
                    [("load", n, c, col) for n in models for c in ("dir", "zip") for col in (False, True)]
    nproc = max(2, min(12, (os.cpu_count() or 4) - 2))
    soft_deadline = res.budget_s * 0.8
    global _BASE
    _BASE = tempfile.mkdtemp(prefix="c14_")
    DEADLINE[0] = res.t0 + soft_deadline
    ctx = mp.get_context("fork")
    pool = ctx.Pool(nproc)
    res.exhaustive = True
    try:
        logs = {}
        for task, log, exc in pool.imap(survey, scenarios):
            logs[task] = log
            if exc:     # the clean operation itself fails: a violation of "later saves and loads behave normally" in the plainest form
                res.fail(tags=("clean-run-raises", task[0], "container:" + task[2], "model:" + task[1]), what="clean %s raised %s" % (task, exc),
                         script=None, case=task)
        tasks = []
        for sc in scenarios:
            pts = select_points(logs[sc], tier, sc[0])
            for i in range(0, len(pts), 12):
                tasks.append(sc + (pts[i:i + 12],))
        # interleave scenarios so that a budget stop cuts all of them evenly
        tasks.sort(key=lambda t: (t[4][0][0] // 12, scenarios.index(t[:4])))
        # sequences of saves on the same path (several consecutive failures, failures between good saves)
        seq_scen = [("seq", n, c, k) for n in (("pickled", "io") if tier == "quick" else models) for c in SEQ_CONTAINERS
                    for k in (((1, 4) if (n, c) == ("pickled", "zip") else (4,)) if tier == "quick" else ((0, 1, 2, 4) if n == "pickled" else (1, 4)))]
        seq_tasks, nseq = [], 0
        for si, sc in enumerate(seq_scen):
            sqs = select_sequences(logs[("save",) + sc[1:]], tier, light=(tier == "quick" and (sc[1] == "io" or sc[2:] != ("zip", 4))))
            nseq += len(sqs)
            for ci, i in enumerate(range(0, len(sqs), 4)):
                seq_tasks.append((ci, si, sc + (sqs[i:i + 4],)))
        seq_tasks.sort(key=lambda t: t[:2])
        # spread the sequence tasks evenly among the single-fault tasks (a budget stop cuts both kinds alike)
        merged, a, b = [], tasks, [t[2] for t in seq_tasks]
        ia = ib = 0
        while ia < len(a) or ib < len(b):
            if ib >= len(b) or (ia < len(a) and ia * len(b) <= ib * len(a)):
                merged.append(a[ia]); ia += 1
            else:
                merged.append(b[ib]); ib += 1
        tasks = merged
        total = sum(len(t[4]) for t in tasks)
        done = 0
        for sc, out in pool.imap(worker, tasks):
            if out is None:
                continue
            if sc[0] == "seq":
                for steps, trace, bad in out:
                    done += 1
                    key = sc + (steps,)
                    nfired = sum(1 for fired, _ in trace if fired is not None)
                    res.count(key, nontrivial=nfired >= 2)
                    base = ("save-sequence", "container:" + sc[2], "model:" + sc[1], "history:%d" % sc[3], "saves:%d" % len(steps))
                    bytag = {}
                    for n, t, text in bad:
                        run_ = 0
                        for _f, exc in reversed(trace[:n]):
                            if exc is None:
                                break
                            run_ += 1
                        fired = trace[n - 1][0]
                        st = steps[n - 1]
                        ft = ("op:" + fired[0], "site:" + fired[1], "mode:" + st[1], "error:" + st[2]) if fired else ("clean-save",)
                        extra = ()
                        if run_ >= 2:
                            extra += ("consecutive-failed-saves",)        # this save and the one before it both raised
                        if any(exc for _f, exc in trace[:n - 1]):
                            extra += ("after-failed-save",)               # an earlier save of the sequence raised
                        bytag.setdefault(base + ("step:%d" % n, "consecutive-failures:%d" % run_, t) + ft + extra, text)
                    for tags, text in sorted(bytag.items()):
                        res.fail(tags=tags, what="saves %s; %s" % (", ".join(
                            "#%d %s" % (i, ("%s at %s (%s) -> %s" % (f[0], f[1], steps[i - 1][1], e or "no exception")) if f else ("clean -> %s" % (e or "ok")))
                            for i, (f, e) in enumerate(trace, 1)), text),
                            script=SEQ_SCRIPT.format(args=(sc[1], sc[2], sc[3], steps)), case=key)
                    if done % 200 == 1:
                        res.sample({"scenario": sc, "saves": [list(st_) if st_ else None for st_ in steps], "trace": trace})
                continue
            log = logs[sc]
            for fail_at, mode, flavour, fired, exc, bad in out:
                done += 1
                key = sc + (fail_at, mode, flavour)
                res.count(key, nontrivial=fired is not None)
                if fired is None:
                    continue
                label, site = fired
                base = (sc[0], "container:" + sc[2], "model:" + sc[1], ("history:%d" % sc[3]) if sc[0] == "save" else ("same-name-open" if sc[3] else "new-name"),
                        "op:" + label, "site:" + site, "mode:" + mode, "error:" + flavour)
                bytag = {}
                for t, text in bad:
                    bytag.setdefault(t, text)
                for t, text in sorted(bytag.items()):
                    func = "save_case" if sc[0] == "save" else "load_case"
                    args = (sc[1], sc[2], sc[3], fail_at, mode, flavour) if sc[0] == "save" else (sc[1], sc[2], sc[3], fail_at, flavour)
                    res.fail(tags=base + (t,), what="fault #%d %s at %s (%s, %s); operation %s; %s"
                             % (fail_at, label, site, mode, flavour, "raised " + exc if exc else "returned normally", text),
                             script=SCRIPT.format(func=func, args=args), case=key)
                if done % 500 == 1:
                    res.sample({"scenario": sc, "fault": [fail_at, label, site, mode, flavour], "operation_raised": exc})
        if done < total:
            res.exhaustive = False
            res.notes.append("stopped by the time budget after %d of %d fault points and sequences" % (done, total))
        pool.close()
        res.notes.append("%d scenarios, %d single fault points selected of %d calls logged in clean runs; %d sequences of saves in %d scenarios"
                         % (len(scenarios), total - nseq, sum(len(v) for v in logs.values()), nseq, len(seq_scen)))
    finally:
        pool.terminate()
        pool.join()
        shutil.rmtree(_BASE, ignore_errors=True)


if __name__ == "__main__":
    main("C14", run)
