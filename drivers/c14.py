"""C14 - saving never loses the last good save; failed saves and loads leave no residue.  Bounded stand-in driver.

Fault injection (c14_lib.Injector): every top-level pathlib.Path / shutil / zipfile.ZipFile / os / open / pickle
call made during `Model.write`, `Model.zip` or `read_model` is a fault point; the n-th one is made to raise once
(instead of doing its work, or - except for the renames/moves assumed atomic - right after doing it).

Save contract, after the faulty save of generation k+1 onto a path holding generations k, k-1, ... (each
generation differs in a literal reference, a pickled reference and an input value):
  * the save returned normally  => the path reads back equal to generation k+1, backups hold k, k-1, k-2;
  * the save raised             => generation k+1 is complete at the path, or generation k reads back equal from
                                   the path or from _BAK1;
  * every _BAKn present reads back equal to the generation it held (no damaged backup), generations found at
    path, _BAK1.._BAK3 are strictly decreasing, nothing but the oldest generation has disappeared, no _BAK4;
  * zip: the destination, if present, is a complete archive of generation k+1 or k;
  * registry = {the model}, System.serializing / IOManager.serializing are None, the model still describes as
    generation k+1; a following save to the same path succeeds and reads back equal, generations still in order.
Load contract, after the faulty read: no model other than those registered before is registered, flags are
None, the files are untouched, a following read succeeds and equals the saved generation, and the model read
can be saved again.
"""
from common import *
import c04_lib as L
from c14_lib import INJ, NO_AFTER
import multiprocessing as mp
import tempfile, shutil, zipfile, pathlib, gc

# ------------------------------------------------------------------------------------ corpus
CORPUS = {
    "plain": ['S = m.new_space("S")', 'S.new_cells("f", formula="def f(x):\\n    return x + k")', "S.k = 1",
              'S.new_cells("h", formula="lambda x: f(x) * 2")'],
    "pickled": ['S = m.new_space("S")', 'C = S.new_space("C")', 'S.new_cells("f", formula="lambda x: x + len(data)")',
                'C.new_cells("g", formula="def g(x):\\n    return up.f(x)")', "C.up = S", "S.box = Box(C, [S.f])",
                'T = m.new_space("T", formula="lambda i: None")', 'T.new_cells("a", formula="lambda x: x * i")', "T[1].a[2] = 3",
                'B = m.new_space("B", bases=S)'],
    "io": ['S = m.new_space("S")', 'import pandas as pd', 'S.new_pandas("df", "data/df.csv", pd.DataFrame({"a": [1, 2, 3]}), file_type="csv")',
           'S.new_cells("f", formula="lambda x: int(df[\'a\'][x])")', 'S.new_pandas("ser", "data/ser.xlsx", pd.Series([1.5, 2.5], name="s"), file_type="excel")'],
}
GEN = ["m.gen = {g}", "m.spaces['S'].data = [{g}] * 3", "m.spaces['S'].f[0] = {g} * 100"]
SLOTS = ["", "_BAK1", "_BAK2", "_BAK3"]


def model_lines(name, g):
    return ['m = mx.new_model("M")'] + CORPUS[name] + [l.format(g=g) for l in GEN]


def build(name, g):
    ns = {"mx": mx, "Box": L.Box}
    for code in model_lines(name, g):
        exec(code, ns)
    return ns["m"]


def close_all(keep=()):
    for mm in list(mx.get_models().values()):
        if not any(mm is k for k in keep):
            try:
                mm.close()
            except Exception:
                pass


_DESC = {}


def expected(name, g):
    """Description of generation g of corpus model `name` (built in a scratch session)."""
    if (name, g) not in _DESC:
        close_all()
        m = build(name, g)
        _DESC[(name, g)] = L.describe(m)
        m.close()
    return _DESC[(name, g)]


def ddiff(d0, d1):
    """Difference of two descriptions; reference modes are C04's business, not C14's."""
    return [x for x in L.diff(d0, d1) if x[0][-1] != "refmode"]


def do_save(m, path, container):
    return m.write(path) if container == "dir" else m.zip(path)


_TEMPLATES = {}
_ROOT = None
_BASE = None        # set by run() before the pool forks; removed by run() in its finally
_SEQ = [0]


def root():
    """Scratch directory of this process (shallow on purpose: path depth adds find_zip_parent calls)."""
    global _ROOT
    if _ROOT is None:
        if _BASE:
            _ROOT = os.path.join(_BASE, "p%d" % os.getpid())
            os.makedirs(_ROOT, exist_ok=True)
        else:
            _ROOT = tempfile.mkdtemp(prefix="c14_")
    return _ROOT


def workdir():
    _SEQ[0] += 1
    d = os.path.join(root(), "w%d" % _SEQ[0])
    os.makedirs(d)
    return d


def precompute(name):
    for g in range(1, 7):
        expected(name, g)


def template(name, container, k):
    """A directory holding the result of k successive clean saves (generations 1..k) of model `name`."""
    key = (name, container, k)
    if key not in _TEMPLATES:
        d = os.path.join(root(), "t_%s_%s_%d" % key)
        os.makedirs(d)
        p = os.path.join(d, "m" + (".zip" if container == "zip" else ""))
        for g in range(1, k + 1):
            close_all()
            m = build(name, g)
            do_save(m, p, container)
            m.close()
        _TEMPLATES[key] = d
    return _TEMPLATES[key]


def probe(path, name, keep):
    """('absent',) | ('gen', g, equal?) | ('unreadable', why) for one slot."""
    if not os.path.lexists(path):
        return ("absent",)
    try:
        r = mx.read_model(path, name="probe")
    except Exception as e:
        close_all(keep)
        return ("unreadable", "%s: %s" % (type(e).__name__, str(e)[:100]))
    try:
        d = L.describe(r)
        g = d.get(("model", "ref", "gen", "value"))
        g = int(g[1]) if g and g[0] == "int" else None
        if g is None or g < 1 or g > 9:
            return ("unreadable", "no generation marker")
        dd = ddiff(expected(name, g), d)
        return ("gen", g, not dd, dd[:2])
    finally:
        close_all(keep)


def flags_clean():
    s = sysimpl()
    bad = []
    if getattr(s, "serializing", None) is not None:
        bad.append("System.serializing=%r" % (s.serializing,))
    if getattr(s.iomanager, "serializing", None) is not None:
        bad.append("IOManager.serializing=%r" % (s.iomanager.serializing,))
    return bad


def tree_bytes(path):
    if os.path.isdir(path):
        return L.list_dir(path)
    if os.path.isfile(path):
        with open(path, "rb") as f:
            return {"": f.read()}
    return None


# ------------------------------------------------------------------------------------ one save fault
def save_case(name, container, k, fail_at, mode, flavour):
    """Returns (log_len, fired, violations[(tag, text)])."""
    bad = []
    precompute(name)
    tpl = template(name, container, k)
    work = workdir()
    try:
        w = os.path.join(work, "w")
        shutil.copytree(tpl, w)
        p = os.path.join(w, "m" + (".zip" if container == "zip" else ""))
        new = k + 1
        close_all()
        m = build(name, new)
        gc.collect()        # no stale ZipFile objects whose __del__ would add calls to the log
        _, exc, log, fired = INJ.run(lambda: do_save(m, p, container), fail_at, mode, flavour)
        if fail_at is not None and fired is None:
            return len(log), None, exc, bad          # the save made fewer calls than expected: nothing injected
        keep = (m,)
        slots = [probe(p + s, name, keep) for s in SLOTS]
        summary = "slots after the save: " + ", ".join("%s=%s" % (s or "path", x[:3]) for s, x in zip(SLOTS, slots))
        gens = [(i, x[1]) for i, x in enumerate(slots) if x[0] == "gen"]
        where = {g: i for i, g in gens}
        if os.path.lexists(p + "_BAK4"):
            bad.append(("extra-backup", "_BAK4 exists; " + summary))
        for i, x in enumerate(slots):
            if x[0] == "gen" and not x[2]:
                bad.append(("copy-differs", "slot %s holds generation %d but reads back different: %r; %s" % (SLOTS[i] or "path", x[1], x[3], summary)))
            if x[0] == "unreadable" and (i > 0 or container == "zip"):
                bad.append(("backup-damaged" if i else "partial-zip", "slot %s is present but unreadable (%s); %s" % (SLOTS[i] or "path", x[1], summary)))
        if [g for _, g in gens] != sorted({g for _, g in gens}, reverse=True):
            bad.append(("order-broken", summary))
        if exc is None:
            if slots[0][0] != "gen" or slots[0][1] != new:
                bad.append(("success-but-wrong", "save returned normally but the path does not hold generation %d; %s" % (new, summary)))
            for j, g in enumerate(range(k, max(k - 3, 0), -1), start=1):
                if where.get(g) != j:
                    bad.append(("success-but-wrong", "save returned normally, generation %d expected at _BAK%d; %s" % (g, j, summary)))
        else:
            new_complete = slots[0][0] == "gen" and slots[0][1] == new and slots[0][2]
            if k >= 1 and not new_complete and where.get(k) not in (0, 1):
                bad.append(("latest-lost", "save raised %s; generation %d is neither at the path nor at _BAK1; %s" % (type(exc).__name__, k, summary)))
            for g in range(k, max(k - 3, 0), -1):       # generations that sat at path, _BAK1, _BAK2: must survive, at most one slot further
                old = k - g
                if where.get(g) not in (old, old + 1):
                    if not (g == k and new_complete and where.get(g) == 1):
                        bad.append(("generation-lost" if g != k else "latest-lost",
                                    "save raised %s; generation %d (was at %s) is now at %s; %s"
                                    % (type(exc).__name__, g, SLOTS[old] or "path", where.get(g), summary)))
        if container == "zip" and os.path.lexists(p) and not (os.path.isfile(p) and zipfile.is_zipfile(p)):
            bad.append(("partial-zip", "the zip destination exists but is not a zip archive; " + summary))
        # ---- session
        names = sorted(mx.get_models())
        if names != ["M"] or mx.get_models().get("M") is not m:
            bad.append(("registry-residue", "models registered after the save: %r" % names))
        fl = flags_clean()
        if fl:
            bad.append(("flag-stale", "; ".join(fl)))
        try:
            dd = ddiff(expected(name, new), L.describe(m))
            if dd:
                bad.append(("model-altered", "the model changed during the save: %r" % (dd[:2],)))
        except Exception as e:
            bad.append(("model-unusable", "describing the model after the save raised %r" % (e,)))
        # ---- a following save and load behave normally
        try:
            do_save(m, p, container)
            x = probe(p, name, keep)
            if x[0] != "gen" or x[1] != new or not x[2]:
                bad.append(("followup-wrong", "the following save does not read back as generation %d: %r" % (new, x[:4])))
            after = [probe(p + s, name, keep) for s in SLOTS[1:]]
            g2 = [x[1] for x in after if x[0] == "gen"]
            if g2 != sorted(set(g2), reverse=True) or any(x[0] == "gen" and not x[2] for x in after):
                bad.append(("followup-order-broken", "after the following save the backups hold %r" % ([x[:3] for x in after],)))
            if exc is not None and k >= 1 and k not in g2 and not (slots[0][0] == "gen" and slots[0][1] == new):
                bad.append(("followup-latest-lost", "after the following save generation %d is gone: %r" % (k, [x[:3] for x in after])))
        except Exception as e:
            bad.append(("followup-save-fails", "a save after the failed one raised %s: %s" % (type(e).__name__, str(e)[:200])))
        fl = flags_clean()
        if fl and not any(t == "flag-stale" for t, _ in bad):
            bad.append(("flag-stale", "after follow-up: " + "; ".join(fl)))
        return len(log), fired, exc, bad
    finally:
        close_all()
        shutil.rmtree(work, ignore_errors=True)


# ------------------------------------------------------------------------------------ one load fault
def load_case(name, container, collide, fail_at, flavour):
    bad = []
    precompute(name)
    tpl = template(name, container, 1)
    work = workdir()
    try:
        w = os.path.join(work, "w")
        shutil.copytree(tpl, w)
        p = os.path.join(w, "m" + (".zip" if container == "zip" else ""))
        close_all()
        before_files = tree_bytes(p)
        old = build(name, 2) if collide else None       # an open model with the name stored in the file
        before = list(mx.get_models().values())
        kw = {} if collide else {"name": "L"}
        gc.collect()
        res_, exc, log, fired = INJ.run(lambda: mx.read_model(p, **kw), fail_at, "before", flavour)
        if fail_at is not None and fired is None:
            return len(log), None, exc, bad
        after = list(mx.get_models().values())
        if exc is not None:
            extra = [mm for mm in after if not any(mm is b for b in before)]
            if extra:
                bad.append(("half-loaded-model", "the failed read left %r registered" % ([mm.name for mm in extra],)))
            if collide and not any(mm is old for mm in after):
                bad.append(("old-model-dropped", "the model that was open before the failed read is no longer registered"))
            if collide and any(mm is old for mm in after):
                try:
                    dd = ddiff(expected(name, 2), L.describe(old))
                    if dd:
                        bad.append(("old-model-altered", "%r" % (dd[:2],)))
                except Exception as e:
                    bad.append(("old-model-unusable", repr(e)))
        else:
            try:
                res_.close()
            except Exception as e:
                bad.append(("loaded-model-unusable", repr(e)))
        fl = flags_clean()
        if fl:
            bad.append(("flag-stale", "; ".join(fl)))
        if tree_bytes(p) != before_files:
            bad.append(("files-touched", "the read changed the saved files"))
        try:
            r = mx.read_model(p, name="L2")
            dd = ddiff(expected(name, 1), L.describe(r))
            if dd:
                bad.append(("followup-wrong", "a read after the failed one differs: %r" % (dd[:2],)))
            p2 = os.path.join(w, "again" + (".zip" if container == "zip" else ""))
            do_save(r, p2, container)
            x = probe(p2, name, tuple(mx.get_models().values()))
            if x[0] != "gen" or not x[2]:
                bad.append(("followup-wrong", "saving the model read after the failed read gives %r" % (x[:4],)))
        except Exception as e:
            bad.append(("followup-load-fails", "a read/save after the failed read raised %s: %s" % (type(e).__name__, str(e)[:200])))
        return len(log), fired, exc, bad
    finally:
        close_all()
        shutil.rmtree(work, ignore_errors=True)


# ------------------------------------------------------------------------------------ scripts
SCRIPT = '''import warnings; warnings.filterwarnings("ignore")
import sys, os, tempfile, shutil
sys.path.insert(0, os.environ.get("C14_DRIVERS", "/verif/drivers"))
import c14
from c14_lib import INJ
INJ.install()
try:
    n, fired, exc, bad = c14.{func}(*{args!r})
finally:
    INJ.uninstall()
    shutil.rmtree(c14.root(), ignore_errors=True)
print("fault point:", fired, "| the operation under test", "raised %r" % (exc,) if exc else "returned normally")
for b in bad:
    print(b)
print("C14 violated" if bad else "C14 holds for this fault")
sys.exit(1 if bad else 0)
'''


# ------------------------------------------------------------------------------------ tasks
def count_ops(kind, name, container, k_or_collide):
    if kind == "save":
        n, _, exc, _ = save_case(name, container, k_or_collide, None, "before", "EIO")
    else:
        n, _, exc, _ = load_case(name, container, k_or_collide, None, "EIO")
    return n


DEADLINE = [None]


def worker(task):
    kind, name, container, x, points = task
    if DEADLINE[0] and time.time() > DEADLINE[0]:
        return task[:4], None
    sys.unraisablehook = lambda *a: None
    INJ.install()
    out = []
    for fail_at, mode, flavour in points:
        if kind == "save":
            n, fired, exc, bad = save_case(name, container, x, fail_at, mode, flavour)
        else:
            n, fired, exc, bad = load_case(name, container, x, fail_at, flavour)
        out.append((fail_at, mode, flavour, fired, type(exc).__name__ if exc else None, bad))
    return task[:4], out


def survey(task):
    """Clean run of one scenario under the (disarmed) injector: returns its log of fault points."""
    kind, name, container, x = task
    sys.unraisablehook = lambda *a: None
    INJ.install()
    precompute(name)
    tpl = template(name, container, x if kind == "save" else 1)
    work = workdir()
    if kind == "save":
        w = os.path.join(work, "w")
        shutil.copytree(tpl, w)
        p = os.path.join(w, "m" + (".zip" if container == "zip" else ""))
        close_all()
        m = build(name, x + 1)
        gc.collect()
        _, exc, log, _ = INJ.run(lambda: do_save(m, p, container))
    else:
        w = os.path.join(work, "w")
        shutil.copytree(tpl, w)
        p = os.path.join(w, "m" + (".zip" if container == "zip" else ""))
        close_all()
        if x:
            build(name, 2)
        gc.collect()
        _, exc, log, _ = INJ.run(lambda: mx.read_model(p, **({} if x else {"name": "L"})))
    close_all()
    shutil.rmtree(work, ignore_errors=True)
    return task, list(log), repr(exc) if exc else None


def select_points(log, tier, kind):
    """Fault points (index, mode, error).

    thorough: every call raises OSError instead of executing; per (operation, call site) the first, a middle and the
    last occurrence also raise after executing, raise FileNotFoundError, and (archive/file writes) PermissionError.
    quick: per (operation, call site) the first and the last occurrence; raise-after and FileNotFoundError on part of them."""
    by = {}
    for i, key in enumerate(log):
        by.setdefault(key, []).append(i)
    pts = []
    if tier == "thorough":
        rep = sorted({j for v in by.values() for j in (v[0], v[len(v) // 2], v[-1])})
        for i in range(len(log)):
            pts.append((i, "before", "EIO"))
        for i in rep:
            label = log[i][0]
            if kind == "save" and label not in NO_AFTER:
                pts.append((i, "after", "EIO"))
            pts.append((i, "before", "ENOENT"))
            if kind == "save" and label.startswith(("ZipFile", "shutil", "open", "Path.open")):
                pts.append((i, "before", "EACCES"))
    else:
        rep = sorted({j for v in by.values() for j in (v[0], v[-1])})
        for n, i in enumerate(rep):
            label, site = log[i]
            pts.append((i, "before", "EIO"))
            if kind == "save" and label not in NO_AFTER and "find_zip_parent" not in site and n % 2 == 0:
                pts.append((i, "after", "EIO"))
            if kind == "load" and n % 4 == 0:
                pts.append((i, "before", "ENOENT"))
            if kind == "save" and label.startswith("ZipFile") and "copy_file" in site:
                pts.append((i, "before", "EACCES"))     # the retry loop of ziputil.copy_file
    return pts


def run(res, tier, seed):
    models = ["plain", "pickled", "io"]
    ks = [0, 1, 4] if tier == "quick" else [0, 1, 2, 3, 4]
    res.bound = ("quick: 2 of the " if tier == "quick" else "") + ("3 corpus models (literal refs only / pickled refs, nested + derived spaces, ItemSpace input / pandas IOSpecs written "
                 "as csv and xlsx) x {dir, zip} x faulty save number k+1 for k in %s prior clean saves, and faulty loads with / without an "
                 "open model of the same name; fault points = %s top-level pathlib/shutil/zipfile/os/open/pickle call made by the operation; "
                 "modes: raise instead of the call, raise right after it (not for rename/move); errors: OSError(EIO) / PicklingError%s"
                 % (ks, "every" if tier == "thorough" else "first and last occurrence per (operation, call site) of the",
                    "; FileNotFoundError, PermissionError (archive writes) and raise-after on first/middle/last occurrence per (operation, call site)"
                    if tier == "thorough" else ", FileNotFoundError on a quarter of the load points, PermissionError on the archive calls of copy_file"))
    res.rule = ("exhaustive over the bound; one evaluation = one injected fault followed by the whole contract (4 slots read back, registry, flags, "
                "model, following save and load); non-trivial when the fault fired (the call with that index was reached); "
                "distinct = distinct (scenario, call index, mode, error)")
    if tier == "quick":
        scenarios = [("save", n, c, k) for n in ("pickled", "io") for c in ("dir", "zip") for k in ((0, 1, 4) if n == "pickled" else (4,))] + \
                    [("load", n, c, col) for n in ("pickled", "io") for c in ("dir", "zip") for col in ((False, True) if n == "pickled" else (False,))]
    else:
        scenarios = [("save", n, c, k) for n in models for c in ("dir", "zip") for k in ks] + \
                    [("load", n, c, col) for n in models for c in ("dir", "zip") for col in (False, True)]
    nproc = max(2, min(12, (os.cpu_count() or 4) - 2))
    soft_deadline = res.budget_s * 0.8
    global _BASE
    _BASE = tempfile.mkdtemp(prefix="c14_")
    DEADLINE[0] = res.t0 + soft_deadline
    ctx = mp.get_context("fork")
    pool = ctx.Pool(nproc)
    res.exhaustive = True
    try:
        logs = {}
        for task, log, exc in pool.imap(survey, scenarios):
            logs[task] = log
            if exc:     # the clean operation itself fails: a violation of "later saves and loads behave normally" in the plainest form
                res.fail(tags=("clean-run-raises", task[0], "container:" + task[2], "model:" + task[1]), what="clean %s raised %s" % (task, exc),
                         script=None, case=task)
        tasks = []
        for sc in scenarios:
            pts = select_points(logs[sc], tier, sc[0])
            for i in range(0, len(pts), 12):
                tasks.append(sc + (pts[i:i + 12],))
        # interleave scenarios so that a budget stop cuts all of them evenly
        tasks.sort(key=lambda t: (t[4][0][0] // 12, scenarios.index(t[:4])))
        total = sum(len(t[4]) for t in tasks)
        done = 0
        for sc, out in pool.imap(worker, tasks):
            if out is None:
                continue
            log = logs[sc]
            for fail_at, mode, flavour, fired, exc, bad in out:
                done += 1
                key = sc + (fail_at, mode, flavour)
                res.count(key, nontrivial=fired is not None)
                if fired is None:
                    continue
                label, site = fired
                base = (sc[0], "container:" + sc[2], "model:" + sc[1], ("history:%d" % sc[3]) if sc[0] == "save" else ("same-name-open" if sc[3] else "new-name"),
                        "op:" + label, "site:" + site, "mode:" + mode, "error:" + flavour)
                bytag = {}
                for t, text in bad:
                    bytag.setdefault(t, text)
                for t, text in sorted(bytag.items()):
                    func = "save_case" if sc[0] == "save" else "load_case"
                    args = (sc[1], sc[2], sc[3], fail_at, mode, flavour) if sc[0] == "save" else (sc[1], sc[2], sc[3], fail_at, flavour)
                    res.fail(tags=base + (t,), what="fault #%d %s at %s (%s, %s); operation %s; %s"
                             % (fail_at, label, site, mode, flavour, "raised " + exc if exc else "returned normally", text),
                             script=SCRIPT.format(func=func, args=args), case=key)
                if done % 500 == 1:
                    res.sample({"scenario": sc, "fault": [fail_at, label, site, mode, flavour], "operation_raised": exc})
        if done < total:
            res.exhaustive = False
            res.notes.append("stopped by the time budget after %d of %d fault points" % (done, total))
        pool.close()
        res.notes.append("%d scenarios, %d fault points selected of %d calls logged in clean runs" % (len(scenarios), total, sum(len(v) for v in logs.values())))
    finally:
        pool.terminate()
        pool.join()
        shutil.rmtree(_BASE, ignore_errors=True)


if __name__ == "__main__":
    main("C14", run)
