"""Shared kit of the C01 / C08 / C09 bounded drivers.

* `Spec`       : a model as pure data (spaces, references, cells = formula source + cached flag)
* ops          : structured steps of a history (queries and edits); `line(op)` renders the public-API
                 statement that performs it, so the driver and the replay script run the same text
* `MxRun`      : executes a spec + ops on the real modelx, statement by statement
* `PureModel`  : the independent evaluator: the same spec and ops interpreted with plain Python
                 functions and no cache (every call re-runs the formula), names resolved along the
                 documented chain  cells > own refs > _self/_space/_model > model refs > child spaces > builtins
* `pmap`       : deterministic fork-pool map (cases are independent; results merged in case order)

Formulas call a harness-side counting function through the model-level reference `TICK`:
    TICK(tag, key)   ->  appended to the run's tick log (formula executions, in order)
"""
import os, sys, copy, inspect, builtins, itertools, types, time
from collections import OrderedDict
from common import mx, reset

HEADER = '''import os, sys, warnings
warnings.filterwarnings("ignore")
_r = os.environ.get("MODELX_VERIF_REPO")
if _r and _r != "/repo":
    sys.path.insert(0, _r)
import modelx as mx
TICKS = []
def TICK(tag, key=None, reads=()):
    TICKS.append((tag, repr(key)))
'''


class Obj:
    """A reference value that is a modelx object, named by its path below the model ('B.q', 'B')."""
    def __init__(self, path):
        self.path = path

    def __repr__(self):
        return "m." + self.path

    def __eq__(self, other):
        return isinstance(other, Obj) and other.path == self.path

    def __hash__(self):
        return hash(("Obj", self.path))


class SpaceSpec:
    def __init__(self, path, bases=(), params=None, late_bases=False):
        self.path = path                    # 'A', 'A.Ch'
        self.late_bases = late_bases        # bases attached by add_bases() after every cells / reference exists
        self.bases = list(bases)            # paths
        self.params = params                # None or tuple of parameter names (ItemSpace parent)
        self.refs = OrderedDict()           # name -> python value | Obj
        self.cells = OrderedDict()          # name -> [src, cached]

    @property
    def name(self):
        return self.path.rsplit(".", 1)[-1]

    @property
    def parent(self):
        return self.path.rsplit(".", 1)[0] if "." in self.path else ""


class Spec:
    """Definitions only.  Spaces are kept parents-first."""

    def __init__(self):
        self.refs = OrderedDict()           # model-level
        self.spaces = OrderedDict()         # path -> SpaceSpec
        self.late_refs = []                 # (path, name, value) created after everything else (collisions)
        self.post = []                      # raw statements run last (not understood by PureModel)
        self.overrides = set()              # (path, cells): defined by assigning .formula of the derived cells
        self.allow_none = []                # dotted paths below the model ('' = the model itself, 'A', 'A.c') whose
        #                                     allow_none property is switched on once every cells exists
        self.inputs = []                    # (path, cells, key tuple, value): values assigned by the user at build time

    def space(self, path, bases=(), params=None, late_bases=False):
        s = SpaceSpec(path, bases, params, late_bases)
        self.spaces[path] = s
        return s

    def cell(self, path, name, src, cached=True, override=False):
        self.spaces[path].cells[name] = [src, cached]
        if override:
            self.overrides.add((path, name))

    def ref(self, path, name, value):
        if path == "":
            self.refs[name] = value
        else:
            self.spaces[path].refs[name] = value

    def copy(self):
        return copy.deepcopy(self)

    def key(self):
        return (tuple(self.refs.items()),
                tuple((p, tuple(s.bases), s.late_bases, s.params, tuple(s.refs.items()),
                       tuple((n, c[0], c[1]) for n, c in s.cells.items())) for p, s in self.spaces.items()),
                tuple(self.late_refs), tuple(self.post), tuple(sorted(self.overrides)),
                tuple(self.allow_none), tuple(self.inputs))

    def children(self, path):
        pre = path + "." if path else ""
        return [p for p in self.spaces if p.startswith(pre) and "." not in p[len(pre):] and p != path]

    # ---- statements that build the model through the public API
    def build_lines(self):
        L = ['m = mx.new_model("M")', "m.TICK = TICK"]
        for n, v in self.refs.items():
            if not isinstance(v, Obj):
                L.append("m.%s = %r" % (n, v))
        for p, s in self.spaces.items():
            par = "m." + s.parent if s.parent else "m"
            extra = ""
            if s.bases and not s.late_bases:
                extra += ", bases=[%s]" % ", ".join("m." + b for b in s.bases)
            if s.params:
                extra += ", formula=%r" % ("lambda %s: None" % ", ".join(s.params))
            L.append('%s.new_space("%s"%s)' % (par, s.name, extra))
        for p, s in self.spaces.items():
            for n, v in s.refs.items():
                if not isinstance(v, Obj):
                    L.append("m.%s.%s = %r" % (p, n, v))
        for p, s in self.spaces.items():
            for n, (src, cached) in s.cells.items():
                if (p, n) not in self.overrides:
                    L.append(newcells_line(p, n, src, cached))
        for p, s in self.spaces.items():
            for n, (src, cached) in s.cells.items():
                if (p, n) in self.overrides:
                    L.append("m.%s.%s.formula = %r" % (p, n, src))
        for t in self.allow_none:
            L.append("m.%sallow_none = True" % (t + "." if t else ""))
        for n, v in self.refs.items():
            if isinstance(v, Obj):
                L.append("m.%s = %r" % (n, v))
        for p, s in self.spaces.items():
            for n, v in s.refs.items():
                if isinstance(v, Obj):
                    L.append("m.%s.%s = %r" % (p, n, v))
        for p, s in self.spaces.items():
            if s.bases and s.late_bases:
                L.append("m.%s.add_bases(%s)" % (p, ", ".join("m." + b for b in s.bases)))
        for p, c, key, v in self.inputs:
            L.append(line(("input", p, c, tuple(key), v)))
        for p, n, v in self.late_refs:
            L.append("m.%s%s = %r" % (p + "." if p else "", n, v))
        L.extend(self.post)
        return L


def newcells_line(path, name, src, cached):
    return 'm.%s.new_cells("%s", formula=%r%s)' % (path, name, src, "" if cached else ", is_cached=False")


# ------------------------------------------------------------------------------------------------ ops
# queries : ('call', path, cells, args, kwargs, form)      form in 'call' | 'sub' | 'value'
# edits   : ('setref', path, name, value) ('delref', path, name) ('setformula', path, cells, src)
#           ('input', path, cells, key, value) ('clear_at', path, cells, args) ('clear', path, cells)
#           ('clear_all', path, cells) ('space_clear_all', path) ('model_clear_all',)
#           ('delcells', path, cells) ('newcells', path, cells, src, cached) ('rename', path, cells, new)
#           ('flag', path, cells, bool) ('delspace', path) ('contains', ...) are not edits of definitions
# `path` may address an ItemSpace: 'P[1]'.

def fmt_args(args, kwargs):
    parts = [repr(a) for a in args] + ["%s=%r" % kv for kv in kwargs.items()]
    return ", ".join(parts)


def call_expr(op):
    _, path, cname, args, kwargs, form = op
    base = "m.%s.%s" % (path, cname)
    if form == "value":
        return base + ".value"
    if form == "sub":
        assert not kwargs
        if len(args) == 1:
            return "%s[%r]" % (base, args[0])
        return "%s[%s]" % (base, ", ".join(repr(a) for a in args))
    return "%s(%s)" % (base, fmt_args(args, kwargs))


def line(op):
    k = op[0]
    if k == "call":
        return call_expr(op)
    if k == "setref":
        return "m.%s%s = %r" % (op[1] + "." if op[1] else "", op[2], op[3])
    if k == "delref":
        return "del m.%s%s" % (op[1] + "." if op[1] else "", op[2])
    if k == "setformula":
        return "m.%s.%s.formula = %r" % (op[1], op[2], op[3])
    if k == "input":
        key = op[3]
        if len(key) == 0:
            return "m.%s.%s.value = %r" % (op[1], op[2], op[4])
        ks = repr(key[0]) if len(key) == 1 else ", ".join(repr(a) for a in key)
        return "m.%s.%s[%s] = %r" % (op[1], op[2], ks, op[4])
    if k == "clear_at":
        return "m.%s.%s.clear_at(%s)" % (op[1], op[2], fmt_args(op[3], {}))
    if k == "clear":
        return "m.%s.%s.clear()" % (op[1], op[2])
    if k == "clear_all":
        return "m.%s.%s.clear_all()" % (op[1], op[2])
    if k == "space_clear_all":
        return "m.%s.clear_all()" % op[1]
    if k == "model_clear_all":
        return "m.clear_all()"
    if k == "delcells":
        return "del m.%s.%s" % (op[1], op[2])
    if k == "newcells":
        return newcells_line(op[1], op[2], op[3], op[4])
    if k == "rename":
        return 'm.%s.%s.rename("%s")' % (op[1], op[2], op[3])
    if k == "flag":
        return "m.%s.%s.is_cached = %r" % (op[1], op[2], op[3])
    if k == "raw":
        return op[1]
    if k == "delspace":
        par, _, nm = op[1].rpartition(".")
        return "del m.%s%s" % (par + "." if par else "", nm)
    raise ValueError(op)


def script(spec, ops, tail, pre=""):
    """Replay program: header, build, the ops (queries wrapped so that a raising query does not stop the
    program unless `tail` says so), then `tail` (which must call sys.exit(1) iff the property is violated)."""
    L = [HEADER, pre] + spec.build_lines()
    for i, op in enumerate(ops):
        if op[0] == "call":
            L.append("try:\n    v%d = %s\nexcept Exception as e:\n    v%d = ('raised', type(e).__name__)" % (i, line(op), i))
        else:
            L.append(line(op))
    L.append(tail)
    L.append("sys.exit(0)")
    return "\n".join(x for x in L if x) + "\n"


# ------------------------------------------------------------------------------------------------ real modelx run

class Raised:
    def __init__(self, exc):
        self.exc = exc
        self.tname = type(exc).__name__
        self.msg = str(exc)

    def __repr__(self):
        return "Raised(%s: %s)" % (self.tname, self.msg.strip().splitlines()[0][:160] if self.msg.strip() else "")


class MxRun:
    """A spec built on the real modelx; statements are exec'ed one at a time."""

    def __init__(self, spec, tick=None):
        reset()
        self.ticks = []
        self.env = {"mx": mx, "TICK": tick or self._tick, "__builtins__": builtins}
        self.build_error = None
        for ln in spec.build_lines():
            try:
                exec(ln, self.env)
            except Exception as e:             # reported by the caller (a build that the property says succeeds)
                self.build_error = (ln, Raised(e))
                break
        self.m = self.env.get("m")

    def _tick(self, tag, key=None, reads=()):
        self.ticks.append((tag, repr(key)))

    def query(self, op):
        try:
            return eval(line(op), self.env)
        except Exception as e:
            return Raised(e)

    def edit(self, op):
        try:
            exec(line(op), self.env)
            return None
        except Exception as e:
            return Raised(e)

    def obj(self, path):
        return eval("m." + path, self.env)

    def close(self):
        reset()


# ------------------------------------------------------------------------------------------------ independent evaluator

_code_cache = {}


def _compile(src):
    r = _code_cache.get(src)
    if r is None:
        ns = {}
        exec(compile(src, "<pure>", "exec"), ns)
        f = [v for k, v in ns.items() if isinstance(v, types.FunctionType)][0]
        r = _code_cache[src] = (f, inspect.signature(f))
    return r


class PureError(Exception):
    pass


class PCells:
    def __init__(self, pm, space, name, src, owner_path):
        self.pm, self.space, self.name, self.src = pm, space, name, src
        self.func, self.sig = _compile(src)
        self.owner_path = owner_path          # path of the space whose definition this is (inputs are kept there)

    @property
    def fullname(self):
        return self.space.fullname + "." + self.name

    def key_of(self, args, kwargs):
        b = self.sig.bind(*args, **kwargs)
        b.apply_defaults()
        return tuple(b.arguments.values())

    def __call__(self, *args, **kwargs):
        key = self.key_of(args, kwargs)
        return self.pm._eval(self, key)

    def __getitem__(self, key):
        if key.__class__ is not tuple:
            key = (key,)
        return self(*key)

    @property
    def value(self):
        if len(self.sig.parameters):
            raise ValueError("not a scalar")
        return self()


class PSpace:
    def __init__(self, pm, path, argvals=None, base=None, parent_path=None):
        self._pm, self._path, self._argvals, self._base = pm, path, argvals, base
        self._parent_path = parent_path
        self._ns = None
        self._items = {}

    @property
    def fullname(self):
        return "M." + self._path

    @property
    def name(self):
        return self._path.rsplit(".", 1)[-1]

    @property
    def parent(self):
        if self._parent_path is not None:
            return self._pm.space(self._parent_path)
        sp = self._pm.spec.spaces[self._defpath()]
        return self._pm.space(sp.parent) if sp.parent else self._pm.model

    def _defpath(self):
        return self._base if self._base is not None else self._path

    def _namespace(self):
        if self._ns is None:
            self._ns = self._pm._make_ns(self)
        return self._ns

    def __getattr__(self, name):
        if name.startswith("__") and name.endswith("__"):
            raise AttributeError(name)
        ns = self._namespace()
        if name in ns:
            self._pm.attr_reads.append((self.fullname, name))
            return ns[name]
        raise AttributeError(name)

    def __getitem__(self, key):
        if key.__class__ is not tuple:
            key = (key,)
        return self(*key)

    def __call__(self, *args):
        sp = self._pm.spec.spaces[self._path]
        if not sp.params:
            raise PureError("not parametrised")
        if args not in self._items:
            argstr = ", ".join(repr(a) for a in args)
            self._items[args] = PSpace(self._pm, "%s[%s]" % (self._path, argstr),
                                       argvals=dict(zip(sp.params, args)), base=self._path)
        return self._items[args]


class PModelNS:
    def __init__(self, pm):
        self._pm = pm

    fullname = "M"

    def __getattr__(self, name):
        if name.startswith("__"):
            raise AttributeError(name)
        pm = self._pm
        if name in pm.spec.spaces and "." not in name:
            return pm.space(name)
        if name in pm.spec.refs:
            pm.attr_reads.append(("M", name))
            return pm._refval(pm.spec.refs[name])
        for p, n, v in pm.spec.late_refs:
            if p == "" and n == name:
                return pm._refval(v)
        raise AttributeError(name)


class PureModel:
    """Uncached evaluation of the current definitions.  Edits change the definitions only."""

    def __init__(self, spec, copy=True):
        self.spec = spec.copy() if copy else spec       # copy=False: read-only use (no edits)
        self.failed = set()                 # (path.cells, repr(key)) of formula runs that ended with an exception
        self.inputs = {}                    # (space path, cells name) -> {key: value}
        for p, c, key, v in getattr(self.spec, "inputs", ()):
            self.inputs.setdefault((p, c), {})[tuple(key)] = v
        self.ticks = []
        self.calls = []                     # (caller element | None, callee element) in call order
        self.attr_reads = []
        self._stack = []
        self._spaces = {}
        self.model = PModelNS(self)
        self._dirty()

    def _dirty(self):
        self._spaces = {}

    def _tick(self, tag, key=None, reads=()):
        self.ticks.append((tag, repr(key)))

    # ---- resolution
    def space(self, path):
        if "[" in path:
            base, _, rest = path.partition("[")
            args = eval("(" + rest[:-1] + ",)")
            return self.space(base)(*args)
        s = self._spaces.get(path)
        if s is None and "." in path and path not in self.spec.spaces:
            par, _, nm = path.rpartition(".")
            s = self.space(par)._namespace().get(nm)
            if not isinstance(s, PSpace):
                raise PureError("no space " + path)
            return s
        if s is None:
            if path not in self.spec.spaces:
                raise PureError("no space " + path)
            s = self._spaces[path] = PSpace(self, path)
        return s

    def _refval(self, v):
        if isinstance(v, Obj):
            return self.obj(v.path)
        return v

    def obj(self, path):
        if path in self.spec.spaces or "[" in path and path.endswith("]"):
            return self.space(path)
        sp, _, nm = path.rpartition(".")
        return getattr(self.space(sp), nm)

    def _bases_of(self, defpath):
        out = []

        def visit(p):
            for b in self.spec.spaces[p].bases:
                if b not in out:
                    out.append(b)
                    visit(b)
        visit(defpath)
        return out

    def _members(self, defpath):
        """(cells, refs) of a space including what it derives from its bases (own first, then bases in order;
        only linear base lists are used by the drivers)."""
        cells, refs = OrderedDict(), OrderedDict()
        seen = []

        def visit(p):
            if p in seen:
                return
            seen.append(p)
            sp = self.spec.spaces[p]
            for n, c in sp.cells.items():
                cells.setdefault(n, (c, p))
            for n, v in sp.refs.items():
                refs.setdefault(n, v)
            for b in sp.bases:
                visit(b)
        visit(defpath)
        return cells, refs

    def _make_ns(self, ps):
        defpath = ps._defpath()
        cells, refs = self._members(defpath)
        ns = {"__builtins__": builtins}
        for ch in self.spec.children(defpath):
            ns[ch.rsplit(".", 1)[-1]] = self.space(ch)
        for n, v in self.spec.refs.items():
            ns[n] = self._refval(v)
        for p, n, v in self.spec.late_refs:
            if p == "":
                ns[n] = self._refval(v)
        ns["TICK"] = self._tick
        ns["_self"] = ns["_space"] = ps
        ns["_model"] = self.model
        for n, v in refs.items():
            ns[n] = self._refval(v)
        for p, n, v in self.spec.late_refs:
            if p == defpath:
                ns[n] = self._refval(v)
        if ps._argvals:
            ns.update(ps._argvals)
        for n, (c, owner) in cells.items():
            ns[n] = PCells(self, ps, n, c[0], defpath)
        # cells see each other through the same dict
        for n in cells:
            pc = ns[n]
            pc.func = types.FunctionType(pc.func.__code__, ns, pc.name, pc.func.__defaults__)
        return ns

    # ---- evaluation
    def _eval(self, pc, key):
        elem = (pc.space.fullname, pc.name, key)
        self.calls.append((self._stack[-1] if self._stack else None, elem))
        inp = self.inputs.get((pc.space._path, pc.name))
        if inp is not None:
            try:
                if key in inp:
                    return inp[key]
            except TypeError:
                pass
        if len(self._stack) > 400:
            raise PureError("runaway recursion")
        self._stack.append(elem)
        try:
            return pc.func(*key)
        except BaseException:
            self.failed.add((pc.space._path + "." + pc.name, repr(key)))
            raise
        finally:
            self._stack.pop()

    def reset_logs(self):
        self.ticks, self.calls, self.attr_reads = [], [], []

    def query(self, op):
        _, path, cname, args, kwargs, form = op
        try:
            c = getattr(self.space(path), cname)
            if form == "value":
                return c.value
            if form == "sub":
                return c[args if len(args) != 1 else args[0]]
            return c(*args, **kwargs)
        except Exception as e:
            return Raised(e)

    def key_of(self, op):
        _, path, cname, args, kwargs, form = op
        c = getattr(self.space(path), cname)
        return c.key_of(args, kwargs)

    # ---- edits (definitions only)
    def edit(self, op):
        k = op[0]
        sp = self.spec
        if k == "setref":
            if op[1] == "":
                sp.refs[op[2]] = op[3]
            else:
                sp.spaces[op[1]].refs[op[2]] = op[3]
        elif k == "delref":
            if op[1] == "":
                del sp.refs[op[2]]
            else:
                del sp.spaces[op[1]].refs[op[2]]
        elif k == "setformula":
            sp.spaces[op[1]].cells[op[2]][0] = op[3]
            self.inputs.pop((op[1], op[2]), None)
        elif k == "input":
            self.inputs.setdefault((op[1], op[2]), {})[tuple(op[3])] = op[4]
        elif k == "clear_at":
            d = self.inputs.get((op[1], op[2]))
            if d is not None:
                pc = getattr(self.space(op[1]), op[2])
                d.pop(pc.key_of(op[3], {}), None)
        elif k == "clear":
            pass
        elif k == "clear_all":
            self.inputs.pop((op[1], op[2]), None)
        elif k == "space_clear_all":
            for key in [x for x in self.inputs if x[0] == op[1] or x[0].startswith(op[1] + ".")
                        or x[0].startswith(op[1] + "[")]:
                del self.inputs[key]
        elif k == "model_clear_all":
            self.inputs.clear()
        elif k == "delcells":
            del sp.spaces[op[1]].cells[op[2]]
            self.inputs.pop((op[1], op[2]), None)
        elif k == "newcells":
            sp.spaces[op[1]].cells[op[2]] = [op[3], op[4]]
        elif k == "rename":
            cs = sp.spaces[op[1]].cells
            sp.spaces[op[1]].cells = OrderedDict((op[3] if n == op[2] else n, v) for n, v in cs.items())
            self.inputs.pop((op[1], op[2]), None)
        elif k == "flag":
            sp.spaces[op[1]].cells[op[2]][1] = op[3]
            self.inputs.pop((op[1], op[2]), None)
        elif k == "delspace":
            for p in [p for p in sp.spaces if p == op[1] or p.startswith(op[1] + ".")]:
                del sp.spaces[p]
            for key in [x for x in self.inputs if x[0] == op[1] or x[0].startswith(op[1] + ".")]:
                del self.inputs[key]
        else:
            raise ValueError(op)
        self._dirty()


# ------------------------------------------------------------------------------------------------ parallel map

def pmap(func, items, res, workers=None, chunk=8):
    """Yield (item, func(item)) in order.  Fork pool; stops early (and marks the run non-exhaustive)
    when the budget is used up."""
    import multiprocessing as mp
    items = list(items)
    if workers is None:
        workers = max(1, min(14, (os.cpu_count() or 2) - 2))
    if workers <= 1 or len(items) < 4:
        for it in items:
            if res.expired():
                res.exhaustive = False
                return
            yield it, func(it)
        return
    ctx = mp.get_context("fork")
    pool = ctx.Pool(workers)
    try:
        for it, out in zip(items, pool.imap(func, items, chunksize=chunk)):
            yield it, out
            if res.expired():
                res.exhaustive = False
                break
    finally:
        pool.terminate()
        pool.join()


def values_equal(a, b):
    if isinstance(a, Raised) or isinstance(b, Raised):
        return isinstance(a, Raised) and isinstance(b, Raised)
    try:
        return type(a) is type(b) and a == b
    except Exception:
        return False
