"""C10 - object-valued references rebind relatively or stay absolute as their mode says (bounded stand-in).

The whole placement grid is enumerated on the real modelx and the *identity of the bound object* is the oracle:

  static derivation   reference r defined in a space D (top level or nested) x 3 modes x target in {D itself, a
                      cells of D, a child space of D, a cells in a child, a space outside, a cells outside, a cells
                      of a sibling whose name extends D's name}; derived by Sub (top level, nested, or nested under
                      the *same name* as D); defined before or after Sub exists;
  ItemSpace           reference defined at any node of the tree of a space with parameters (root, child,
                      grandchild) x 3 modes x target anywhere in the tree or outside of it; observed in the
                      dynamic tree of root[1] for: the root itself (top level / nested / a nested space as root), a
                      space deriving the root (static derivation, then ItemSpace), an ItemSpace whose formula
                      names another space as `base`;

each under edit histories of <= 2 edits (retarget, re-set in another mode, remove+add the base, add another base,
override+un-override in the sub, delete+re-create, write_model/read_model, ItemSpace created before the edit);

  several derivers    the defining space derived by >= 2 spaces at once (2-3 siblings, chains of length 2-3, a
                      sibling pair plus a sub-sub space, a diamond), each optionally with parameters; the
                      reference assigned and RE-assigned (attribute assignment, set_ref, absref, relref; 3 modes)
                      before / after / in between the creation of the deriving spaces, from a scalar, another
                      target, another mode, or after deletion; then remove+add bases, another base,
                      write_model / zip_model + read_model; observed in EVERY deriving space and its ItemSpace
                      (see the comment above SHAPES).

  nested derivation   a nested tree A.B - A.B.C - A.B.C.E and a parallel tree D - D.C - D.C.E whose levels derive
                      from the corresponding levels of the first one, level by level (all three levels, the two
                      upper ones, or the two lower ones only; new_space(bases=...) / add_bases, top-down, bottom-up,
                      the outer or the middle level last); the reference DEFINED IN AN INNER SPACE (the middle or
                      the innermost one), target = the definer, its cells, its child, every ancestor inside / above
                      the shared tree and their cells, objects outside; observed in the deriving space of the same
                      level, in ItemSpaces of the parallel tree (D[1], D.C[1]) and of the first tree (A.B[1]);
                      followed by remove+add of the bases of each level, save + load (see the comment above
                      NEST_ORDERS for what the statement fixes there).  This part runs first.

Expected binding (from the statement only): absolute -> the original object; auto / relative -> the
corresponding object of the deriving space when the target is the defining space or one of its cells (static),
or any object inside the base's tree (ItemSpace; "inside" = path extends the root's path by whole components);
otherwise the original object.  What the statement leaves open is not asserted (see `expected_static`).
"""
from common import *          # noqa: F401,F403
import tempfile
import shutil

HEAD = """import sys, warnings
warnings.filterwarnings("ignore")
import modelx as mx
"""
ATTEMPT = """
def attempt(line):
    try:
        exec(line, globals())
        return True
    except Exception as e:
        print('raised', type(e).__name__, e)
        return False
"""

_cc = {}


def _compiled(text, mode):
    k = (text, mode)
    c = _cc.get(k)
    if c is None:
        if len(_cc) > 20000:
            _cc.clear()
        c = _cc[k] = compile(text, "<c10>", mode)
    return c


class Live:
    def __init__(self):
        self.lines = []
        self.env = {}
        exec(_compiled(HEAD, "exec"), self.env)
        self.tmp = None

    def do(self, line):
        try:
            exec(_compiled(line, "exec"), self.env)
        except Exception as e:      # noqa
            self.lines.append("try:\n    %s\nexcept Exception: pass" % line)
            return e
        self.lines.append(line)
        return None

    def ev(self, expr):
        return eval(_compiled(expr, "eval"), self.env)

    def last_line(self):
        ln = self.lines[-1]
        if ln.startswith("try:\n    "):
            ln = ln[len("try:\n    "):ln.rindex("\nexcept Exception: pass")]
        return ln

    def retry_script(self):
        """script for an edit that raised: everything before it, then the edit itself as the probe"""
        return self.script("attempt(%r)" % self.last_line(), drop_last=True)

    def script(self, probe, drop_last=False):
        lines = self.lines[:-1] if drop_last else self.lines
        body = "\n".join(lines)
        if "attempt(" in probe:
            body = ATTEMPT + body
        tail = ""
        if "_tmp" in body:
            tail = "finally:\n    shutil.rmtree(_tmp, ignore_errors=True)\n"
            body = ("import tempfile, shutil\n_tmp = tempfile.mkdtemp()\ntry:\n    "
                    + body.replace("_tmp = tempfile.mkdtemp()\n", "").replace("\n", "\n    ") + "\n")
            return (HEAD + "\n" + body +
                    "    try:\n        ok = bool(%s)\n    except Exception as e:\n"
                    "        print('raised', type(e).__name__, e); ok = False\n" % probe + tail +
                    "print('property holds:', ok)\nsys.exit(0 if ok else 1)\n")
        return (HEAD + "\n" + body + "\n\ntry:\n    ok = bool(%s)\nexcept Exception as e:\n"
                "    print('raised', type(e).__name__, e); ok = False\n"
                "print('property holds:', ok)\nsys.exit(0 if ok else 1)\n" % probe)

    def cleanup(self):
        t = self.env.get("_tmp")
        if t:
            shutil.rmtree(t, ignore_errors=True)


# ------------------------------------------------------------------------------------------------ model layout
#
# A "tree" is a space T with cells foo, foo2, child C (cells bar), grandchild C.E (cells baz).
# Outside objects: space X (cells xf, xg); a sibling of T whose name extends T's name: T + "2" (cells foo).
# Every cells returns (its name, fullname of the space it is evaluated in), so a value read through a formula
# identifies the bound object as well.

CELL = "lambda: (%r, _space.fullname)"


def tree_lines(parent_expr, var, name):
    """lines creating the tree `name` under parent; variables var, var_C, var_E"""
    L = ["%s = %s.new_space(%r)" % (var, parent_expr, name),
         "%s.new_cells('foo', formula=%r)" % (var, CELL % "foo"),
         "%s.new_cells('foo2', formula=%r)" % (var, CELL % "foo2"),
         "%s_C = %s.new_space('C')" % (var, var),
         "%s_C.new_cells('bar', formula=%r)" % (var, CELL % "bar"),
         "%s_E = %s_C.new_space('E')" % (var, var),
         "%s_E.new_cells('baz', formula=%r)" % (var, CELL % "baz")]
    return L


# targets relative to a tree root path (tuple of names) -> (kind, path tuple, is_cells)
def targets_for(root, outside_root, prefix_sibling):
    r = tuple(root)
    return {
        "root": (r, False), "root-cells": (r + ("foo",), True), "root-cells2": (r + ("foo2",), True),
        "child": (r + ("C",), False), "child-cells": (r + ("C", "bar"), True),
        "grandchild": (r + ("C", "E"), False), "grandchild-cells": (r + ("C", "E", "baz"), True),
        "outside-space": (tuple(outside_root), False), "outside-cells": (tuple(outside_root) + ("xf",), True),
        "outside-cells2": (tuple(outside_root) + ("xg",), True),
        "prefix-sibling-cells": (tuple(prefix_sibling) + ("foo",), True),
        "prefix-sibling-space": (tuple(prefix_sibling), False),
    }


def expr(path, model="m"):
    return model + "." + ".".join(path)


def dyn_expr(root, path, model="m", key=1):
    """object of the dynamic tree of root[key] corresponding to static `path` (inside root's tree)"""
    rest = path[len(root):]
    return expr(root, model) + "[%d]" % key + "".join("." + p for p in rest)


def inside(root, path):
    return tuple(path[:len(root)]) == tuple(root)


SET = {"auto": "%s.r = %s", "absolute": "%s.absref(r=%s)", "relative": "%s.relref(r=%s)"}


# ------------------------------------------------------------------------------------------------ static cases

class Case:
    def __init__(self, **kw):
        self.__dict__.update(kw)

    def key(self):
        return tuple(sorted((k, v) for k, v in self.__dict__.items()))

    def text(self):
        return dict(self.__dict__)


def expected_static(mode, tkind, definer_node):
    """'rebind' | 'original' | None (not fixed by the statement) for a reference defined in the tree node
    `definer_node` ('root' | 'child') and derived by static inheritance of that node."""
    if mode == "absolute":
        return "original"
    own = {"root": ("root", "root-cells", "root-cells2"), "child": ("child", "child-cells")}[definer_node]
    if tkind in own[:1] or tkind in own[1:]:
        return "rebind"
    if tkind.startswith("outside") or tkind.startswith("prefix-sibling"):
        return "original"
    if definer_node == "child" and tkind in ("root", "root-cells", "root-cells2"):
        # the parent of the definer: outside the definer's tree
        return "original"
    return None         # a descendant space / cells below the definer: the sub has no corresponding object


STATIC_HISTORIES = ("none", "retarget", "rebase", "add-other-base", "override-unoverride", "mode-change",
                    "delete-recreate", "write-read", "retarget+write-read", "rebase+retarget",
                    "retarget+rebase", "mode-change+write-read")
RETARGET = {"root": "root-cells", "root-cells": "root-cells2", "root-cells2": "root", "child": "child-cells",
            "child-cells": "child", "grandchild": "grandchild-cells", "grandchild-cells": "grandchild",
            "outside-space": "outside-cells", "outside-cells": "outside-cells2", "outside-cells2": "outside-cells",
            "prefix-sibling-cells": "outside-cells", "prefix-sibling-space": "outside-space"}
MODE_CHANGE = {"auto": "absolute", "absolute": "auto", "relative": "absolute"}


def static_cases(thorough):
    modes = ("auto", "absolute", "relative")
    tk = ("root", "root-cells", "child", "child-cells", "grandchild-cells", "outside-space", "outside-cells",
          "prefix-sibling-cells")
    for layout in ("top/top", "top/nested", "nested/top", "nested/nested", "same-name-nested"):
        for definer_node in ("root", "child"):
            if layout == "same-name-nested" and definer_node == "child":
                continue
            for mode in modes:
                for t in tk:
                    for order in ("ref-first", "sub-first"):
                        for h in STATIC_HISTORIES:
                            if not thorough and "+" in h and layout in ("top/nested", "nested/top"):
                                continue
                            yield Case(part="static", layout=layout, definer=definer_node, mode=mode, target=t,
                                       order=order, hist=h)


def run_static(res, c):
    L = Live()
    try:
        _run_static(res, c, L)
    finally:
        L.cleanup()


def _run_static(res, c, L):
    # ---- layout
    dname = "B"
    if c.layout.startswith("nested"):
        droot = ("P", "B")
    else:
        droot = ("B",)
    L.do("m = mx.new_model('M')")
    if len(droot) == 2:
        L.do("P = m.new_space('P')")
    for ln in tree_lines("P" if len(droot) == 2 else "m", "B", "B"):
        L.do(ln)
    L.do("X = m.new_space('X')")
    L.do("X.new_cells('xf', formula=%r)" % (CELL % "xf"))
    L.do("X.new_cells('xg', formula=%r)" % (CELL % "xg"))
    sib = droot[:-1] + ("B2",)
    L.do("B2 = %s.new_space('B2')" % ("P" if len(droot) == 2 else "m"))
    L.do("B2.new_cells('foo', formula=%r)" % (CELL % "foo"))
    T = targets_for(droot, ("X",), sib)
    definer_path = droot if c.definer == "root" else droot + ("C",)
    dvar = "B" if c.definer == "root" else "B_C"
    # the formula that reads r
    tpath, tcells = T[c.target]
    # ---- deriver
    if c.layout == "same-name-nested":
        sub_path, mk_parent, sub_parent = ("A", "B"), "A = m.new_space('A')", "A"
    elif c.layout.endswith("/nested"):
        sub_path, mk_parent, sub_parent = ("Q", "Sub"), "Q = m.new_space('Q')", "Q"
    else:
        sub_path, mk_parent, sub_parent = ("Sub",), None, "m"
    if mk_parent:
        L.do(mk_parent)
    mk_sub = "Sub = %s.new_space(%r, bases=[%s])" % (sub_parent, sub_path[-1], dvar)
    set_ref = SET[c.mode] % (dvar, expr(tpath))
    state = {"mode": c.mode, "target": c.target, "alive": True}

    L.do("%s.new_cells('q', formula='lambda: r')" % dvar)
    steps = [("define", set_ref), ("derive", mk_sub)] if c.order == "ref-first" else \
            [("derive", mk_sub), ("define", set_ref)]
    refused = None
    for what, line in steps:
        e = L.do(line)
        if e is not None:
            refused = (what, line, e)
            break
    tags0 = ["part:static", "mode:" + c.mode, "target:" + target_class(c.target, c.definer),
             "layout:" + c.layout]
    want = expected_static(c.mode, c.target, c.definer)
    if refused is not None:
        what, line, e = refused
        legit = (c.mode == "relative" and want != "rebind") or want is None
        with res.case(c.key(), nontrivial=not legit):
            if not legit:
                res.fail(tags=tags0 + ["hist:none", "sym:refused-" + what] + exc_tags(e),
                         what="%s raised %s: %s" % (line, type(e).__name__, str(e)[:200]),
                         script=L.retry_script(), case=c.text())
        return
    # ---- history
    hist = c.hist.split("+") if c.hist != "none" else []
    for hname in hist:
        e = apply_static_edit(L, c, hname, state, T, dvar, definer_path)
        if e is not None:
            line = L.lines[-1]
            want_now = expected_static(state["mode"], state["target"], c.definer)
            legit = (state["mode"] == "relative" and want_now != "rebind") or want_now is None
            with res.case(c.key(), nontrivial=not legit):
                if not legit:
                    res.fail(tags=tags0 + ["hist:" + c.hist, "sym:edit-crash"] + exc_tags(e),
                             what="edit %r of history %s raised %s: %s" % (hname, c.hist, type(e).__name__,
                                                                           str(e)[:200]),
                             script=L.retry_script(), case=c.text())
            return
    # ---- observe
    want = expected_static(state["mode"], state["target"], c.definer)
    tpath, tcells = T[state["target"]]
    mdl = "m"
    with res.case(c.key(), nontrivial=want is not None):
        sub = expr(sub_path)
        # the definer itself keeps its value
        probes = [("definer-value", "%s.r is %s" % (expr(definer_path), expr(tpath)))]
        if want == "rebind":
            rel = tpath[len(definer_path):]
            bound = expr(sub_path + rel)
            probes.append(("wrong-binding", "%s.r is %s" % (sub, bound)))
            probes.append(formula_probe(sub, bound, tcells))
        elif want == "original":
            probes.append(("wrong-binding", "%s.r is %s" % (sub, expr(tpath))))
            probes.append(formula_probe(sub, expr(tpath), tcells))
        if want is not None:
            probes.append(("refmode", "%s._get_object('r', as_proxy=True).refmode == %r" % (sub, state["mode"])))
            probes.append(("refmode", "%s._get_object('r', as_proxy=True).refmode == %r"
                           % (expr(definer_path), state["mode"])))
        for sym, probe in probes:
            try:
                ok = bool(L.ev(probe))
                exc = None
            except Exception as e:
                ok, exc = False, e
            if not ok:
                res.fail(tags=tags0 + ["hist:" + c.hist, "sym:" + (sym if exc is None else "read-crash")]
                         + (exc_tags(exc) if exc is not None else []),
                         what="expected %s%s" % (probe, "" if exc is None else
                                                 "; raised %s: %s" % (type(exc).__name__, str(exc)[:200])),
                         script=L.script(probe), case=c.text())
    res.sample(c.text())


def apply_static_edit(L, c, hname, state, T, dvar, definer_path):
    if hname == "retarget":
        state["target"] = RETARGET[state["target"]]
        return L.do(SET[state["mode"]] % (dvar, expr(T[state["target"]][0])))
    if hname == "mode-change":
        state["mode"] = MODE_CHANGE[state["mode"]]
        return L.do(SET[state["mode"]] % (dvar, expr(T[state["target"]][0])))
    if hname == "rebase":
        e = L.do("Sub.remove_bases(%s)" % dvar)
        return e or L.do("Sub.add_bases(%s)" % dvar)
    if hname == "add-other-base":
        e = L.do("Z = m.new_space('Z')")
        return e or L.do("Sub.add_bases(Z)")
    if hname == "override-unoverride":
        e = L.do("Sub.r = 7")
        return e or L.do("del Sub.r")
    if hname == "delete-recreate":
        e = L.do("del %s.r" % dvar)
        return e or L.do(SET[state["mode"]] % (dvar, expr(T[state["target"]][0])))
    if hname == "write-read":
        if "_tmp" not in L.env:
            L.do("import tempfile, shutil")
            L.do("_tmp = tempfile.mkdtemp()")
        e = L.do("mx.write_model(m, _tmp + '/model')")
        if e is None:
            e = L.do("m.close()")
        return e or L.do("m = mx.read_model(_tmp + '/model', name='M')")
    raise ValueError(hname)


# ------------------------------------------------------------------------------------------------ ItemSpace cases

DYN_HISTORIES = ("none", "item-then-retarget", "retarget", "mode-change", "write-read", "retarget+write-read",
                 "item-then-mode-change", "delete-recreate", "item-then-delete-recreate")


def dynamic_cases(thorough):
    modes = ("auto", "absolute", "relative")
    tk = ("root", "root-cells", "child", "child-cells", "grandchild", "grandchild-cells", "outside-space",
          "outside-cells", "prefix-sibling-cells", "prefix-sibling-space")
    for via in ("own", "nested-root", "child-as-root", "derived", "base-param"):
        for node in ("root", "child", "grandchild"):
            if via == "child-as-root" and node == "root":
                continue
            for mode in modes:
                for t in tk:
                    for h in DYN_HISTORIES:
                        if not thorough and "+" in h and via != "own":
                            continue
                        yield Case(part="itemspace", via=via, node=node, mode=mode, target=t, hist=h)


def run_dynamic(res, c):
    L = Live()
    try:
        _run_dynamic(res, c, L)
    finally:
        L.cleanup()


def _run_dynamic(res, c, L):
    nested = c.via == "nested-root"
    sroot = ("P", "S") if nested else ("S",)
    L.do("m = mx.new_model('M')")
    if nested:
        L.do("P = m.new_space('P')")
    for ln in tree_lines("P" if nested else "m", "S", "S"):
        L.do(ln)
    L.do("X = m.new_space('X')")
    L.do("X.new_cells('xf', formula=%r)" % (CELL % "xf"))
    L.do("X.new_cells('xg', formula=%r)" % (CELL % "xg"))
    sib = sroot[:-1] + ("S2",)
    L.do("S2 = %s.new_space('S2')" % ("P" if nested else "m"))
    L.do("S2.new_cells('foo', formula=%r)" % (CELL % "foo"))
    T = targets_for(sroot, ("X",), sib)
    node_path = {"root": sroot, "child": sroot + ("C",), "grandchild": sroot + ("C", "E")}[c.node]
    nvar = {"root": "S", "child": "S_C", "grandchild": "S_E"}[c.node]
    # a cells at the defining node that reads r (derived / dynamic copies read their own r)
    L.do("%s.new_cells('q', formula='lambda: r')" % nvar)
    # ---- which space gets the parameter, which static space is the base of the dynamic tree
    if c.via in ("own", "nested-root"):
        L.do("S.formula = 'lambda i: None'")
        dyn_root_static = sroot          # static root of the dynamic tree
        item = expr(sroot) + "[1]"
        base_tree_root = sroot           # tree inside which targets are rebound
    elif c.via == "child-as-root":
        L.do("S_C.formula = 'lambda i: None'")
        dyn_root_static = sroot + ("C",)
        item = expr(dyn_root_static) + "[1]"
        base_tree_root = dyn_root_static
    elif c.via == "derived":
        # Sub derives S (static), then Sub[1]; only references defined in S itself are derived
        dyn_root_static = ("Sub",)
        item = "m.Sub[1]"
        base_tree_root = ("Sub",)
    else:   # base-param: Y[1] is built on the tree of S
        dyn_root_static = ("Y",)
        item = "m.Y[1]"
        base_tree_root = sroot
    state = {"mode": c.mode, "target": c.target}
    tags0 = ["part:itemspace", "via:" + c.via, "mode:" + c.mode, "target:" + target_class(c.target, None)]
    set_ref = SET[c.mode] % (nvar, expr(T[c.target][0]))
    e = L.do(set_ref)
    if e is None and c.via == "derived":
        e = L.do("Sub = m.new_space('Sub', bases=[S])") or L.do("Sub.formula = 'lambda i: None'")
    if e is None and c.via == "base-param":
        e = L.do("Y = m.new_space('Y', formula=\"lambda i: {'base': _model.%s}\")" % ".".join(sroot))

    def legit_refusal():
        w = expected_dynamic(c, state, T, node_path, base_tree_root, sroot)
        return w is None or (state["mode"] == "relative" and w[0] != "rebind")

    if e is not None:
        with res.case(c.key(), nontrivial=not legit_refusal()):
            if not legit_refusal():
                res.fail(tags=tags0 + ["hist:none", "sym:refused-define"] + exc_tags(e),
                         what="%s raised %s: %s" % (L.lines[-1], type(e).__name__, str(e)[:200]),
                         script=L.retry_script(), case=c.text())
        return
    hist = c.hist.split("+") if c.hist != "none" else []
    for hname in hist:
        if hname.startswith("item-then-"):
            L.do("_it = %s" % item)          # the ItemSpace exists before the edit (it may fail: observed below)
            hname = hname[len("item-then-"):]
        e = apply_static_edit(L, c, hname, state, T, nvar, node_path)
        if e is not None:
            with res.case(c.key(), nontrivial=not legit_refusal()):
                if not legit_refusal():
                    res.fail(tags=tags0 + ["hist:" + c.hist, "sym:edit-crash"] + exc_tags(e),
                             what="edit %r of history %s raised %s: %s" % (hname, c.hist, type(e).__name__,
                                                                           str(e)[:200]),
                             script=L.retry_script(), case=c.text())
            return
    want = expected_dynamic(c, state, T, node_path, base_tree_root, sroot)
    if want is not None and state["mode"] == "relative" and want[0] == "original":
        # relative mode with a target outside the tree: modelx refuses to build the ItemSpace (an explicit
        # ValueError); the statement's "keeps denoting the original object" is asserted only if it is built
        try:
            L.ev(want[1] + ".r")
        except Exception:
            with res.case(c.key(), nontrivial=False):
                pass
            return
    with res.case(c.key(), nontrivial=want is not None):
        if want is None:
            return
        how, holder, bound, qval = want
        probes = [("wrong-binding", "%s.r is %s" % (holder, bound)), formula_probe(holder, bound, T[state["target"]][1])]
        for p in probes:
            if p is None:
                continue
            sym, probe = p
            try:
                ok = bool(L.ev(probe))
                exc = None
            except Exception as ex:
                ok, exc = False, ex
            if not ok:
                res.fail(tags=tags0 + ["hist:" + c.hist, "sym:" + (sym if exc is None else "read-crash")]
                         + (exc_tags(exc) if exc is not None else []),
                         what="expected %s%s" % (probe, "" if exc is None else
                                                 "; raised %s: %s" % (type(exc).__name__, str(exc)[:200])),
                         script=L.script(probe), case=c.text())
                break
    res.sample(c.text())


def expected_dynamic(c, state, T, node_path, base_tree_root, sroot):
    """(how, expression of the dynamic space holding r, expression of the object r must be, None) or None when
    the statement does not fix the binding."""
    mode, tkind = state["mode"], state["target"]
    tpath, tcells = T[tkind]
    if c.via == "derived":
        # static step first: Sub derives the references defined in S itself
        if c.node != "root":
            return None
        st = expected_static(mode, tkind, "root")
        if st is None:
            return None
        if st == "rebind":
            static_bound = ("Sub",) + tpath[len(sroot):]
        else:
            static_bound = tpath
        holder = "m.Sub[1]"
        if mode != "absolute" and inside(("Sub",), static_bound):
            return "rebind", holder, dyn_expr(("Sub",), static_bound), None
        return "original", holder, expr(static_bound), None
    if c.via == "base-param":
        root_expr_static = sroot
        if not inside(base_tree_root, node_path):
            return None
        holder = "m.Y[1]" + "".join("." + p for p in node_path[len(sroot):])
        if mode != "absolute" and inside(sroot, tpath):
            return "rebind", holder, "m.Y[1]" + "".join("." + p for p in tpath[len(sroot):]), None
        return "original", holder, expr(tpath), None
    # own / nested-root / child-as-root
    root = base_tree_root
    if not inside(root, node_path):
        return None
    holder = dyn_expr(root, node_path)
    if mode != "absolute" and inside(root, tpath):
        return "rebind", holder, dyn_expr(root, tpath), None
    return "original", holder, expr(tpath), None


def exc_tags(e):
    """exception type; for a FormulaError also the type of the error raised inside the formula machinery"""
    tags = ["exc:" + type(e).__name__]
    if type(e).__name__ == "FormulaError":
        import re
        m = re.search(r"^(\w+(?:Error|Exception)):", str(e), re.M)
        if m:
            tags.append("cause:" + m.group(1))
    return tags


def target_class(tkind, definer):
    if tkind.startswith("outside"):
        return "outside"
    if tkind.startswith("prefix-sibling"):
        return "outside-name-extends-root"
    if definer is None:
        return "in-tree"
    own = {"root": ("root", "root-cells", "root-cells2"), "child": ("child", "child-cells")}[definer]
    if tkind in own:
        return "definer-or-its-cells"
    if definer == "child" and tkind.startswith("root"):
        return "parent-of-definer"
    return "below-definer"


def formula_probe(holder, bound, is_cells):
    """the object a formula of the holder sees under the name r (cells q = lambda: r)"""
    if is_cells:
        return "formula-read", "%s.q()() == %s()" % (holder, bound)
    return "formula-read", "%s.q() is %s" % (holder, bound)


# ------------------------------------------------------------------------------------------------ several derivers
#
# part "multi": the defining space B (tree as above) is derived by >= 2 spaces at once - siblings, chains
# (sub-sub spaces), a diamond - each optionally with parameters (ItemSpaces D[1]).  The reference B.r is assigned
# and RE-assigned (attribute assignment / set_ref / absref / relref, every mode) before, after or in between the
# creation of the deriving spaces, optionally followed by base changes and save + load (directory, zip).
# Observed in EVERY deriving space D, direct or indirect, and in D[1]:
#     auto / relative, target = B or a cells of B   ->  D.r is the object at the same relative path below D,
#                                                       D[1].r the one below D[1]
#     absolute, or target outside B's tree          ->  D.r and D[1].r are the original object
#     the declared mode is read back unchanged in B and in every D
# Nothing is asserted for a target below B (child space / its cells): a deriving space has no corresponding
# object (child spaces are not derived) and the statement speaks of "the defining space itself or one of its
# cells" only; such cases are run (the definer's own value is checked) and counted trivial.

SHAPES = {
    "sib2": (("S1", ("B",)), ("S2", ("B",))),
    "chain2": (("S1", ("B",)), ("G1", ("S1",))),
    "sib2+chain": (("S1", ("B",)), ("S2", ("B",)), ("G1", ("S1",))),
    "sib2+chain-of-later": (("S1", ("B",)), ("S2", ("B",)), ("G2", ("S2",))),
    "sib3": (("S1", ("B",)), ("S2", ("B",)), ("S3", ("B",))),
    "chain3": (("S1", ("B",)), ("G1", ("S1",)), ("H1", ("G1",))),
    "diamond": (("S1", ("B",)), ("S2", ("B",)), ("D1", ("S1", "S2"))),
}
MULTI_OPS = (("attr", "auto"), ("set_ref", "auto"), ("set_ref", "absolute"), ("set_ref", "relative"),
             ("absref", "absolute"), ("relref", "relative"))
OP_LINE = {"attr": "%(b)s.r = %(v)s", "set_ref": "%(b)s.set_ref('r', %(v)s, refmode=%(m)r)",
           "absref": "%(b)s.absref(r=%(v)s)", "relref": "%(b)s.relref(r=%(v)s)"}
CROSS = {"root": "outside-space", "root-cells": "outside-cells", "root-cells2": "outside-cells2",
         "child": "outside-space", "child-cells": "outside-cells", "grandchild-cells": "outside-cells",
         "outside-space": "root", "outside-cells": "root-cells", "prefix-sibling-cells": "root-cells"}
MULTI_WHEN_SIMPLE = ("before", "after", "between", "rebased-then")
MULTI_WHEN_RE = ("before+re", "after+re", "between+re", "after+del+re")
MULTI_POST = ("none", "rebase-first", "rebase-last", "add-other-base", "write-read", "zip-read",
              "rebase-last+write-read", "write-read+rebase-first")


def shape_roles(shape):
    """role of every deriving space: first-direct | later-direct | sub-sub | sub-sub-sub | sub-sub-two-bases"""
    roles, depth, direct = {}, {"B": 0}, 0
    for name, bases in SHAPES[shape]:
        depth[name] = 1 + max(depth[b] for b in bases)
        if "B" in bases:
            roles[name] = "first-direct" if direct == 0 else "later-direct"
            direct += 1
        elif len(bases) > 1:
            roles[name] = "sub-sub-two-bases"
        else:
            roles[name] = "sub-sub" if depth[name] == 2 else "sub-sub-sub"
    return roles


def multi_cases(thorough):
    if thorough:
        shapes = tuple(SHAPES)
        places = ("top", "nested", "mixed")
        tk = ("root", "root-cells", "child", "child-cells", "outside-space", "outside-cells", "prefix-sibling-cells")
        froms = lambda mode: ("scalar", "cross", "retarget") + tuple("mode:" + x for x in       # noqa: E731
                                                                  ("auto", "absolute", "relative") if x != mode)
        whens = MULTI_WHEN_SIMPLE + MULTI_WHEN_RE
        posts = MULTI_POST
        items = ("no-params", "params", "item-live")
    else:
        shapes = ("sib2", "chain2", "sib2+chain")
        places = ("top",)
        tk = ("root", "root-cells", "child-cells", "outside-cells")
        froms = lambda mode: ("scalar", "cross", "mode:" + MODE_CHANGE[mode])                   # noqa: E731
        whens = ("before", "after", "between", "rebased-then", "before+re", "after+re")
        posts = ("none", "rebase-first", "rebase-last", "write-read", "zip-read")
        items = ("no-params", "item-live")
    for shape in shapes:
        for place in places:
            if place != "top" and shape not in ("sib2+chain", "diamond"):
                continue
            for when in whens:
                for op, mode in MULTI_OPS:
                    for frm in (froms(mode) if when in MULTI_WHEN_RE else ("-",)):
                        if when in ("between+re", "after+del+re") and \
                                frm not in ("scalar", "cross", "mode:" + MODE_CHANGE[mode]):
                            continue
                        for t in tk:
                            for post in posts:
                                if place != "top" and post not in ("none", "rebase-last", "write-read"):
                                    continue
                                if "+" in post and shape not in ("sib2+chain", "diamond"):
                                    continue
                                for it in items:
                                    if thorough:
                                        # "params" (ItemSpaces first built at observation) differs from "item-live"
                                        # only when no deriving space exists before the last assignment
                                        if it == ("item-live" if when == "before" else "params"):
                                            continue
                                    elif (post == "write-read" and it == "no-params") or \
                                            (post == "zip-read" and it == "item-live"):
                                        continue        # quick: directory with parameters, zip without
                                    yield Case(part="multi", shape=shape, place=place, when=when, op=op,
                                               mode=mode, frm=frm, target=t, post=post, items=it)


def multi_paths(c):
    bpath = ("P", "B") if c.place == "nested" else ("B",)
    dpaths = {}
    for i, (name, _bases) in enumerate(SHAPES[c.shape]):
        if c.place == "nested" or (c.place == "mixed" and i > 0):
            dpaths[name] = ("Q", name)
        else:
            dpaths[name] = (name,)
    return bpath, dpaths


def multi_plan(c, T):
    """the history as a list of steps:
    ('derive', i) ('assign', op, mode, tkind | None for the scalar 7) ('del',) ('rebase', i) ('touch',)"""
    n = len(SHAPES[c.shape])
    D = [("derive", i) for i in range(n)]
    A = ("assign", c.op, c.mode, c.target)
    if c.frm == "scalar":
        A0 = ("assign", c.op, c.mode, None)
    elif c.frm == "cross":
        A0 = ("assign", c.op, c.mode, CROSS[c.target])
    elif c.frm == "retarget":
        A0 = ("assign", c.op, c.mode, RETARGET[c.target])
    elif c.frm.startswith("mode:"):
        A0 = ("assign", "set_ref", c.frm[5:], c.target)
    else:
        A0 = None
    touch = [("touch",)] if c.items == "item-live" else []
    w = c.when
    if w == "before":
        steps = [A] + D
    elif w == "after":
        steps = D + touch + [A]
    elif w == "between":
        steps = D[:1] + touch + [A] + D[1:]
    elif w == "rebased-then":
        steps = D + [("rebase", 0)] + touch + [A]
    elif w == "before+re":
        steps = [A0] + D + touch + [A]
    elif w == "after+re":
        steps = D + [A0] + touch + [A]
    elif w == "between+re":
        steps = D[:1] + [A0] + D[1:] + touch + [A]
    elif w == "after+del+re":
        steps = D + [A0] + touch + [("del",), A]
    else:
        raise ValueError(w)
    for p in (c.post.split("+") if c.post != "none" else []):
        if p == "rebase-first":
            steps.append(("rebase", 0))
        elif p == "rebase-last":
            steps.append(("rebase", n - 1))
        else:
            steps.append((p,))
    return steps


def run_multi(res, c):
    L = Live()
    try:
        _run_multi(res, c, L)
    finally:
        L.cleanup()


def _run_multi(res, c, L):
    bpath, dpaths = multi_paths(c)
    roles = shape_roles(c.shape)
    spec = SHAPES[c.shape]
    nested_b = len(bpath) == 2
    pathof = dict(dpaths, B=bpath)
    # ---- fixed part of the model (not under test: a failure here is not a statement about C10)
    setup = ["m = mx.new_model('M')"]
    if nested_b:
        setup.append("P = m.new_space('P')")
    setup += tree_lines("P" if nested_b else "m", "B", "B")
    setup += ["X = m.new_space('X')", "X.new_cells('xf', formula=%r)" % (CELL % "xf"),
              "X.new_cells('xg', formula=%r)" % (CELL % "xg"),
              "B2 = %s.new_space('B2')" % ("P" if nested_b else "m"),
              "B2.new_cells('foo', formula=%r)" % (CELL % "foo"),
              "B.new_cells('q', formula='lambda: r')"]
    if any(len(p) == 2 for p in dpaths.values()):
        setup.append("Q = m.new_space('Q')")
    for ln in setup:
        e = L.do(ln)
        if e is not None:
            raise RuntimeError("setup line %r raised %r" % (ln, e))
    T = targets_for(bpath, ("X",), bpath[:-1] + ("B2",))
    b = expr(bpath)
    tags0 = ["part:multi", "shape:" + c.shape, "when:" + c.when, "op:" + c.op, "mode:" + c.mode,
             "target:" + target_class(c.target, "root"), "post:" + c.post]
    if c.place != "top":
        tags0.append("place:" + c.place)
    if c.frm != "-":
        tags0.append("from:" + (c.frm if not c.frm.startswith("mode:") else "other-mode"))
    state = {"mode": None, "target": None}       # the reference as last assigned (target None: scalar / undefined)

    def legit_refusal(mode, tkind):
        """an edit may be refused where the statement promises nothing: no object-valued reference involved, a
        target below the definer, or relative mode with a target that cannot be rebound"""
        if mode is None or tkind is None:
            return True
        w = expected_static(mode, tkind, "root")
        return w is None or (mode == "relative" and w != "rebind")

    existing = []           # deriving spaces created so far
    for step in multi_plan(c, T):
        kind = step[0]
        att_mode, att_target = state["mode"], state["target"]
        if kind == "derive":
            name, bases = spec[step[1]]
            dp = dpaths[name]
            e = L.do("%s.new_space(%r, bases=[%s])" % (expr(dp[:-1]) if len(dp) > 1 else "m", name,
                                                       ", ".join(expr(pathof[x]) for x in bases)))
            if e is None and c.items != "no-params":
                e = L.do("%s.formula = 'lambda i: None'" % expr(dp))
            existing.append(name)
        elif kind == "assign":
            _k, op, mode, tkind = step
            att_mode, att_target = mode, tkind
            v = "7" if tkind is None else expr(T[tkind][0])
            e = L.do(OP_LINE[op] % {"b": b, "v": v, "m": mode})
            if e is None:
                state["mode"], state["target"] = ("auto" if op == "attr" else mode), tkind
        elif kind == "del":
            e = L.do("del %s.r" % b)
            if e is None:
                state["mode"], state["target"] = None, None
        elif kind == "touch":
            e = None
            for name in existing:       # the ItemSpaces exist before the edit (building may fail: not asserted here)
                L.do("_it = %s[1]" % expr(dpaths[name]))
        elif kind == "rebase":
            name, bases = spec[step[1]]
            blist = ", ".join(expr(pathof[x]) for x in bases)
            e = L.do("%s.remove_bases(%s)" % (expr(dpaths[name]), blist))
            e = e or L.do("%s.add_bases(%s)" % (expr(dpaths[name]), blist))
        elif kind == "add-other-base":
            e = L.do("Z = m.new_space('Z')")
            e = e or L.do("%s.add_bases(Z)" % expr(dpaths[spec[-1][0]]))
        elif kind in ("write-read", "zip-read"):
            if "_tmp" not in L.env:
                L.do("import tempfile, shutil")
                L.do("_tmp = tempfile.mkdtemp()")
            if kind == "write-read":
                e = L.do("mx.write_model(m, _tmp + '/model')")
                e = e or L.do("m.close()")
                e = e or L.do("m = mx.read_model(_tmp + '/model', name='M')")
            else:
                e = L.do("mx.zip_model(m, _tmp + '/model.zip')")
                e = e or L.do("m.close()")
                e = e or L.do("m = mx.read_model(_tmp + '/model.zip', name='M')")
        else:
            raise ValueError(step)
        if e is not None:
            legit = legit_refusal(att_mode, att_target)
            with res.case(c.key(), nontrivial=not legit):
                if not legit:
                    res.fail(tags=tags0 + ["sym:edit-crash", "step:" + kind] + exc_tags(e),
                             what="step %r of the history raised %s: %s" % (step, type(e).__name__, str(e)[:200]),
                             script=L.retry_script(), case=c.text())
            return
    # ---- observe
    mode, tkind = state["mode"], state["target"]
    want = expected_static(mode, tkind, "root")
    tpath, tcells = T[tkind]
    rel = tpath[len(bpath):]
    with res.case(c.key(), nontrivial=want is not None):
        groups = [("definer", "static", [("definer-value", "%s.r is %s" % (b, expr(tpath))),
                                          ("refmode", "%s._get_object('r', as_proxy=True).refmode == %r"
                                           % (b, mode))])]
        if want is not None:
            for name, _bases in spec:
                d = expr(dpaths[name])
                bound = expr(dpaths[name] + rel) if want == "rebind" else expr(tpath)
                groups.append((roles[name], "static",
                               [("wrong-binding", "%s.r is %s" % (d, bound)), formula_probe(d, bound, tcells),
                                ("refmode", "%s._get_object('r', as_proxy=True).refmode == %r" % (d, mode))]))
                if c.items == "no-params":
                    continue
                it = d + "[1]"
                ibound = (it + "".join("." + p for p in rel)) if want == "rebind" else expr(tpath)
                if mode == "relative" and want == "original":
                    # modelx refuses to build such an ItemSpace (explicit ValueError): "keeps denoting the original
                    # object" is asserted only if the ItemSpace can be built
                    try:
                        L.ev(it + ".r")
                    except Exception:
                        continue
                groups.append((roles[name], "itemspace",
                               [("wrong-binding", "%s.r is %s" % (it, ibound)), formula_probe(it, ibound, tcells)]))
        for which, obs, probes in groups:
            for sym, probe in probes:
                try:
                    ok = bool(L.ev(probe))
                    exc = None
                except Exception as ex:
                    ok, exc = False, ex
                if not ok:
                    res.fail(tags=tags0 + ["which:" + which, "obs:" + obs,
                                           "sym:" + (sym if exc is None else "read-crash")]
                             + (["items:" + c.items] if obs == "itemspace" else [])
                             + (exc_tags(exc) if exc is not None else []),
                             what="expected %s%s" % (probe, "" if exc is None else
                                                     "; raised %s: %s" % (type(exc).__name__, str(exc)[:200])),
                             script=L.script(probe), case=c.text())
                    break           # one report per observed space
    res.sample(c.text())


# ------------------------------------------------------------------------------------------------ nested derivation
#
# part "nested": a nested tree A.B (cells foo, foo2) - A.B.C (bar) - A.B.C.E (baz) and a parallel tree D - D.C - D.C.E
# in which each level derives from the corresponding level of the first tree, level by level (level 0: D(A.B),
# level 1: D.C(A.B.C), level 2: D.C.E(A.B.C.E)); which levels are derived ("levels"), in which order the spaces
# are created and get their bases (new_space(bases=...) / add_bases, top-down, bottom-up, the outer or the middle
# level last) and whether the reference exists before the derivations are all enumerated.  The reference r is
# DEFINED IN AN INNER SPACE (A.B.C or A.B.C.E); its target ranges over the defining space, its cells, its child,
# every ANCESTOR (the root of the shared tree, the middle space, an ancestor above the shared tree: A) and their
# cells, and objects outside.  Observed in the deriving space of the same level, in ItemSpaces of the parallel
# tree (D[1].C..., D.C[1]...) and of the first tree (A.B[1].C...), optionally after base changes / save + load.
#
# What the statement fixes (and nothing else is asserted):
#   * target = the defining space or one of its cells, auto / relative  ->  the deriving space / its cells;
#   * absolute, or a target outside every tree in question (X, a sibling, an ancestor that is not derived by
#     any level of the parallel tree)                                   ->  the original object;
#   * a target that is an ancestor of the definer INSIDE the shared tree (or below the definer): the first
#     sentence speaks of "the defining space itself or one of its cells" only, and "the tree" of the last
#     sentence can be read as the definer's tree or as the shared tree -> the static binding is NOT asserted;
#   * "modes and bindings survive base changes, saving and loading" is asserted for EVERY target, as a
#     differential: the object bound in the deriving space before remove_bases+add_bases of the same bases, or
#     before write/zip + read, is the bound object afterwards (same full name, live), and the declared mode is
#     read back unchanged;
#   * ItemSpace: whatever object V the reference of a static space denotes, its copy in an ItemSpace of that
#     space's tree denotes the corresponding dynamic object when V lies inside the base's tree (auto /
#     relative), V itself otherwise; for the first tree's own ItemSpace A.B[1] the expected object follows
#     from the target alone.

NEST_T1 = ("A", "B")
NEST_SUB = ("C", "E")
NEST_ORDERS = {
    # steps: ("new", level, with base?) | ("add", level)
    "BC": {
        "new-top-down": (("new", 0, True), ("new", 1, True)),
        "add-top-down": (("new", 0, False), ("new", 1, False), ("add", 0), ("add", 1)),
        "add-bottom-up": (("new", 0, False), ("new", 1, False), ("add", 1), ("add", 0)),
        "outer-last": (("new", 0, False), ("new", 1, True), ("add", 0)),
    },
    "BCE": {
        "new-top-down": (("new", 0, True), ("new", 1, True), ("new", 2, True)),
        "add-top-down": (("new", 0, False), ("new", 1, False), ("new", 2, False), ("add", 0), ("add", 1), ("add", 2)),
        "add-bottom-up": (("new", 0, False), ("new", 1, False), ("new", 2, False), ("add", 2), ("add", 1), ("add", 0)),
        "outer-last": (("new", 0, False), ("new", 1, True), ("new", 2, True), ("add", 0)),
        "add-outer-last": (("new", 0, False), ("new", 1, False), ("new", 2, False), ("add", 1), ("add", 2), ("add", 0)),
        "middle-last": (("new", 0, True), ("new", 1, False), ("new", 2, True), ("add", 1)),
    },
    "CE": {
        "new-top-down": (("new", 0, False), ("new", 1, True), ("new", 2, True)),
        "add-bottom-up": (("new", 0, False), ("new", 1, False), ("new", 2, False), ("add", 2), ("add", 1)),
    },
}
NEST_DERIVED = {"BC": (0, 1), "BCE": (0, 1, 2), "CE": (1, 2)}
NEST_DEFINERS = {"BC": (1,), "BCE": (1, 2), "CE": (2,)}
NEST_TARGETS = ("root", "root-cells", "child", "child-cells", "grandchild", "grandchild-cells", "above",
                "outside-space", "outside-cells", "prefix-sibling-cells")
NEST_TLEVEL = {"root": 0, "root-cells": 0, "root-cells2": 0, "child": 1, "child-cells": 1, "grandchild": 2,
               "grandchild-cells": 2}
NEST_VAR = {0: "B", 1: "B_C", 2: "B_E"}


def nest_t1(level):
    return NEST_T1 + NEST_SUB[:level]


def nest_d(level):
    return ("D",) + NEST_SUB[:level]


def nest_want(mode, tkind, d, f):
    """'rebind' | 'original' | None for the static binding in the deriving space of level d (f: level of the
    root of the shared tree, f <= d)"""
    if mode is None or tkind is None:
        return None
    if mode == "absolute":
        return "original"
    lv = NEST_TLEVEL.get(tkind)
    if lv is None:
        return "original"               # X, A, the sibling: outside the definer's tree and outside the shared tree
    if lv == d:
        return "rebind"
    if lv < f:
        return "original"               # an ancestor above the shared tree: no level of the parallel tree derives it
    return None                         # an ancestor inside the shared tree / below the definer: not fixed


def nest_target_class(tkind, d, f):
    lv = NEST_TLEVEL.get(tkind)
    cells = "-cells" if tkind.endswith("cells") or tkind.endswith("cells2") else ""
    if lv is None:
        return {"above": "ancestor-above-tree"}.get(tkind, target_class(tkind, None))
    if lv == d:
        return "definer-or-its-cells"
    if lv > d:
        return "below-definer"
    if lv < f:
        return "ancestor-above-tree" + cells
    return ("tree-root" if lv == f else "ancestor-in-tree") + cells


def nest_root_level(based, d):
    """level of the root of the tree mapped onto the parallel tree as seen from level d: the topmost level of the
    unbroken run of derived levels ending at d (None: d itself is not derived)"""
    if d not in based:
        return None
    f = d
    while f - 1 in based:
        f -= 1
    return f


# quick tier: (assignment form, ItemSpace flavour) pairs per follow-up - every form and flavour without a follow-up,
# one flavour per follow-up (the one whose ItemSpace is built on the level that changes)
NEST_QUICK = {
    "none": {("attr", "none"), ("set_ref", "none"), ("absref", "none"), ("relref", "none"),
             ("attr", "D-param"), ("relref", "D-param"), ("absref", "D-param"),
             ("attr", "mid-param"), ("absref", "mid-param"), ("attr", "T1-param"), ("relref", "T1-param")},
    "rebase-0": {("attr", "D-param"), ("relref", "none")},
    "rebase-1": {("attr", "mid-param"), ("relref", "none")},
    "rebase-2": {("attr", "none"), ("relref", "D-param")},
    "write-read": {("attr", "D-param"), ("relref", "none"), ("absref", "mid-param")},
}


# thorough tier: ItemSpace flavours per follow-up (A.B[1] does not depend on the parallel tree's bases; an ItemSpace
# that exists before the last assignment matters only without a follow-up: save + load builds all of them anew)
NEST_THOROUGH = {
    "none": ("none", "D-param", "D-live", "T1-param", "mid-param"),
    "rebase-0": ("none", "D-param", "mid-param"), "rebase-1": ("none", "D-param", "mid-param"),
    "rebase-2": ("none", "D-param"),
    "write-read": ("none", "D-param", "mid-param"), "zip-read": ("none", "T1-param"),
    "rebase-0+write-read": ("D-param",), "rebase-2+write-read": ("none",), "write-read+rebase-1": ("mid-param",),
}


def nested_cases(thorough):
    if thorough:
        whens = ("ref-first", "sub-first", "between", "scalar-first+re")
        ops = MULTI_OPS
        posts = ("none", "rebase-0", "rebase-1", "rebase-2", "write-read", "zip-read", "rebase-0+write-read",
                 "rebase-2+write-read", "write-read+rebase-1")
        items = ("none", "D-param", "D-live", "T1-param", "mid-param")
        targets = NEST_TARGETS
    else:
        whens = ("ref-first", "sub-first")
        ops = (("attr", "auto"), ("set_ref", "relative"), ("absref", "absolute"), ("relref", "relative"))
        posts = ("none", "rebase-0", "rebase-1", "rebase-2", "write-read")
        items = ("none", "D-param", "T1-param", "mid-param")
        targets = tuple(t for t in NEST_TARGETS if t not in ("outside-space", "prefix-sibling-cells"))
    for levels in ("BCE", "BC", "CE"):
        for order in NEST_ORDERS[levels]:
            for d in NEST_DEFINERS[levels]:
                for when in whens:
                    for op, mode in ops:
                        for t in targets:
                            for post in posts:
                                plv = [int(p[-1]) for p in post.split("+") if p.startswith("rebase-")]
                                if any(x not in NEST_DERIVED[levels] for x in plv):
                                    continue
                                for it in items:
                                    if it == "D-live" and when == "ref-first":
                                        continue        # nothing is assigned after the ItemSpace exists
                                    if not thorough and (op, it) not in NEST_QUICK[post]:
                                        continue
                                    if thorough and (it not in NEST_THOROUGH[post] or (
                                            when in ("between", "scalar-first+re")
                                            and ((op, mode) not in (("attr", "auto"), ("set_ref", "relative"),
                                                                    ("absref", "absolute"))
                                                 or post not in ("none", "rebase-1", "write-read")))):
                                        continue
                                    yield Case(part="nested", levels=levels, order=order, definer=NEST_SUB[d - 1],
                                               when=when, op=op, mode=mode, target=t, post=post, items=it)


def run_nested(res, c):
    L = Live()
    try:
        _run_nested(res, c, L)
    finally:
        L.cleanup()


def _run_nested(res, c, L):
    d = NEST_SUB.index(c.definer) + 1
    derived = NEST_DERIVED[c.levels]
    f = nest_root_level(set(derived), d)
    dexpr = expr(nest_t1(d))                # the defining space
    H = expr(nest_d(d))                     # the deriving space of the same level
    rel_d = NEST_SUB[:d]
    # ---- fixed part of the model (not under test)
    setup = ["m = mx.new_model('M')", "A = m.new_space('A')"] + tree_lines("A", "B", "B")
    setup += ["X = m.new_space('X')", "X.new_cells('xf', formula=%r)" % (CELL % "xf"),
              "X.new_cells('xg', formula=%r)" % (CELL % "xg"),
              "B2 = A.new_space('B2')", "B2.new_cells('foo', formula=%r)" % (CELL % "foo"),
              "%s.new_cells('q', formula='lambda: r')" % NEST_VAR[d]]
    if c.items == "T1-param":
        setup.append("B.formula = 'lambda i: None'")
    for ln in setup:
        e = L.do(ln)
        if e is not None:
            raise RuntimeError("setup line %r raised %r" % (ln, e))
    T = dict(targets_for(NEST_T1, ("X",), ("A", "B2")), above=(("A",), False))
    # ---- the history
    build = list(NEST_ORDERS[c.levels][c.order])
    A_ = ("assign", c.op, c.mode, c.target)
    touch = [("touch",)] if c.items == "D-live" else []
    if c.when == "ref-first":
        steps = [A_] + build
    elif c.when == "sub-first":
        steps = build + touch + [A_]
    elif c.when == "between":
        k = 1 + min(i for i, s in enumerate(build) if s[0] == "add" or s[2])    # after the first derivation
        steps = build[:k] + [A_] + build[k:]
    elif c.when == "scalar-first+re":
        steps = [("assign", c.op, c.mode, None)] + build + touch + [A_]
    else:
        raise ValueError(c.when)
    steps.append(("snapshot",))
    for p in (c.post.split("+") if c.post != "none" else []):
        steps.append(("rebase", int(p[-1])) if p.startswith("rebase-") else (p,))
    # ---- features of the history: the root of the shared tree when the reference was last derived
    based, defined, root_then = set(), False, None
    for s in steps:
        if s[0] == "assign":
            defined = s[3] is not None
            if defined and d in based:
                root_then = nest_root_level(based, d)
        elif s[0] == "add" or (s[0] == "new" and s[2]):
            based.add(s[1])
            if defined and s[1] == d:
                root_then = nest_root_level(based, d)
        elif s[0] == "snapshot":
            break
    tcls = nest_target_class(c.target, d, f)
    tags0 = ["part:nested", "nested-derivation", "levels:" + c.levels, "order:" + c.order,
             "defined-in:" + ("middle" if d < max(derived) else "inner"), "when:" + c.when, "op:" + c.op,
             "mode:" + c.mode, "target:" + tcls, "post:" + c.post]
    if root_then is not None and root_then != f:
        # a level above the definer got its base after the reference had been derived
        lv = NEST_TLEVEL.get(c.target)
        if lv is not None and lv < d:
            tags0.append("late-upper-base:target-" + ("above-earlier-root" if lv < root_then else
                                                      "is-earlier-root" if lv == root_then else
                                                      "inside-earlier-root"))
        else:
            tags0.append("late-upper-base")
    plv = [int(p[-1]) for p in c.post.split("+") if p.startswith("rebase-")]
    if NEST_TLEVEL.get(c.target) in plv and T[c.target][1] and NEST_TLEVEL[c.target] != d:
        # the follow-up removes and re-adds the base of the level owning the target cells: the corresponding
        # cells of the parallel tree (derived cells) are deleted and created anew in between
        tags0.append("rebase-recreates-corresponding-cells")
    state = {"mode": None, "target": None}

    def legit_refusal(mode, tkind):
        if mode is None or tkind is None:
            return True
        w = nest_want(mode, tkind, d, f)
        return w is None or (mode == "relative" and w != "rebind")

    snap = None
    for step in steps:
        kind = step[0]
        att_mode, att_target = state["mode"], state["target"]
        e = None
        if kind == "new":
            _k, lv, withbase = step
            p = nest_d(lv)
            e = L.do("%s.new_space(%r%s)" % (expr(p[:-1]) if len(p) > 1 else "m", p[-1],
                                             ", bases=[%s]" % expr(nest_t1(lv)) if withbase else ""))
            if e is None and ((lv == 0 and c.items in ("D-param", "D-live")) or (lv == 1 and c.items == "mid-param")):
                e = L.do("%s.formula = 'lambda i: None'" % expr(p))
        elif kind == "add":
            e = L.do("%s.add_bases(%s)" % (expr(nest_d(step[1])), expr(nest_t1(step[1]))))
        elif kind == "assign":
            _k, op, mode, tkind = step
            att_mode, att_target = mode, tkind
            v = "7" if tkind is None else expr(T[tkind][0])
            e = L.do(OP_LINE[op] % {"b": dexpr, "v": v, "m": mode})
            if e is None:
                state["mode"], state["target"] = ("auto" if op == "attr" else mode), tkind
        elif kind == "touch":
            L.do("_it = m.D[1]")            # the ItemSpace exists before the assignment (may fail: not asserted here)
        elif kind == "snapshot":
            if len(steps) > steps.index(step) + 1:
                # the binding before the base change / save: full name of the bound object
                if L.do("_b0 = %s.r.fullname" % H) is None:
                    snap = "_b0"
        elif kind == "rebase":
            lv = step[1]
            e = L.do("%s.remove_bases(%s)" % (expr(nest_d(lv)), expr(nest_t1(lv))))
            e = e or L.do("%s.add_bases(%s)" % (expr(nest_d(lv)), expr(nest_t1(lv))))
        elif kind in ("write-read", "zip-read"):
            if "_tmp" not in L.env:
                L.do("import tempfile, shutil")
                L.do("_tmp = tempfile.mkdtemp()")
            if kind == "write-read":
                e = L.do("mx.write_model(m, _tmp + '/model')")
                e = e or L.do("m.close()")
                e = e or L.do("m = mx.read_model(_tmp + '/model', name='M')")
            else:
                e = L.do("mx.zip_model(m, _tmp + '/model.zip')")
                e = e or L.do("m.close()")
                e = e or L.do("m = mx.read_model(_tmp + '/model.zip', name='M')")
        else:
            raise ValueError(step)
        if e is not None:
            legit = legit_refusal(att_mode, att_target)
            with res.case(c.key(), nontrivial=not legit):
                if not legit:
                    res.fail(tags=tags0 + ["sym:edit-crash", "step:" + kind] + exc_tags(e),
                             what="step %r of the history raised %s: %s" % (step, type(e).__name__, str(e)[:200]),
                             script=L.retry_script(), case=c.text())
            return
    # ---- observe
    mode, tkind = state["mode"], state["target"]
    want = nest_want(mode, tkind, d, f)
    tpath, tcells = T[tkind]
    refmode_probe = "%s._get_object('r', as_proxy=True).refmode == %r"
    groups = [("static", "definer", [("definer-value", "%s.r is %s" % (dexpr, expr(tpath))),
                                     ("refmode", refmode_probe % (dexpr, mode))])]
    fixed = want is not None        # does the statement fix anything observed in this case?
    probes = []
    if want is not None:
        bound = expr(nest_d(d) + tpath[len(nest_t1(d)):]) if want == "rebind" else expr(tpath)
        probes += [("wrong-binding", "%s.r is %s" % (H, bound)), formula_probe(H, bound, tcells)]
    if snap is not None:
        fixed = True
        probes.append(("binding-not-surviving", "%s.r is mx.get_object(%s)" % (H, snap)))
    if want is not None or c.post != "none":
        probes.append(("refmode", refmode_probe % (H, mode)))
    groups.append(("static", "deriver", probes))
    # ItemSpaces
    holders = []        # (holder expression, root path of its base's tree, expression of the dynamic root, basis)
    if c.items in ("D-param", "D-live"):
        holders.append(("m.D[1]" + "".join("." + p for p in rel_d), ("D",), "m.D[1]", "static-binding"))
    elif c.items == "mid-param":
        holders.append(("m.D.C[1]" + "".join("." + p for p in rel_d[1:]), ("D", "C"), "m.D.C[1]", "static-binding"))
    elif c.items == "T1-param":
        holders.append(("m.A.B[1]" + "".join("." + p for p in rel_d), NEST_T1, "m.A.B[1]", "target"))
    for holder, root, dynroot, basis in holders:
        if basis == "target":
            vpath = tpath
        else:
            try:
                v = L.ev(H + ".r")
                vpath = tuple(v.fullname.split(".")[1:])
            except Exception:
                continue            # the static binding itself cannot be read: reported by the static group
        if mode != "absolute" and inside(root, vpath):
            ibound = dynroot + "".join("." + p for p in vpath[len(root):])
        else:
            ibound = expr(vpath)
            if mode == "relative":
                # modelx refuses to build such an ItemSpace (explicit ValueError): "keeps denoting the original
                # object" is asserted only if the ItemSpace can be built
                try:
                    L.ev(holder + ".r")
                except Exception:
                    continue
        fixed = True
        groups.append(("itemspace", "item-of-" + ".".join(root),
                       [("wrong-binding", "%s.r is %s" % (holder, ibound)), formula_probe(holder, ibound, tcells)]))
    with res.case(c.key(), nontrivial=fixed):
        for obs, which, probes in groups:
            for sym, probe in probes:
                try:
                    ok = bool(L.ev(probe))
                    exc = None
                except Exception as ex:
                    ok, exc = False, ex
                if not ok:
                    res.fail(tags=tags0 + ["which:" + which, "obs:" + obs,
                                           "sym:" + (sym if exc is None else "read-crash")]
                             + (["items:" + c.items] if obs == "itemspace" else [])
                             + (exc_tags(exc) if exc is not None else []),
                             what="expected %s%s" % (probe, "" if exc is None else
                                                     "; raised %s: %s" % (type(exc).__name__, str(exc)[:200])),
                             script=L.script(probe), case=c.text())
                    break           # one report per observed space
    res.sample(c.text())


# ------------------------------------------------------------------------------------------------ driver

def work(task, sub):
    sub.exhaustive = True
    for c in task:
        if sub.expired():
            sub.exhaustive = False
            sub.notes.append("budget ended in part " + c.part)
            return
        reset()
        if c.part == "nested":
            run_nested(sub, c)
        elif c.part == "multi":
            run_multi(sub, c)
        elif c.part == "static":
            run_static(sub, c)
        else:
            run_dynamic(sub, c)


def run(res, tier, seed):
    from c03_pool import run_parallel
    thorough = tier != "quick"
    nested = list(nested_cases(thorough))      # first: the newest parts always complete
    multi = list(multi_cases(thorough))
    cases = nested + multi + list(static_cases(thorough)) + list(dynamic_cases(thorough))
    res.bound = ("nested derivation: tree A.B/A.B.C/A.B.C.E and parallel tree D/D.C/D.C.E deriving it level by level "
                 "(levels B+C+E, B+C, C+E) x %d creation orders (new_space(bases=) / add_bases, top-down, bottom-up, "
                 "outer or middle level last) x reference defined in the middle / innermost space %s x %s x %d "
                 "targets (definer, its cells, its child, each ancestor inside / above the shared tree and their "
                 "cells, outside objects) x follow-ups %s x ItemSpace flavours %s; "
                 % ((sum(len(v) for v in NEST_ORDERS.values()),
                     "before / after / in between the derivations, re-assigned from a scalar",
                     "6 (op, mode) pairs", len(NEST_TARGETS),
                     "(none, remove+add the base of level 0 / 1 / 2, directory and zip save+load, base change then "
                     "save+load, save+load then base change)",
                     "(none, D with parameters [ItemSpace built at observation / before the assignment], D.C with "
                     "parameters, A.B with parameters; 1-5 flavours per follow-up, table NEST_THOROUGH; the in-between "
                     "and re-assigned placements with 3 of the 6 pairs and 3 of the follow-ups)")
                    if thorough else
                    (sum(len(v) for v in NEST_ORDERS.values()), "before / after the derivations",
                     "4 (op, mode) pairs (attr, set_ref relative, absref, relref)", len(NEST_TARGETS) - 2,
                     "(none, remove+add the base of level 0 / 1 / 2, directory save+load)",
                     "(none, D / D.C / A.B with parameters; every pair without a follow-up, 2-3 (form, flavour) "
                     "pairs per follow-up)"))
                 + "several derivers: %d shapes of >= 2 deriving spaces (%s) x reference (re-)assigned %s x 6 (op, mode) "
                 "pairs (attr, set_ref x 3 modes, absref, relref) x %s x %s; deriving spaces with / without "
                 "parameters (ItemSpace [1] built before the last assignment and at observation)%s; "
                 % ((len(SHAPES), ", ".join(SHAPES), "before / after / between the derivations, after a remove+add of "
                     "the first deriver, re-assigned (from a scalar | inside<->outside | same-class target | each "
                     "other mode) before+re / after+re, (from a scalar | inside<->outside | another mode) between+re / "
                     "after+del+re",
                     "7 targets (definer, its cells, child space, cells of a child, outside space, outside cells, "
                     "cells of a sibling whose name extends the definer's)",
                     "8 follow-ups (none, remove+add bases of the first / last deriver, another base, directory and "
                     "zip save+load; for 2 shapes also base change then save+load, save+load then base change)",
                     "; definer / derivers nested or mixed for 2 shapes x 3 follow-ups")
                    if thorough else
                    (3, "sib2, chain2, sib2+chain", "before / after / between the derivations, after a remove+add of "
                     "the first deriver, re-assigned (from a scalar | inside<->outside | another mode) before+re / "
                     "after+re", "4 targets (definer, its cells, cells of a child, outside cells)",
                     "5 follow-ups (none, remove+add bases of the first / last deriver, directory save+load [with "
                     "parameters], zip save+load [without])", ""))
                 + "static derivation: 3 modes x 8 targets x definer {tree root, its child} x 5 layouts (definer / "
                 "deriver at depth 1 or 2, deriver nested under the definer's own name) x defined before / after "
                 "the sub x %d histories; ItemSpace: 3 modes x 10 targets x defining node {root, child, grandchild} "
                 "x 5 ways to the dynamic tree (own, nested root, child as root, derived then ItemSpace, base "
                 "named by the formula) x %d histories; histories of <= 2 edits incl. write_model/read_model "
                 "(%s two-edit histories on every layout)"
                 % (len(STATIC_HISTORIES), len(DYN_HISTORIES), "all" if thorough else "not all"))
    res.rule = ("full product, nothing sampled.  Oracle: identity of the bound object (`sub.r is <object>`), the "
                "declared mode read back through ReferenceProxy.refmode, and the value obtained by calling / "
                "reading the bound object.  Non-trivial: the statement fixes the binding (absolute; auto / "
                "relative with the target the defining space, one of its cells, an object of the ItemSpace's base "
                "tree, or an object outside); a refused definition in relative mode with an outside target is "
                "counted trivial.  Several derivers: the same oracle in every deriving space D (`D.r is <object at the "
                "same relative path below D>` / `is <original>`) and in D[1]; a target below the definer is run but "
                "counted trivial (only the definer's own value is checked).  Nested derivation: the binding in the "
                "deriving space of the definer's level is asserted when the target is the definer / its cells "
                "(rebind), in absolute mode or when the target lies outside every tree in question (original); for "
                "an ancestor inside the shared tree or an object below the definer the static binding is NOT "
                "asserted, only (i) that the object bound before a remove+add of the same bases / save+load is the "
                "bound object afterwards and the declared mode is read back, (ii) that the ItemSpace copy of the "
                "reference denotes the dynamic counterpart of whatever the static reference denotes when that lies "
                "inside the base's tree, else the same object; such a case is non-trivial when (i) or (ii) was "
                "evaluated.  distinct = the case tuple.")
    res.exhaustive = True
    chunks = [cases[i:i + 40] for i in range(0, len(cases), 40)]
    run_parallel(res, work, chunks, margin=0.93)
    if res.expired():
        res.exhaustive = False


if __name__ == "__main__":
    main("C10", run)
