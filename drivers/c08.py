"""C08 - reported dependencies are exactly the calls made; graph and cache agree.

Bounded stand-in.  Families of small models (<= 6 cells, DAGs of <= 6 held elements, cached/uncached mixes,
failing formulas, references read by name and by attribute path) x every history of <= 3 steps (quick: <= 2
plus query/edit/query triples; thorough: <= 3 plus sampled 4-5 step histories) over the family's alphabet of
queries (misses, hits, failures) and edits (clears, inputs, formula / reference / flag changes, deletions).
Values assigned by the user are part of the histories as things HELD when their cells, their space (top-level or
child space) or their ItemSpace is deleted: every (assignment, any step, deleting edit) triple and every
(assignment, query, deleting edit, query) history is enumerated in both tiers.

After EVERY step, through the public API only (cells.preds / succs / precedents, iteration of cells,
model.tracegraph):
  preds        for every held computed element: preds() == the callees recorded by a ghost log of the calls its
               formula made when it was computed (harness wrapper around executor.eval_node + the counting
               reference TICK); a call that went through an uncached cells contributes that cells itself and
               the cached elements it reached.  Callees whose own evaluation failed may or may not be listed.
  succs        succs() is the inverse of preds() over the held elements
  precedents   precedents() contains preds() and every reference the element's own formula read (the generated
               formula reports the references it reads, by name or by attribute path, to TICK)
  graph=held   the (cells, args) nodes of model.tracegraph are exactly the elements the cells hold
  live         no graph node belongs to a deleted cells;  the graph is acyclic
"""
from common import *
from c01_kit import *
import networkx as nx
from modelx.core.cells import Cells


# ------------------------------------------------------------------------------------------------ ghost log

class Frame:
    __slots__ = ("iface", "key", "cached", "ok", "ran", "reads", "callees")

    def __init__(self, iface, key, cached):
        self.iface, self.key, self.cached = iface, key, cached
        self.ok, self.ran, self.reads, self.callees = None, False, (), []


class Ghost:
    """Log of the calls made, built by wrapping executor.eval_node (calls) and by TICK (formula runs)."""

    def __init__(self):
        self.stack = []
        self.runs = {}                 # (id(cells interface), key) -> Frame of the latest completed formula run
        self.keep = []
        self.ex = sysimpl().executor
        self.calls = 0
        self.shadowed = set()          # spaces where an own reference `g` shadows the model-level one

    def install(self):
        orig = type(self.ex).eval_node.__get__(self.ex)
        ghost = self

        def eval_node(node):
            cells = node[0]
            fr = Frame(cells.interface, node[1], bool(cells.is_cached))
            ghost.stack.append(fr)
            ghost.calls += 1
            try:
                v = orig(node)
                fr.ok = True
                return v
            except BaseException:
                fr.ok = False
                raise
            finally:
                ghost.stack.pop()
                if ghost.stack:
                    ghost.stack[-1].callees.append(fr)
                if fr.ran and fr.ok and fr.cached:
                    ghost.keep.append(fr.iface)
                    ghost.runs[(id(fr.iface), fr.key)] = fr
        self.ex.eval_node = eval_node

    def uninstall(self):
        self.ex.__dict__.pop("eval_node", None)

    def tick(self, tag, key=None, reads=()):
        if self.stack:
            self.stack[-1].ran = True
            # '?S:g' = the name g resolved in space S (own reference if one exists, else the model's)
            out = []
            for r in reads:
                r, _, kind = r.partition("|")
                if r.startswith("?"):
                    sp, n = r[1:].split(":")
                    r = "M.%s.%s" % (sp, n) if sp in self.shadowed else "M." + n
                out.append((r, kind or "byname"))
            self.stack[-1].reads = tuple(out)


def flatten(fr):
    must, opt = set(), set()
    for c in fr.callees:
        if c.cached:
            (must if c.ok else opt).add(("item", id(c.iface), c.key))
        else:
            (must if c.ok else opt).add(("obj", id(c.iface)))
            m2, o2 = flatten(c)
            must |= m2
            opt |= o2
    return must, opt


# ------------------------------------------------------------------------------------------------ observation

WALK = '''
def _spaces_of(m):
    out = []
    def walk(sp):
        out.append(sp)
        for ch in sp.named_spaces.values():
            walk(ch)
        for it in getattr(sp, "itemspaces", {}).values():
            walk(it)
    for s in m.spaces.values():
        walk(s)
    return out
def _cells_of(m):
    return [c for sp in _spaces_of(m) for c in sp.cells.values()]
def _keys(c):
    n = len(c.parameters)
    return [(k,) if n == 1 else tuple(k) for k in list(c)]
def _items(sp):
    return [tuple(it.argvalues) for it in getattr(sp, "itemspaces", {}).values()]
def _held(m):
    return set((c.fullname, k) for c in _cells_of(m) for k in _keys(c)) | set((sp.fullname, k) for sp in _spaces_of(m) for k in _items(sp))
def _nodes(m):
    return set((n[0].interface.fullname, n[1]) for n in m.tracegraph.nodes if len(n) == 2)
def _expr(o):
    par = o.parent
    if par is None:
        return "m"
    if type(o).__name__ == "ItemSpace":
        return _expr(par) + "[%s]" % ", ".join(map(repr, o.argvalues))
    return _expr(par) + "." + o.name
def _pn(n):
    return (n.obj.fullname, n.args)
'''
_ns = {}
exec(WALK, _ns)
cells_of, keys_of, spaces_of, items_of, expr_of = _ns["_cells_of"], _ns["_keys"], _ns["_spaces_of"], _ns["_items"], _ns["_expr"]


def spaces_of_space(sp):
    """`sp` and every space below it."""
    out = [sp]
    for ch in sp.named_spaces.values():
        out += spaces_of_space(ch)
    for it in getattr(sp, "itemspaces", {}).values():
        out += spaces_of_space(it)
    return out


def fullname(o):
    try:
        return o.fullname
    except Exception:
        return "<deleted object>"


def nm(names, t):
    """Readable name of ('item', id, key) / ('obj', id)."""
    if t[0] == "item":
        return (names.get(t[1], "?"), t[2])
    return (names.get(t[1], "?"), None)


def check_all(run, ghost, deleted):
    """Return a list of (kind, what, tail) - violations visible now."""
    m = run.m
    out = []
    cells = cells_of(m)
    names = {id(c): c.fullname for c in cells}
    held = {}
    for c in cells:
        for k in keys_of(c):
            held[(id(c), k)] = c
    space_items = {}
    for sp in spaces_of(m):
        for k in items_of(sp):
            space_items[(id(sp), k)] = sp
            names[id(sp)] = sp.fullname
    all_held = set(held) | set(space_items)
    # graph nodes == held elements, live objects only
    g = m.tracegraph
    gnodes = set()
    for n in list(g.nodes):
        iface = n[0].interface
        if not iface._is_valid() or any(iface is d for d in deleted):
            out.append(("graph-mentions-deleted", "graph node %r belongs to a deleted object" % (n,),
                        "if any(not n[0].interface._is_valid() for n in m.tracegraph.nodes):\n    sys.exit(1)"))
            continue
        if len(n) == 2:
            gnodes.add((id(iface), n[1]))
            names.setdefault(id(iface), fullname(iface))
    if gnodes != all_held:
        extra = sorted(nm(names, ("item",) + x) for x in gnodes - all_held)
        missing = sorted(nm(names, ("item",) + x) for x in all_held - gnodes)
        out.append(("graph-node-not-held" if extra else "held-not-in-graph",
                    "graph nodes without a held value: %r; held elements without a node: %r" % (extra, missing),
                    "if _held(m) != _nodes(m):\n    sys.exit(1)"))
    if not nx.is_directed_acyclic_graph(g):
        out.append(("cyclic", "the dependency graph has a cycle",
                    "import networkx\nif not networkx.is_directed_acyclic_graph(m.tracegraph):\n    sys.exit(1)"))
    # preds / succs / precedents of every held element
    obs_preds, obs_succs = {}, {}
    nontrivial = False
    for (cid, k), c in held.items():
        ex = expr_of(c)
        try:
            P = c.preds(*k)
            S = c.succs(*k)
            isin = c.is_input(*k)
            R = c.precedents(*k) if not isin else []     # the statement speaks of computed values only
            pset = set()
            for n in P:
                o = n.obj
                names.setdefault(id(o), fullname(o))
                pset.add(("obj", id(o)) if n.args is None else ("item", id(o), n.args))
            sset = set(("item", id(n.obj), n.args) for n in S)
            for n in S:
                names.setdefault(id(n.obj), fullname(n.obj))
            rnames, rpreds = set(), set()
            for n in R:
                if type(n).__name__ == "ReferenceNode":
                    rnames.add(n.obj.fullname)
                else:
                    rpreds.add(("obj", id(n.obj)) if n.args is None else ("item", id(n.obj), n.args))
        except Exception as e:
            out.append(("api-raises", "preds/succs/precedents of held %s%r raised %r" % (c.fullname, k, e),
                        "try:\n    [(n.obj, n.args) for n in %s.preds(*%r) + %s.succs(*%r) + %s.precedents(*%r)]\nexcept Exception:\n    sys.exit(1)"
                        % (ex, k, ex, k, ex, k)))
            continue
        obs_preds[(cid, k)] = pset
        obs_succs[(cid, k)] = sset
        # every listed neighbour is a held element
        for t in sorted(pset | sset, key=repr):
            if t[0] == "item" and (t[1], t[2]) not in all_held:
                out.append(("neighbour-not-held", "%s%r lists %r, which holds no value" % (c.fullname, k, nm(names, t)),
                            "if any(_pn(n) not in _held(m) for n in %s.preds(*%r) + %s.succs(*%r) if n.args is not None):\n    sys.exit(1)"
                            % (ex, k, ex, k)))
        fr = ghost.runs.get((cid, k))
        if not isin and fr is not None:
            must, opt = flatten(fr)
            if must or fr.reads:
                nontrivial = True
            if not (must <= pset <= (must | opt)):
                miss = sorted(nm(names, t) for t in must - pset)
                extra = sorted(nm(names, t) for t in pset - must - opt)
                kind = "preds-missing" if miss else "preds-extra"
                if miss and all(t[1] is None for t in miss):
                    kind = "preds-missing-uncached-cells"
                out.append((kind, "preds of %s%r = %r; its formula called %r (failed callees: %r)"
                            % (c.fullname, k, sorted(nm(names, t) for t in pset), sorted(nm(names, t) for t in must),
                               sorted(nm(names, t) for t in opt)),
                            "got = set(_pn(n) for n in %s.preds(*%r))\nmust = %r\nopt = %r\nif not (must <= got <= (must | opt)):\n    sys.exit(1)"
                            % (ex, k, set(nm(names, t) for t in must), set(nm(names, t) for t in opt))))
            # precedents
            readnames = set(r for r, _ in fr.reads)
            if not (pset <= rpreds) or not (readnames <= rnames):
                kind = "precedents-missing-ref" if not (readnames <= rnames) else "precedents-missing-pred"
                kinds = sorted(set("read:" + kd for r, kd in fr.reads if r not in rnames))
                out.append((kind + "|" + "|".join(kinds), "precedents of %s%r = refs %r + %d nodes; its formula read %r and preds() has %d nodes"
                            % (c.fullname, k, sorted(rnames), len(rpreds), sorted(fr.reads), len(pset)),
                            "R = %s.precedents(*%r)\nrefs = set(n.obj.fullname for n in R if type(n).__name__ == 'ReferenceNode')\n"
                            "if not (%r <= refs) or not (set(map(_pn, %s.preds(*%r))) <= set(_pn(n) for n in R if type(n).__name__ != 'ReferenceNode')):\n    sys.exit(1)"
                            % (ex, k, readnames, ex, k)))
    # succs is the inverse of preds
    for (cid, k), c in held.items():
        if (cid, k) not in obs_preds:
            continue
        ex = expr_of(c)
        S = obs_succs[(cid, k)]
        inv = set(("item", fc, fk) for (fc, fk), ps in obs_preds.items() if ("item", cid, k) in ps)
        if S != inv:
            out.append(("succs-not-inverse", "succs of %s%r = %r but the elements listing it in preds() are %r"
                        % (c.fullname, k, sorted(nm(names, t) for t in S), sorted(nm(names, t) for t in inv)),
                        "S = set(_pn(n) for n in %s.succs(*%r))\ninv = set((c.fullname, k) for c in _cells_of(m) for k in _keys(c) if (%r, %r) in set(_pn(n) for n in c.preds(*k)))\nif S != inv:\n    sys.exit(1)"
                        % (ex, k, c.fullname, k)))
    return out, nontrivial


# ------------------------------------------------------------------------------------------------ families

def F(name, params, body, tag, key, reads="()"):
    """Formula source: def name(params): TICK(tag, key, reads); <body lines>"""
    lines = ["def %s(%s):" % (name, params), "    TICK(%r, %s, %s)" % (tag, key, reads)]
    body = body if isinstance(body, list) else ["return " + body]
    return "\n".join(lines + ["    " + b for b in body])


def Q(path, c, args=(), kwargs=None, form="call"):
    return ("call", path, c, tuple(args), dict(kwargs or {}), form)


class Family:
    name = ""
    flagged = ()            # (path, cells) whose cached flag varies

    def spec(self, flags):  # flags: dict (path, cells) -> bool
        raise NotImplementedError

    def alphabet(self):
        """list of (optag, kind, fn(state) -> op | None); kind in 'query' | 'edit'"""
        raise NotImplementedError

    def extra(self):
        """More alphabet entries, used by this driver only (the C09 driver reuses alphabet() and compares runs
        with different cached flags: values assigned to cells whose flag varies have no meaning there)."""
        return []


def alphabet_of(fam):
    return fam.alphabet() + fam.extra()


def _cached(st, path, c):
    return st["flags"].get((path, c), True)


def _gone(st, path):
    """The space `path` was deleted, itself or with a space above it."""
    return any(path == d or path.startswith(d + ".") for d in st["deleted_spaces"])


def _alive(st, path, c):
    return (path, c) not in st["deleted"] and not _gone(st, path)


def q(tagname, path, c, args=(), kwargs=None, form="call"):
    return (tagname, "query", lambda st: Q(path, c, args, kwargs, form) if _alive(st, path, c) else None)


def e_clear(tagname, kind, path, c, args=None):
    def fn(st):
        if not _alive(st, path, c):
            return None
        return (kind, path, c) if args is None else (kind, path, c, tuple(args))
    return (tagname, "edit", fn)


def e_setref(tagname, path, name, base):
    return (tagname, "edit", lambda st: ("setref", path, name, base + 10 * (st["step"] + 1))
            if not _gone(st, path) and (path, name) not in st["deleted_refs"] else None)


def e_delref(tagname, path, name):
    return (tagname, "edit", lambda st: ("delref", path, name)
            if not _gone(st, path) and (path, name) not in st["deleted_refs"] else None)


def e_formula(tagname, path, c, srcs):
    """srcs: list of alternative sources; picks the next one not equal to the current."""
    def fn(st):
        if not _alive(st, path, c):
            return None
        cur = st["src"].get((path, c))
        for s in srcs:
            if s != cur:
                return ("setformula", path, c, s)
        return None
    return (tagname, "edit", fn)


def e_input(tagname, path, c, key, value):
    return (tagname, "edit", lambda st: ("input", path, c, tuple(key), value)
            if _alive(st, path, c) and _cached(st, path, c) else None)


def e_flip(tagname, path, c):
    return (tagname, "edit", lambda st: ("flag", path, c, not _cached(st, path, c)) if _alive(st, path, c) else None)


def e_del(tagname, path, c):
    return (tagname, "edit", lambda st: ("delcells", path, c) if _alive(st, path, c) else None)


def e_simple(tagname, op):
    return (tagname, "edit", lambda st: op if (len(op) < 2 or op[0] == "raw" or not _gone(st, op[1])) else None)


class Diamond(Family):
    name = "diamond"
    flagged = (("S", "a"), ("S", "b"), ("S", "c"), ("S", "d"))
    D2 = F("d", "", "g + 2", "S.d", "()", "('M.g|byname-global',)")
    B2 = F("b", "", "d() + r + 1", "S.b", "()", "('M.S.r',)")

    def spec(self, flags):
        sp = Spec()
        sp.ref("", "g", 7)
        sp.space("S"); sp.space("S.Ch")
        sp.ref("S", "r", 5); sp.ref("S.Ch", "y", 2)
        sp.cell("S", "a", F("a", "", "b() + c()", "S.a", "()"), flags.get(("S", "a"), True))
        sp.cell("S", "b", F("b", "", "d() + r", "S.b", "()", "('M.S.r',)"), flags.get(("S", "b"), True))
        sp.cell("S", "c", F("c", "", "d() * Ch.y", "S.c", "()", "('M.S.Ch.y|child-attr',)"), flags.get(("S", "c"), True))
        sp.cell("S", "d", F("d", "", "g + 1", "S.d", "()", "('M.g|byname-global',)"), flags.get(("S", "d"), True))
        return sp

    def alphabet(self):
        return [q("q-top", "S", "a"), q("q-mid", "S", "b"), q("q-mid2", "S", "c", form="value"), q("q-leaf", "S", "d"),
                e_clear("clear-leaf", "clear", "S", "d"), e_clear("clear_at-mid", "clear_at", "S", "b", ()),
                e_setref("set-ref-byname", "S", "r", 6), e_setref("set-ref-attr", "S.Ch", "y", 3),
                e_setref("set-ref-global", "", "g", 8),
                e_formula("formula-leaf", "S", "d", [self.D2]), e_formula("formula-mid", "S", "b", [self.B2]),
                e_input("input-leaf", "S", "d", (), 50), e_input("input-mid", "S", "c", (), 60),
                e_del("del-mid", "S", "c"), e_flip("flip-mid", "S", "b"), e_flip("flip-leaf", "S", "d"),
                e_simple("model-clear-all", ("model_clear_all",)), e_simple("space-clear-all", ("space_clear_all", "S")),
                (("new-cells"), "edit", lambda st: ("newcells", "S", "z%d" % st["step"], F("z%d" % st["step"], "", "d() + 1", "S.z", "()"), True))]


class Recur(Family):
    name = "recur"
    flagged = (("S", "f"), ("S", "k"))
    K2 = F("k", "x", "x * Ch.y + 1", "S.k", "(x,)", "('M.S.Ch.y|child-attr',)")

    def spec(self, flags):
        sp = Spec()
        sp.space("S"); sp.space("S.Ch")
        sp.ref("S", "r", 5); sp.ref("S.Ch", "y", 2)
        sp.cell("S", "f", F("f", "x", "(f(x - 1) + k(x)) if x > 0 else r", "S.f", "(x,)",
                            "() if x > 0 else ('M.S.r',)"), flags.get(("S", "f"), True))
        sp.cell("S", "k", F("k", "x", "x * Ch.y", "S.k", "(x,)", "('M.S.Ch.y|child-attr',)"), flags.get(("S", "k"), True))
        return sp

    def alphabet(self):
        return [q("q-top", "S", "f", (2,)), q("q-mid-kw", "S", "f", (), {"x": 1}), q("q-leaf-sub", "S", "k", (1,), form="sub"),
                q("q-base", "S", "f", (0,)),
                e_clear("clear_at-mid", "clear_at", "S", "f", (1,)), e_clear("clear_at-leaf", "clear_at", "S", "k", (1,)),
                e_clear("clear-top", "clear", "S", "f"), e_clear("clear_all-leaf", "clear_all", "S", "k"),
                e_input("input-mid", "S", "f", (1,), 100), e_input("input-leaf", "S", "k", (2,), 70),
                e_input("input-unrelated", "S", "k", (9,), 9),
                e_setref("set-ref-attr", "S.Ch", "y", 3), e_setref("set-ref-byname", "S", "r", 6),
                e_formula("formula-leaf", "S", "k", [self.K2]), e_flip("flip-leaf", "S", "k"), e_flip("flip-top", "S", "f")]


class Fail(Family):
    name = "fail"
    flagged = (("S", "bad"), ("S", "um"), ("S", "c"))
    BAD2 = F("bad", "x", "c() + x", "S.bad", "(x,)")

    def spec(self, flags):
        sp = Spec()
        sp.space("S")
        sp.ref("S", "r", 5)
        sp.cell("S", "c", F("c", "", "r", "S.c", "()", "('M.S.r',)"), flags.get(("S", "c"), True))
        sp.cell("S", "c2", F("c2", "", "7", "S.c2", "()"))
        sp.cell("S", "bad", F("bad", "x", "c() + 10 // (x - 1)", "S.bad", "(x,)"), flags.get(("S", "bad"), True))
        sp.cell("S", "um", F("um", "x", "bad(x) + c2()", "S.um", "(x,)"), flags.get(("S", "um"), False))
        sp.cell("S", "h", F("h", "", ["try:", "    v = bad(1)", "except ZeroDivisionError:", "    v = -1", "return v + c2()"],
                            "S.h", "()"))
        sp.cell("S", "hm", F("hm", "", ["try:", "    v = um(1)", "except ZeroDivisionError:", "    v = -1", "return v + c()"],
                             "S.hm", "()"))
        sp.cell("S", "top", F("top", "", "c2() + bad(1) + c()", "S.top", "()"))
        sp.cell("S", "ok", F("ok", "", "um(2) + bad(3)", "S.ok", "()"))
        return sp

    def alphabet(self):
        return [q("q-handled", "S", "h"), q("q-handled-via-uncached", "S", "hm"), q("q-unhandled", "S", "top"),
                q("q-ok", "S", "ok"), q("q-failing-direct", "S", "bad", (1,)), q("q-leaf", "S", "c"),
                q("q-failing-mid-direct", "S", "um", (1,)),
                e_clear("clear-leaf", "clear", "S", "c"), e_setref("set-ref-byname", "S", "r", 6),
                e_formula("formula-failing", "S", "bad", [self.BAD2]),
                e_input("input-failing", "S", "bad", (1,), 500), e_flip("flip-failing", "S", "bad"),
                e_clear("clear_at-ok", "clear_at", "S", "ok", ()), e_del("del-leaf2", "S", "c2")]


class Cross(Family):
    name = "cross"
    flagged = (("T", "b"), ("S", "c"))
    TB2 = F("b", "", "_model.S.c() * z + 1", "T.b", "()", "('M.T.z|byname',)")

    def spec(self, flags):
        sp = Spec()
        sp.space("S"); sp.space("T"); sp.space("T.Ch")
        sp.ref("S", "r", 5); sp.ref("T", "z", 4); sp.ref("T.Ch", "y", 2)
        sp.ref("S", "rt", Obj("T")); sp.ref("S", "rb", Obj("T.b"))
        sp.cell("S", "a", F("a", "", "_model.T.b() + 1", "S.a", "()"))
        sp.cell("S", "a3", F("a3", "", "_model.T.Ch.k() + 1", "S.a3", "()"))
        sp.cell("T.Ch", "k", F("k", "", "y + 1", "T.Ch.k", "()", "('M.T.Ch.y',)"))
        sp.cell("S", "a2", F("a2", "", "rt.b() + rb() + rt.z", "S.a2", "()", "('M.T.z|refspace-attr',)"))
        sp.cell("T", "b", F("b", "", "_model.S.c() * z", "T.b", "()", "('M.T.z|byname',)"), flags.get(("T", "b"), True))
        sp.cell("S", "c", F("c", "", "r", "S.c", "()", "('M.S.r',)"), flags.get(("S", "c"), True))
        return sp

    def alphabet(self):
        def delspace(st):
            return ("delspace", "T") if "T" not in st["deleted_spaces"] else None

        def rename(st):
            return ("rename", "T", "b", "bb") if _alive(st, "T", "b") and ("T", "b") not in st["renamed"] else None
        return [q("q-top", "S", "a"), q("q-top-via-ref", "S", "a2"), q("q-mid-otherspace", "T", "b"), q("q-leaf", "S", "c"),
                ("del-space", "edit", delspace), ("rename-mid", "edit", rename),
                e_setref("set-ref-otherspace", "T", "z", 5), e_setref("set-ref-byname", "S", "r", 6),
                e_formula("formula-mid", "T", "b", [self.TB2]), e_del("del-mid", "T", "b"),
                ("new-cells-otherspace", "edit", lambda st: ("newcells", "T", "n%d" % st["step"], F("n%d" % st["step"], "", "1", "T.n", "()"), True)
                 if not _gone(st, "T") else None),
                e_simple("space-clear-all", ("space_clear_all", "S")), e_flip("flip-mid", "T", "b"),
                e_input("input-leaf", "S", "c", (), 50)]

    def extra(self):
        """Values assigned by the user that are held when their space is deleted, and their dependents elsewhere."""
        def delchild(st):
            return ("delspace", "T.Ch") if not _gone(st, "T.Ch") else None
        return [q("q-top-via-childspace", "S", "a3"), e_input("input-mid-otherspace", "T", "b", (), 40),
                e_input("input-childspace-leaf", "T.Ch", "k", (), 30), ("del-child-space", "edit", delchild)]


class Reads(Family):
    name = "reads"
    flagged = (("S", "a"),)

    def spec(self, flags):
        sp = Spec()
        sp.ref("", "g", 7)
        sp.space("S"); sp.space("S.Ch"); sp.space("S.Ch.GC")
        sp.ref("S", "r", 5); sp.ref("S.Ch", "y", 2); sp.ref("S.Ch.GC", "z", 3); sp.ref("S", "unused", 1)
        sp.cell("S", "a", F("a", "x", "(Ch.y if x > 0 else Ch.GC.z) + r", "S.a", "(x,)",
                            "('M.S.r', 'M.S.Ch.y|child-attr') if x > 0 else ('M.S.r', 'M.S.Ch.GC.z|deep-attr')"), flags.get(("S", "a"), True))
        sp.cell("S", "b", F("b", "x", "a(x) + _space.r + _model.g", "S.b", "(x,)", "('M.S.r|space-attr', 'M.g|model-attr')"))
        sp.cell("S", "c", F("c", "x", "g + _self.Ch.GC.z + _model.S.Ch.y + b(x)", "S.c", "(x,)",
                            "('?S:g|byname-global', 'M.S.Ch.GC.z|self-deep-attr', 'M.S.Ch.y|model-path-attr')"))
        sp.ref("S", "q", 9)
        sp.cell("S", "n", F("n", "x", "sum(q + i for i in range(x + 1)) + (lambda: unused)()", "S.n", "(x,)",
                            "('M.S.q|byname-in-genexpr', 'M.S.unused|byname-in-lambda')"))
        # references read only in code objects nested two and three levels deep (lambda inside a generator
        # expression; generator expression inside a lambda inside a generator expression) -- seeded change C08-3
        sp.ref("S", "q2", 11); sp.ref("S", "q3", 13)
        sp.cell("S", "n2", F("n2", "x", "sum((lambda v: v + q2)(i) for i in range(x + 1))"
                                        " + sum((lambda w: sum(q3 + j for j in range(w + 1)))(i) for i in range(2))", "S.n2", "(x,)",
                             "('M.S.q2|byname-in-lambda-in-genexpr', 'M.S.q3|byname-in-genexpr-in-lambda-in-genexpr')"))
        sp.cell("S.Ch", "k", F("k", "x", "y + GC.z + _space.parent.r + _space.parent.a(x) + _space.g", "S.Ch.k", "(x,)",
                               "('M.S.Ch.y', 'M.S.Ch.GC.z|child-attr', 'M.S.r|parent-attr', 'M.g|space-attr-global')"))
        return sp

    def alphabet(self):
        return [q("q-reader-branch0", "S", "a", (0,)), q("q-reader-branch1", "S", "a", (1,)), q("q-caller", "S", "b", (1,)),
                q("q-top", "S", "c", (0,)), q("q-child-reader", "S.Ch", "k", (1,)), q("q-nested-code-reader", "S", "n", (1,)),
                e_setref("set-ref-byname", "S", "r", 6), e_setref("set-ref-attr", "S.Ch", "y", 3),
                e_setref("set-ref-deep-attr", "S.Ch.GC", "z", 4), e_setref("set-ref-global", "", "g", 8),
                e_setref("set-ref-unused", "S", "unused", 2),
                e_delref("del-ref-deep-attr", "S.Ch.GC", "z"), e_flip("flip-reader", "S", "a"),
                e_clear("clear_at-reader", "clear_at", "S", "a", (1,)),
                ("new-ref-shadowing-global", "edit", lambda st: ("setref", "S", "g", 70 + st["step"]))]

    def extra(self):
        return [q("q-nested2-code-reader", "S", "n2", (1,)), e_setref("set-ref-nested2", "S", "q2", 12),
                e_setref("set-ref-nested3", "S", "q3", 14)]


class UChain(Family):
    name = "uchain"
    flagged = (("S", "u1"), ("S", "u2"), ("S", "top"))
    U2B = F("u2", "", "d() + e() + 1", "S.u2", "()")

    def spec(self, flags):
        sp = Spec()
        sp.space("S"); sp.space("S.Ch")
        sp.ref("S", "r", 5); sp.ref("S.Ch", "y", 2)
        sp.cell("S", "top", F("top", "", "u1() + d()", "S.top", "()"), flags.get(("S", "top"), True))
        sp.cell("S", "top2", F("top2", "x", "u2() + x", "S.top2", "(x,)"))
        sp.cell("S", "u1", F("u1", "", "u2() + 1", "S.u1", "()"), flags.get(("S", "u1"), False))
        sp.cell("S", "u2", F("u2", "", "d() + e()", "S.u2", "()"), flags.get(("S", "u2"), False))
        sp.cell("S", "d", F("d", "", "r", "S.d", "()", "('M.S.r',)"))
        sp.cell("S", "e", F("e", "", "Ch.y", "S.e", "()", "('M.S.Ch.y|child-attr',)"))
        return sp

    def alphabet(self):
        return [q("q-top", "S", "top"), q("q-top2", "S", "top2", (1,)), q("q-uncached-direct", "S", "u1"),
                q("q-uncached2-direct", "S", "u2", form="value"), q("q-leaf", "S", "d"),
                e_clear("clear-leaf", "clear", "S", "e"), e_clear("clear_at-top", "clear_at", "S", "top", ()),
                e_setref("set-ref-attr", "S.Ch", "y", 3), e_formula("formula-uncached", "S", "u2", [self.U2B]),
                e_flip("flip-uncached1", "S", "u1"), e_flip("flip-uncached2", "S", "u2"), e_del("del-uncached", "S", "u1"),
                e_input("input-leaf", "S", "d", (), 50), e_clear("clear-uncached", "clear", "S", "u2")]


class Inherit(Family):
    name = "inherit"
    flagged = (("Base", "b"),)
    B2 = F("b", "", "r * 2", "b", "()", "(_space.fullname + '.r',)")

    def spec(self, flags):
        sp = Spec()
        sp.space("Base"); sp.space("Sub", bases=["Base"]); sp.space("Sub2", bases=["Base"], late_bases=True)
        sp.ref("Base", "r", 5)
        sp.cell("Base", "a", F("a", "", "b() + r", "a", "()", "(_space.fullname + '.r',)"))
        sp.cell("Base", "b", F("b", "", "r + 1", "b", "()", "(_space.fullname + '.r',)"), flags.get(("Base", "b"), True))
        sp.post.append("m.Sub2.b.formula = %r" % F("b", "", "r + 100", "b", "()", "(_space.fullname + '.r',)"))
        return sp

    def alphabet(self):
        return [q("q-derived-top", "Sub", "a"), q("q-base-top", "Base", "a"), q("q-overriding-sub-top", "Sub2", "a"),
                ("q-derived-leaf", "query", lambda st: Q("Sub", "b") if _alive(st, "Base", "b") and "Sub" not in st["unbased"] else None),
                e_formula("formula-base-leaf", "Base", "b", [self.B2]), e_setref("set-ref-base", "Base", "r", 6),
                e_setref("set-ref-override-in-sub", "Sub", "r", 7), e_flip("flip-base-leaf", "Base", "b"),
                ("input-derived-leaf", "edit", lambda st: ("input", "Sub", "b", (), 50)
                 if _alive(st, "Base", "b") and _cached(st, "Base", "b") and "Sub" not in st["unbased"] else None), e_del("del-base-leaf", "Base", "b"),
                ("clear-derived-leaf", "edit", lambda st: ("clear", "Sub", "b")
                 if _alive(st, "Base", "b") and "Sub" not in st["unbased"] else None),
                ("override-formula-in-sub", "edit", lambda st: ("setformula", "Sub", "a", F("a", "", "b() + r + 1", "a", "()", "(_space.fullname + '.r',)"))
                 if ("Sub", "a") not in st["overridden"] and "Sub" not in st["unbased"] else None),
                ("remove-base", "edit", lambda st: ("raw", "m.Sub.remove_bases(m.Base)") if "Sub" not in st["unbased"] else None)]


class Items(Family):
    name = "items"
    flagged = (("P", "u"),)
    C2 = F("c", "x", "u(x) + i + 1", "P.c", "(i, x)")

    def spec(self, flags):
        sp = Spec()
        sp.space("P", params=("i",)); sp.space("S")
        sp.ref("P", "k", 3)
        sp.cell("P", "u", F("u", "x", "x * k", "P.u", "(i, x)", "('M.P.k|byname-dynbase',)"), flags.get(("P", "u"), True))
        sp.cell("P", "c", F("c", "x", "u(x) + i", "P.c", "(i, x)"))
        sp.cell("S", "top", F("top", "", "_model.P[1].c(2) + _model.P(2).c(1)", "S.top", "()"))
        sp.cell("S", "t1", F("t1", "", "_model.P[1].c(1)", "S.t1", "()"))
        return sp

    def alphabet(self):
        return [q("q-top", "S", "top"), q("q-top1", "S", "t1"), q("q-item-direct", "P[1]", "c", (2,)),
                q("q-item-leaf-direct", "P[3]", "u", (1,)),
                e_setref("set-ref-in-parametrised", "P", "k", 4), e_simple("clear-item", ("raw", "[m.P.clear_at(*s.argvalues) for s in list(m.P.itemspaces.values()) if s.argvalues[0] == 1]")),
                e_simple("clear-all-items", ("raw", "m.P.clear_items()")), e_simple("space-clear-all", ("space_clear_all", "P")),
                e_flip("flip-item-leaf", "P", "u"), e_formula("formula-item-mid", "P", "c", [self.C2]),
                ("new-cells-in-parametrised", "edit", lambda st: ("newcells", "P", "n%d" % st["step"], F("n%d" % st["step"], "", "1", "P.n", "()"), True)),
                e_simple("change-space-formula", ("raw", "m.P.formula = 'lambda i, j=0: None'")),
                e_clear("clear_at-top", "clear_at", "S", "top", ())]

    def extra(self):
        """Values assigned by the user in cells of an ItemSpace, held when the ItemSpace is deleted."""
        return [("input-item-leaf", "edit", lambda st: ("input", "P[1]", "u", (2,), 77) if _cached(st, "P", "u") else None),
                e_simple("input-item-mid", ("input", "P[2]", "c", (1,), 88)),
                e_simple("del-item", ("raw", "for _s in [s for s in m.P.itemspaces.values() if s.argvalues[0] == 1]:\n    del m.P[tuple(_s.argvalues)]"))]


FAMILIES = [Diamond(), Recur(), Fail(), Cross(), Reads(), UChain(), Inherit(), Items()]


def is_assignment(optag):
    return optag.startswith("input")


DELETION_TAGS = ("del-", "rename", "remove-base", "clear-item", "clear-all-items", "space-clear-all", "change-space-formula",
                 "set-ref-in-parametrised", "new-cells-in-parametrised", "flip-item", "formula-item")


def is_deletion(optag):
    """Edits that delete cells, a space or ItemSpaces (directly, or because the ItemSpaces are rebuilt)."""
    return optag.startswith(DELETION_TAGS)


def flag_variants(fam, tier):
    fl = fam.flagged
    allv = [dict(zip(fl, bits)) for bits in itertools.product((True, False), repeat=len(fl))]
    if tier == "thorough" or len(allv) <= 4:
        return allv
    # quick: all-default, each single deviation, all-uncached
    out = [{}]
    for f in fl:
        out.append({f: False})
        out.append({f: True})
    out.append({f: False for f in fl})
    seen, res = set(), []
    for v in out:
        full = fam.spec(v)
        k = tuple(c[1] for s in full.spaces.values() for c in s.cells.values())
        if k not in seen:
            seen.add(k)
            res.append(v)
    return res


# ------------------------------------------------------------------------------------------------ one history

def new_state(fam, flags, spec):
    return {"flags": {(p, n): c[1] for p, s in spec.spaces.items() for n, c in s.cells.items()},
            "src": {(p, n): c[0] for p, s in spec.spaces.items() for n, c in s.cells.items()},
            "deleted": set(), "deleted_spaces": set(), "deleted_refs": set(), "renamed": set(), "step": 0,
            "overridden": set(), "unbased": set()}


def apply_state(st, op):
    k = op[0]
    if k == "flag":
        st["flags"][(op[1], op[2])] = op[3]
    elif k == "setformula":
        st["src"][(op[1], op[2])] = op[3]
    elif k == "delcells":
        st["deleted"].add((op[1], op[2]))
    elif k == "delspace":
        st["deleted_spaces"].add(op[1])
    elif k == "delref":
        st["deleted_refs"].add((op[1], op[2]))
    elif k == "rename":
        st["renamed"].add((op[1], op[2]))
        st["deleted"].add((op[1], op[2]))
    elif k == "newcells":
        st["flags"][(op[1], op[2])] = op[4]
    elif k == "raw" and "remove_bases" in op[1]:
        st["unbased"].add("Sub")
    if k == "setformula" and op[1] == "Sub":
        st["overridden"].add((op[1], op[2]))


def run_history(item):
    fi, flagbits, hist = item
    fam = FAMILIES[fi]
    flags = dict(zip(fam.flagged, flagbits))
    spec = fam.spec(flags)
    alpha = alphabet_of(fam)
    st = new_state(fam, flags, spec)
    ftags = ["family:" + fam.name] + ["uncached:%s.%s" % f for f, v in sorted(st["flags"].items()) if not v]
    out = {"key": (fam.name, flagbits, hist), "fails": [], "nontrivial": False, "skipped": False,
           "sample": {"family": fam.name, "uncached": [t for t in ftags if t.startswith("uncached")], "history": []}}
    ghost = Ghost()
    run = MxRun(spec, tick=ghost.tick)
    ops = []
    deleted_ifaces = []
    try:
        if run.build_error:
            out["fails"].append((tuple(ftags) + ("build-raises",), "building raised %r" % (run.build_error,), None))
            return out
        ghost.install()
        for step, ai in enumerate(hist):
            optag, kind, fn = alpha[ai]
            st["step"] = step
            op = fn(st)
            if op is None:
                out["skipped"] = True           # not applicable in this state: the shorter history covers it
                return out
            ops.append(op)
            out["sample"]["history"].append(line(op))
            if kind == "query":
                r = run.query(op)
            else:
                if op[0] == "delcells":
                    deleted_ifaces.append(run.obj(op[1] + "." + op[2]))
                elif op[0] == "delspace":
                    deleted_ifaces.extend(c for sp_ in spaces_of_space(run.obj(op[1])) for c in sp_.cells.values())
                if op[0] == "setref" and op[1] and op[2] == "g":
                    ghost.shadowed.add(op[1])
                r = run.edit(op)
                apply_state(st, op)
                if isinstance(r, Raised):
                    ftags = ["family:" + fam.name] + ["uncached:%s.%s" % f for f, v in sorted(st["flags"].items()) if not v]
                    out["fails"].append((tuple(ftags) + ("edit-raises", "after:" + optag) + tuple("seq:" + alpha[a][0] for a in hist[:step]),
                                         "%s raised %r" % ("; ".join(line(o) for o in ops), r),
                                         script(spec, ops[:-1], "try:\n    %s\nexcept Exception:\n    sys.exit(1)" % line(op))))
                    return out
            assert not ghost.stack
            viol, nontriv = check_all(run, ghost, deleted_ifaces)
            out["nontrivial"] = out["nontrivial"] or nontriv
            if viol:
                steptags = ["step%d:%s" % (i, alpha[a][0]) for i, a in enumerate(hist[:step + 1])]
                ftags = ["family:" + fam.name] + ["uncached:%s.%s" % f for f, v in sorted(st["flags"].items()) if not v]
                for kindtag, what, tail in viol[:3]:
                    tags = tuple(ftags) + tuple(t for t in kindtag.split("|") if t) + ("after:" + optag,) + tuple("seq:" + alpha[a][0] for a in hist[:step])
                    out["fails"].append((tags, "after %s: %s" % ("; ".join(line(o) for o in ops), what),
                                         script(spec, ops, tail, pre=WALK)))
                return out
        return out
    finally:
        ghost.uninstall()
        run.close()


# ------------------------------------------------------------------------------------------------ enumeration

def enumerate_items(tier, rng):
    items = []
    for fi, fam in enumerate(FAMILIES):
        alpha = alphabet_of(fam)
        n = len(alpha)
        qs = [i for i, a in enumerate(alpha) if a[1] == "query"]
        es = [i for i, a in enumerate(alpha) if a[1] == "edit"]
        for fv in flag_variants(fam, tier):
            bits = tuple(fv.get(f, fam.spec({}).spaces[f[0]].cells[f[1]][1]) for f in fam.flagged)
            hs = [(a,) for a in range(n)] + [(a, b) for a in range(n) for b in range(n)]
            if tier == "quick":
                hs += [(a, b, c) for a in qs for b in es for c in qs]
            else:
                hs += [(a, b, c) for a in range(n) for b in range(n) for c in range(n)]
            # an assigned value is held when its cells / space / ItemSpace goes away: assignment, any step, deletion
            # (quick; part of the triples in the thorough tier) and assignment, query, deletion, query
            ins = [i for i in es if is_assignment(alpha[i][0])]
            dels = [i for i in es if is_deletion(alpha[i][0])]
            if tier == "quick":
                hs += [(a, b, c) for a in ins for b in range(n) for c in dels]
            hs += [(a, b, c, d) for a in ins for b in qs for c in dels for d in qs]
            for h in hs:
                items.append((fi, bits, h))
    random.Random(20261002).shuffle(items)        # fixed order: a run cut by the budget still spans every family
    n_exh = len(items)
    nrand = 600 if tier == "quick" else 30000
    for i in range(nrand):
        fi = rng.randrange(len(FAMILIES))
        fam = FAMILIES[fi]
        n = len(alphabet_of(fam))
        bits = tuple(bool(rng.randrange(2)) for _ in fam.flagged)
        L = rng.choice((4, 4, 5)) if tier != "quick" else 4
        items.append((fi, bits, tuple(rng.randrange(n) for _ in range(L))))
    return items, n_exh


def run(res, tier, seed):
    res.bound = ("%d model families (%s; <= 8 cells, <= 6 held elements), cached/uncached assignments of the flagged cells "
                 "(quick: default, single deviations, all-uncached; thorough: all 2^n), every history of <= 2 steps over the "
                 "family's alphabet (14-19 queries/edits) + every query-edit-query triple (quick) / every history of <= 3 steps "
                 "(thorough); + every (value assignment, any step, deleting edit) and (value assignment, query, deleting edit, "
                 "query) history, deleting edit = deletion / renaming of cells, of a space or child space, of ItemSpaces "
                 "(del, clear_at, clear_items, clear_all, formula / reference / cells changes of the parametrised space), "
                 "removal of a base; histories of 4-5 steps sampled") % (len(FAMILIES), ", ".join(f.name for f in FAMILIES))
    res.rule = ("exhaustive product family x flag assignment x history, then seeded random longer histories; all checks "
                "run after every step; a history is non-trivial when at some step a held computed element had at least one "
                "recorded callee or reference read (the contract's antecedent); histories containing a step that is not "
                "applicable in the reached state are dropped (not counted); distinct = distinct (family, flags, history)")
    items, n_exh = enumerate_items(tier, res.rng)
    res.exhaustive = True
    n = skipped = 0
    for item, out in pmap(run_history, items, res, chunk=16):
        n += 1
        if out["skipped"]:
            skipped += 1
            continue
        res.count(out["key"], out["nontrivial"])
        for tags, what, scr in out["fails"]:
            res.fail(tags, what, script=scr, case=out["key"])
        if out["nontrivial"] and n % 2003 == 1:
            res.sample(out["sample"])
    res.exhaustive = n >= n_exh
    res.notes.append("%d histories enumerated (+%d sampled), %d dropped as not applicable" % (min(n, n_exh), max(0, n - n_exh), skipped))


if __name__ == "__main__":
    main("C08", run)
