"""C06 - a value edit discards exactly its dependents; inputs persist (bounded stand-in).

Every case builds a dependency DAG on the real modelx (elements = scalar cells, elements of one cells with an
argument, uncached cells, ItemSpace nodes), evaluates part of it, applies a sequence of value edits
(assign / overwrite / clear_at / clear() / clear_all() / delete an ItemSpace / a reference change) and after every
step compares the *observable* state - dict(cells) of every cells, Cells.is_input, the existing ItemSpaces and the
formula execution log - with an independent memoising evaluator (Sim) that implements the statement:

  * a value edit of element e discards exactly e's transitive dependents among the held computed values
    (complement check: nothing else changes, no formula runs),
  * assigned values persist (clear(), edits of other elements, reference changes), report is_input and are what
    the cells returns whatever its formula,
  * afterwards every element evaluates to the value given by the definitions and the assigned values, and exactly
    the discarded elements run their formula again (execution log equality),
  * recalculation option on: after an assignment the discarded dependents are held again at once, with the lazy
    values, each formula having run once.

Readings fixed by the oracle (each follows the statement / the documented API, see the report):
  - the recalculation option applies to assignments (mx.set_recalc doc); clear_at/clear/clear_all stay lazy;
  - an ItemSpace node that depended on the assigned element is a discarded dependent and must exist again after a
    recalculating assignment; a cells value *inside* that ItemSpace that no recomputed element asks for may or may
    not be recomputed (it depends on the element through the ItemSpace's reference, not through a call);
  - a reference change must keep every assigned value and must not leave any computed value that (transitively)
    read the reference; what else it discards is not constrained here (C02).
Held values may be None: the `none` nets switch allow_none on (for the cells, their spaces or the model), contain
elements whose formula returns None (kind N: None while the reference x is even) and add the edit "assign None";
every formula reads its callees through the reference NZ (None counts as -1).  The same oracle applies: an assigned
None persists, reports is_input and is what the cells returns; a held None is served without its formula running;
the values computed from it are those of the definitions.
Nets that span two models (`cross-model`): the nodes are split over a model A and a model B, an element of the other
model is read through a reference bound to the other model's cells (layouts xmc, xma) or space (xms); every DAG with
at least one dependency across the boundary (chains A -> B -> A included).  The same edit sequences and the same
oracle run over them; whether the precedent in the other model was already held when its reader was computed
(assigned by the user / computed earlier) or was computed on demand follows from the initial evaluation and the
edits and is reported as the tag precedent:held-input|held-computed|on-demand of the discarded dependents.
The recalculation option is not part of the statement and its reach across models is not documented: in these nets
an assignment made with the option on may leave any not-held element computed or not (if held: the value of the
definitions, its formula having run once); everything else is checked as with the option off.
Models are reused between cases (reset by a checked Model.clear_all()); a failure seen on a reused model is
re-run on a fresh one, if necessary together with the preceding cases, before it is reported.
"""
import os, sys, time, itertools, random, multiprocessing

from common import *          # mx, Result, reset, main

WEIGHT = (3, 5, 7, 11, 13)


# ------------------------------------------------------------------------------------------------ nets
class Net:
    """preds[i] = tuple of j < i;  kinds[i] in C (cached cells) U (uncached cells) I (ItemSpace node) N (cached cells
    whose formula returns None while x is even; nets with allow_none only);
    layout: one (scalar cells in S) / two (even nodes in S, odd in T, calls by attribute path) / args (one cells
    f(i)) / args2 (one cells f(i, j), positional and keyword arguments);
    nets that span two models (models = one letter A/B per node: node i lives in space S of model `m` (A) or in
    space T of a second model `mb` (B)): xmc (scalar cells, an element of the other model is read through a
    reference bound to the cells) / xms (scalar cells, through a reference bound to the other model's space) /
    xma (one cells f(i) per model, the other one read through a reference bound to the cells)."""

    XM = ("xmc", "xms", "xma")

    def __init__(self, preds, kinds, layout, none=None, models=None):
        self.preds, self.kinds, self.layout = tuple(map(tuple, preds)), tuple(kinds), layout
        self.none = none            # None | 'cells' | 'space' | 'model': where allow_none is switched on
        assert none or "N" not in kinds
        self.models = models
        self.cross = models is not None
        assert self.cross == (layout in self.XM) and not (self.cross and none)
        assert not self.cross or (len(models) == len(preds) and "I" not in kinds)
        self.argslike = layout in ("args", "args2", "xma")
        self.n = len(preds)
        self.key = "%s/%s/%s" % (layout, "".join(kinds), ";".join(",".join(map(str, p)) for p in preds))
        if none:
            self.key += "/none:" + none
        if models:
            self.key += "/models:" + models

    def sp(self, i):
        if self.cross:
            return "T" if self.models[i] == "B" else "S"
        if self.layout == "two" and i % 2:
            return "T"
        return "S"

    def mvar(self, i):
        """The variable the model of node i is bound to in the build / replay code."""
        return "mb" if self.cross and self.models[i] == "B" else "m"

    def reads_other(self, i):
        """Node i reads an element of the other model (directly or through uncached cells of its own model)."""
        return any(self.sp(j) != self.sp(i) or (self.kinds[j] == "U" and self.reads_other(j)) for j in self.preds[i])

    def cells_expr(self, i):
        """The cells that holds node i (for the nets with one cells per model: i = any node of that model)."""
        if self.layout in ("args", "args2"):
            return "m.S.f"
        if self.layout == "xma":
            return "%s.%s.f" % (self.mvar(i), self.sp(i))
        return "%s.%s.c%d" % (self.mvar(i), self.sp(i), i)

    def K(self, i):
        return 1000 * (i + 1)

    # -- source text of the real model
    def pred_expr(self, j, ctx):
        if self.cross:              # ctx = the space of the reader: S (model A) or T (model B)
            if self.sp(j) == ctx:
                return "c%d()" % j
            return "r%d()" % j if self.layout == "xmc" else "O.c%d()" % j
        if self.kinds[j] == "I":
            return "_model.P%d[0].v()" % j
        if self.sp(j) == ctx:
            return "c%d()" % j
        return "_model.%s.c%d()" % (self.sp(j), j)

    def build_lines_cross(self):
        """Two models; the formulas of one read elements of the other through references set after both exist."""
        L = ["m.LOG = []", "S = m.new_space('S')", "S.x = 0",
             "mb = mx.new_model('MB')", "mb.LOG = m.LOG", "T = mb.new_space('T')", "T.x = 0"]
        n = self.n
        crossing = [(j, i) for i in range(n) for j in self.preds[i] if self.sp(j) != self.sp(i)]
        if self.layout == "xma":
            for spv in ("S", "T"):
                L.append("%s.K = %r" % (spv, tuple(self.K(i) for i in range(n)),))
                L.append("%s.PW = %r" % (spv, tuple(tuple((j, WEIGHT[j], self.sp(j) == self.sp(i))
                                                          for j in self.preds[i]) for i in range(n)),))
                L.append("%s.new_cells('f', formula=%r)" % (
                    spv, "def f(i):\n    LOG.append(i)\n"
                         "    return K[i] + x + sum([w * (f(j) if here else fo(j)) for j, w, here in PW[i]])"))
            L += ["S.fo = mb.T.f", "T.fo = m.S.f"]
            return L
        for i in range(n):
            sp = self.sp(i)
            terms = "".join(" + %d * %s" % (WEIGHT[j], self.pred_expr(j, sp)) for j in self.preds[i])
            src = "def c%d():\n    LOG.append(%d)\n    return %d + x%s" % (i, i, self.K(i), terms)
            L.append("%s.new_cells('c%d', formula=%r%s)" % (
                sp, i, src, ", is_cached=False" if self.kinds[i] == "U" else ""))
        if self.layout == "xmc":
            for j, sp in sorted(set((j, self.sp(i)) for j, i in crossing)):
                L.append("%s.r%d = %s" % (sp, j, self.cells_expr(j)))
        else:
            for sp in sorted(set(self.sp(i) for j, i in crossing)):
                L.append("S.O = mb.T" if sp == "S" else "T.O = m.S")
        return L

    def build_lines(self):
        if self.cross:
            return self.build_lines_cross()
        if self.none:
            return self.build_lines_none()
        L = ["m.LOG = []", "S = m.new_space('S')", "S.x = 0"]
        if self.layout == "two":
            L += ["T = m.new_space('T')", "T.x = 0"]
        if self.layout in ("args", "args2"):
            L.append("S.K = %r" % (tuple(self.K(i) for i in range(self.n)),))
            L.append("S.PW = %r" % (tuple(tuple((j, WEIGHT[j]) for j in self.preds[i]) for i in range(self.n)),))
            if self.layout == "args":
                L.append("S.new_cells('f', formula=%r)" % (
                    "def f(i):\n    LOG.append(i)\n    return K[i] + x + sum([w * f(j) for j, w in PW[i]])"))
            else:
                L.append("S.new_cells('f', formula=%r)" % (
                    "def f(i, j):\n    LOG.append(i)\n    return K[i] + x + sum([w * f(p, j) for p, w in PW[i]])"))
            return L
        for i in range(self.n):
            if self.kinds[i] == "I":
                terms = "".join(" + %d * %s" % (WEIGHT[j], self.pred_expr(j, "P")) for j in self.preds[i])
                L.append("P%d = m.new_space('P%d', formula=%r)" % (
                    i, i, "lambda t: {'refs': {'k': (LOG.append(%d), %d%s)[1]}}" % (i, self.K(i), terms)))
                L.append("P%d.new_cells('v', formula=%r)" % (i, "def v():\n    LOG.append(%d)\n    return k" % (100 + i)))
            else:
                sp = self.sp(i)
                terms = "".join(" + %d * %s" % (WEIGHT[j], self.pred_expr(j, sp)) for j in self.preds[i])
                src = "def c%d():\n    LOG.append(%d)\n    return %d + x%s" % (i, i, self.K(i), terms)
                L.append("%s.new_cells('c%d', formula=%r%s)" % (
                    sp, i, src, ", is_cached=False" if self.kinds[i] == "U" else ""))
        return L

    def build_lines_none(self):
        """The same net with None-tolerant formulas (callees read through NZ) and allow_none switched on."""
        assert self.layout in ("one", "two", "args") and "I" not in self.kinds
        L = ["m.LOG = []", "m.NZ = lambda u: -1 if u is None else u", "S = m.new_space('S')", "S.x = 0"]
        if self.layout == "two":
            L += ["T = m.new_space('T')", "T.x = 0"]
        if self.layout == "args":
            L.append("S.K = %r" % (tuple(self.K(i) for i in range(self.n)),))
            L.append("S.PW = %r" % (tuple(tuple((j, WEIGHT[j]) for j in self.preds[i]) for i in range(self.n)),))
            L.append("S.NN = %r" % (tuple(i for i in range(self.n) if self.kinds[i] == "N"),))
            L.append("S.new_cells('f', formula=%r)" % (
                "def f(i):\n    LOG.append(i)\n    v = K[i] + x + sum([w * NZ(f(j)) for j, w in PW[i]])\n"
                "    return None if (i in NN and x % 2 == 0) else v"))
            cells = ["m.S.f"]
        else:
            cells = []
            for i in range(self.n):
                sp = self.sp(i)
                terms = "".join(" + %d * NZ(%s)" % (WEIGHT[j], self.pred_expr(j, sp)) for j in self.preds[i])
                src = "def c%d():\n    LOG.append(%d)\n    v = %d + x%s\n    return %s" % (
                    i, i, self.K(i), terms, "None if x % 2 == 0 else v" if self.kinds[i] == "N" else "v")
                L.append("%s.new_cells('c%d', formula=%r%s)" % (
                    sp, i, src, ", is_cached=False" if self.kinds[i] == "U" else ""))
                cells.append("m.%s.c%d" % (sp, i))
        if self.none == "cells":
            L += ["%s.allow_none = True" % c for c in cells]
        elif self.none == "space":
            L += ["S.allow_none = True"] + (["T.allow_none = True"] if self.layout == "two" else [])
        else:
            L.append("m.allow_none = True")
        return L

    def eval_expr(self, i):
        if self.layout == "xma":
            return "%s(%d)" % (self.cells_expr(i), i)
        if self.cross:
            return "%s()" % self.cells_expr(i)
        if self.layout == "args":
            return "m.S.f(%d)" % i
        if self.layout == "args2":
            return "m.S.f(%d, 0)" % i if i % 2 == 0 else "m.S.f(%d, j=0)" % i
        if self.kinds[i] == "I":
            return "m.P%d[0].v()" % i
        return "m.%s.c%d()" % (self.sp(i), i)

    def op_line(self, op, i, v=None):
        a = self.argslike
        if self.layout == "args2" and op in ("A", "C"):
            if op == "A":
                return "m.S.f[%d, 0] = %d" % (i, v)
            return "m.S.f.clear_at(%d, 0)" % i if i % 2 == 0 else "m.S.f.clear_at(i=%d, j=0)" % i
        k = self.kinds[i] if i is not None else None
        c = None if (op == "X" or (i is None and not a)) else self.cells_expr(i)
        if op == "A":
            return "%s[%d] = %r" % (c, i, v) if a else ("%s.value = %r" % (c, v) if i % 2 == 0 else "%s = %r" % (c, v))
        if op == "C":
            if a:
                return "%s.clear_at(%d)" % (c, i)
            if k == "I":
                return "del m.P%d[0]" % i
            return "%s.clear_at()" % c if i % 2 == 0 else "del %s.value" % c
        if op == "CL":
            return "%s.clear()" % c if a else ("m.P%d.clear_items()" % i if k == "I" else "%s.clear()" % c)
        if op == "CA":
            return "%s.clear_all()" % c if a else ("m.P%d.clear_all()" % i if k == "I" else "%s.clear_all()" % c)
        if op == "X":
            return "m.S.x = %d" % v
        raise ValueError(op)

    def ops(self):
        """Statically applicable operations (kind, node)."""
        out = []
        if self.layout == "xma":    # clear() / clear_all() of the cells of each model (named by its first node)
            out += [("A", i) for i in range(self.n)] + [("C", i) for i in range(self.n)]
            for first in sorted(set(self.models.index(x) for x in self.models)):
                out += [("CL", first), ("CA", first)]
        elif self.layout in ("args", "args2"):
            out += [("A", i) for i in range(self.n)] + [("C", i) for i in range(self.n)]
            out += [("CL", None), ("CA", None)]
        else:
            for i in range(self.n):
                if self.kinds[i] in "CN":
                    out += [("A", i), ("C", i), ("CL", i), ("CA", i)]
                elif self.kinds[i] == "I":
                    out += [("C", i), ("CL", i), ("CA", i)]
        if self.none:               # the edit "assign None" (op AN = A with the value None)
            out += [("AN", i) for i in range(self.n) if self.kinds[i] in "CN"]
        out.append(("X", None))
        return out


NONE_WHERE = ("cells", "space", "model")


def all_dags(n):
    pairs = [(j, i) for i in range(n) for j in range(i)]
    for mask in range(1 << len(pairs)):
        preds = [[] for _ in range(n)]
        for b, (j, i) in enumerate(pairs):
            if mask >> b & 1:
                preds[i].append(j)
        yield preds


def model_splits(n):
    """Assignments of the nodes to the models A / B: node 0 in A, at least one node in B."""
    for rest in itertools.product("AB", repeat=n - 1):
        if "B" in rest:
            yield "A" + "".join(rest)


def nets_of(n, variants):
    """variants: subset of {'one','two','args','U','I', ...}."""
    # nets that span two models: every DAG x every split of the nodes over the two models with at least one
    # dependency across the boundary (xmU: additionally one uncached cells, at every position)
    for lay in Net.XM + ("xmU",):
        if lay not in variants or n < 2:
            continue
        for preds in all_dags(n):
            for models in model_splits(n):
                if not any(models[j] != models[i] for i in range(n) for j in preds[i]):
                    continue
                if lay == "xmU":
                    for pos in range(n):
                        for lay2 in ("xmc", "xms"):
                            yield Net(preds, "C" * pos + "U" + "C" * (n - pos - 1), lay2, models=models)
                else:
                    yield Net(preds, "C" * n, lay, models=models)
    for preds in all_dags(n):
        for lay in ("one", "two", "args", "args2"):
            if lay in variants and (lay != "two" or n >= 2):
                yield Net(preds, "C" * n, lay)
        for kind in "UI":
            if kind in variants:
                for pos in range(n):
                    yield Net(preds, "C" * pos + kind + "C" * (n - pos - 1), "one")
        if "UU" in variants and n >= 3:
            for pos in range(n - 1):
                yield Net(preds, "C" * pos + "UU" + "C" * (n - pos - 2), "one")
    # held value None: allow_none on the cells / the space / the model ("none": all three per net, "none1": one of
    # them, cycling); all-C nets (None only by assignment), one N element at every position, N next to an uncached U
    count = 0
    for v in variants:
        if not v.startswith("none"):
            continue
        for preds in all_dags(n):
            kindsets = ["C" * n] + ["C" * pos + "N" + "C" * (n - pos - 1) for pos in range(n)]
            if n >= 2:
                kindsets += ["NU" + "C" * (n - 2), "UN" + "C" * (n - 2)]
            for lay in ("one", "two", "args"):
                if lay == "two" and n < 2:
                    continue
                for kinds in kindsets:
                    if "U" in kinds and lay != "one":
                        continue
                    for w, where in enumerate(NONE_WHERE):
                        if v == "none" or (v == "none1" and (count + w) % 3 == 0) or v == "none:" + where:
                            yield Net(preds, kinds, lay, none=where)
                    count += 1


# ------------------------------------------------------------------------------------------------ observation
# The observation and the per-step check live in c06_check.py: the driver and every replay script run that same code.
import c06_check
from c06_check import observe, check
CHECK_SRC = open(c06_check.__file__).read()


# ------------------------------------------------------------------------------------------------ the oracle
class Sim:
    """Independent memoising evaluator + the discard rule of the statement."""

    def __init__(self, net):
        self.net = net
        self.val, self.deps, self.inp = {}, {}, set()
        self.x = {"S": 0, "T": 0}
        self.log = []
        self.how = {}               # (j, i), i in another model than j: what i found when it read j (last time)

    # elements: ('c', i) cells element, ('I', i) ItemSpace node P_i[0], ('V', i) the value P_i[0].v()
    def formula(self, i, d, with_x=True):
        net = self.net
        x = self.x[net.sp(i)]
        v = net.K(i) + (x if with_x else 0)
        for j in net.preds[i]:
            if net.cross and net.sp(j) != net.sp(i):
                e = ("c", j)
                self.how[(j, i)] = ("on-demand" if e not in self.val or net.kinds[j] == "U" else
                                    "held-input" if e in self.inp else "held-computed")
            p = self.ev(j, d)
            v += WEIGHT[j] * (-1 if p is None else p)       # nets without allow_none never hold None
        if net.kinds[i] == "N" and x % 2 == 0:
            return None
        return v

    def ev(self, i, d):
        kind = self.net.kinds[i]
        if kind in "CN":
            e = ("c", i)
            d.add(e)
            if e not in self.val:
                self.log.append(i)
                dd = set()
                self.val[e] = self.formula(i, dd)
                self.deps[e] = dd
            return self.val[e]
        if kind == "U":
            self.log.append(i)
            return self.formula(i, d)
        eI, eV = ("I", i), ("V", i)
        d.add(eI); d.add(eV)
        self.ev_item(i)
        if eV not in self.val:
            self.log.append(100 + i)
            self.val[eV] = self.val[eI]
            self.deps[eV] = set()
        return self.val[eV]

    def ev_item(self, i):
        eI = ("I", i)
        if eI not in self.val:
            self.log.append(i)
            dd = set()
            self.val[eI] = self.formula(i, dd, with_x=False)
            self.deps[eI] = dd

    def evaluate(self, i):
        return self.ev(i, set())

    def desc(self, roots):
        D, todo = set(), list(roots)
        while todo:
            r = todo.pop()
            for e, ds in self.deps.items():
                if e not in D and r in ds:
                    D.add(e); todo.append(e)
            if r[0] == "I" and ("V", r[1]) in self.val and ("V", r[1]) not in D:
                D.add(("V", r[1])); todo.append(("V", r[1]))
        return D

    def discard(self, elems):
        for e in elems:
            self.val.pop(e, None); self.deps.pop(e, None); self.inp.discard(e)

    def elems_of_cells(self, i):
        if self.net.layout in ("args", "args2"):
            return [e for e in self.val if e[0] == "c"]
        if self.net.layout == "xma":
            return [e for e in self.val if e[0] == "c" and self.net.sp(e[1]) == self.net.sp(i)]
        return [("c", i)] if ("c", i) in self.val else []

    # -- operations; each returns the set of discarded dependents (excluding the edited element itself)
    def assign(self, i, v):
        e = ("c", i)
        D = self.desc([e]) if e in self.val else set()
        self.discard(D | {e})
        self.val[e] = v; self.deps[e] = set(); self.inp.add(e)
        return D

    def clear_at(self, i):
        e = ("I", i) if self.net.kinds[i] == "I" else ("c", i)
        if e not in self.val:
            return set()
        D = self.desc([e])
        self.discard(D | {e})
        return D

    def clear(self, i, inputs_too):
        if i is not None and self.net.kinds[i] == "I":
            return self.clear_at(i)
        roots = [e for e in self.elems_of_cells(i) if inputs_too or e not in self.inp]
        D = self.desc(roots) - set(roots)
        self.discard(D | set(roots))
        return D

    def would_recompute(self, D):
        """[(label, value, log entry)] of the elements D (not held) if they were computed now (self unchanged)."""
        s2 = Sim(self.net)
        s2.val, s2.deps, s2.inp, s2.x = dict(self.val), dict(self.deps), set(self.inp), dict(self.x)
        out = []
        for e in sorted(D):
            s2.ev(e[1], set())
            out.append((self.label(e), s2.val[e], e[1]))
        return out

    def cross_tags(self, roots, D):
        """Features of the discarded set D of an edit of `roots` in a net that spans two models: what a discarded
        dependent had found when it read its precedent in the other model; the boundary crossed more than once."""
        net = self.net
        t = set()
        rootn = set(r[1] for r in roots if r[0] == "c")
        reach = {}                  # node computed from a root -> model boundaries crossed on the way (max)
        for i in range(net.n):      # node order is a topological order
            if i in rootn:
                reach[i] = 0
            elif ("c", i) in D or net.kinds[i] == "U":
                hops = [reach[j] + (net.sp(j) != net.sp(i)) for j in net.preds[i] if j in reach]
                if hops:
                    reach[i] = max(hops)
                    if ("c", i) in D:
                        t.update("precedent:" + self.how.get((j, i), "on-demand")
                                 for j in net.preds[i] if j in reach and net.sp(j) != net.sp(i))
        if any(reach.get(e[1], 0) >= 2 for e in D):
            t.add("boundary-crossed-twice")
        if any(net.sp(e[1]) != net.sp(r) for e in D for r in rootn):
            t.add("dependent-in-other-model")
        return sorted(t)

    def recompute(self, D):
        """Recalculation option: the discarded dependents are computed again at once."""
        optional = []
        for e in sorted(D):
            if e[0] == "c":
                self.ev(e[1], set())
            elif e[0] == "I":
                self.ev_item(e[1])
        for e in D:
            if e[0] == "V" and e not in self.val:
                optional.append(e)      # a value inside a re-created ItemSpace that nothing recomputed asked for
        return optional

    # -- expected observation
    def label(self, e):
        net = self.net
        if e[0] == "c":
            if net.layout == "xma":
                return "%s.f|%d" % (net.sp(e[1]), e[1])
            if net.layout == "args":
                return "S.f|%d" % e[1]
            if net.layout == "args2":
                return "S.f|(%d, 0)" % e[1]
            return "%s.c%d|()" % (net.sp(e[1]), e[1])
        if e[0] == "V":
            return "P%d[0].v|()" % e[1]
        return None

    def expected(self):
        held = {self.label(e): v for e, v in self.val.items() if e[0] != "I"}
        return {"held": held, "inputs": sorted(self.label(e) for e in self.inp),
                "items": sorted("P%d[0]" % e[1] for e in self.val if e[0] == "I")}

    def resync(self, obs):
        """After a reference change: adopt what the model still holds (its correctness is checked by the caller)."""
        keep = set(obs["held"]) | set(obs["items"])
        for e in list(self.val):
            lab = self.label(e) if e[0] != "I" else "P%d[0]" % e[1]
            if lab not in keep:
                self.discard([e])


# ------------------------------------------------------------------------------------------------ one case
class Bench:
    """A real model of one net, reused over cases (every case starts with a checked Model.clear_all())."""

    def __init__(self, net):
        self.net = net
        reset()
        mx.use_formula_error(False)
        self.m = mx.new_model("M")
        self.env = {"m": self.m, "mx": mx}
        for ln in net.build_lines():
            exec(ln, self.env)
        self.models = [self.m] + ([self.env["mb"]] if "mb" in self.env else [])
        self.LOG = self.m.LOG
        self.xval = 0
        self.dirty = False
        self.history = []           # records of the last cases run on this model

    def reset_rec(self, recalc):
        lines = ["mx.set_recalc(False)", "m.clear_all()"] + (["mb.clear_all()"] if self.net.cross else [])
        if self.xval != 0:
            lines.append("m.S.x = 0")
        lines += ["del m.LOG[:]", "mx.set_recalc(%r)" % bool(recalc)]
        self.xval = 0
        return {"k": "edit", "ln": "\n".join(lines), "mode": "reset"}

    def step(self, rec):
        """Execute one record on the real model and check its expectation -> [(kind, detail)]."""
        n0 = len(self.LOG)
        value = None
        try:
            if rec["k"] == "edit":
                exec(rec["ln"], self.env)
            else:
                value = eval(rec["ln"], self.env)
        except Exception as ex:
            self.dirty = True
            return [("raises:" + type(ex).__name__, "%s raised %s: %s" % (rec["ln"], type(ex).__name__, str(ex)[:100]))]
        try:
            obs = observe(*self.models)
        except Exception as ex:
            self.dirty = True
            return [("raises:" + type(ex).__name__, "reading dict(cells)/is_input/itemspaces after %s raised %s: %s"
                     % (rec["ln"], type(ex).__name__, str(ex)[:100]))]
        self.last_obs = obs
        bad = check(rec, obs, self.LOG[n0:], value)
        if bad:
            self.dirty = True
            bad = [(k, "%s (observed %r)" % (d, obs)) for k, d in bad]
        return bad


def op_kind(sim, op, i):
    net = sim.net
    if op in ("A", "AN"):
        e = ("c", i)
        return "assign-new" if e not in sim.val else ("overwrite-input" if e in sim.inp else "overwrite-computed")
    if op == "C":
        if net.kinds[i] == "I":
            return "itemspace-delete"
        e = ("c", i)
        return "clear-at-absent" if e not in sim.val else ("clear-at-input" if e in sim.inp else "clear-at-computed")
    if op == "CL":
        return "itemspace-clear-items" if (i is not None and net.kinds[i] == "I") else "clear-computed-only"
    if op == "CA":
        return "itemspace-parent-clear-all" if (i is not None and net.kinds[i] == "I") else "clear-all"
    return "ref-change"


def struct_tags(D):
    """Features of the discarded set."""
    t = []
    if any(e[0] == "I" for e in D):
        t.append("dependent-itemspace")
    if any(e[0] == "V" for e in D):
        t.append("dependent-in-itemspace")
    return t


def run_case(bench, case):
    """case = (recalc, init, steps); init = 'all' | 'none' | node; steps = ((op, node, eval_after), ...).
    Returns (failures [(tags, what, records)], nontrivial, records)."""
    net = bench.net
    recalc, init, steps = case
    recs = []                      # replayable user code of this case with the expectation of every step
    fails = []
    base = ["recalc-on" if recalc else "recalc-off", "layout:" + net.layout]
    if "U" in net.kinds:
        base.append("net-has-uncached")
    if net.none:
        base.append("allow-none:" + net.none)
    if net.cross:
        base.append("cross-model")

    def none_tags():
        """Features of the state a step is checked in: an assigned / a computed element holds None."""
        t = []
        if any(v is None and e in sim.inp for e, v in sim.val.items()):
            t.append("holds-assigned-none")
        if any(v is None and e not in sim.inp for e, v in sim.val.items()):
            t.append("holds-computed-none")
        return t
    sim = Sim(net)
    nontrivial = False

    def run(rec, tags):
        recs.append(rec)
        bad = bench.step(rec)
        for k, detail in bad:
            fails.append((tags + [k], "%s after %s: %s" % (k, rec["ln"].replace("\n", "; "), detail), list(recs)))
        return not bad

    if not run(bench.reset_rec(recalc), base + ["reset"]):
        return fails, True, recs

    def do_eval(targets, tags):
        for t in targets:
            s0 = len(sim.log)
            want = sim.evaluate(t)
            rec = {"k": "eval", "ln": net.eval_expr(t), "mode": "exact", "value": want, "state": sim.expected(),
                   "log": sim.log[s0:]}
            if not run(rec, tags + none_tags()):
                return False
        return True

    targets = list(range(net.n)) if init == "all" else ([] if init == "none" else [init])
    if not do_eval(targets, base + ["initial-evaluation"]):
        return fails, True, recs

    xcount = 0
    last = None
    for op, i, eval_after in steps:
        if op == "C" and i is not None and net.kinds[i] == "I" and ("I", i) not in sim.val:
            continue                # `del P[0]` of an absent ItemSpace raises KeyError by contract: not an edit
        kind = op_kind(sim, op, i)
        last = kind
        v = None
        if op == "AN":
            op = "A"                # assign None
            kind += "-none"
            last = kind
        elif op == "A":
            v = 50000 + 100 * len(recs) + i
        elif op == "X":
            xcount += 1
            v = xcount
        ln = net.op_line(op, i, v)
        had_inputs = bool(sim.inp)
        # feature of the state the edit is applied in: an assigned value sits on an element whose formula reads an
        # element of the other model
        xstate = ["input-on-reader-of-other-model"] if net.cross and any(
            net.reads_other(e[1]) for e in sim.inp) else []
        s0 = len(sim.log)
        if op == "X":
            sim.x["S"] = v
            roots = [e for e in sim.val if e[0] == "c" and net.sp(e[1]) == "S" and e not in sim.inp]
            gone = set(roots) | sim.desc(roots)         # every computed value that (transitively) read S.x
            rec = {"k": "edit", "ln": ln, "mode": "xchange",
                   "inputs": {sim.label(e): sim.val[e] for e in sim.inp},
                   "gone": sorted(sim.label(e) if e[0] != "I" else "P%d[0]" % e[1] for e in gone)}
            sim.discard(gone)
            D = ()
        else:
            if net.cross:           # the edited elements (for the tags of the step)
                roots = [("c", i)] if op in ("A", "C") else \
                    [e for e in sim.elems_of_cells(i) if op == "CA" or e not in sim.inp]
            if op == "A":
                D = sim.assign(i, v)
            elif op == "C":
                D = sim.clear_at(i)
            else:
                D = sim.clear(i, inputs_too=(op == "CA"))
            rec = {"k": "edit", "ln": ln, "mode": "exact"}
            if op == "A" and recalc and net.cross:
                # the statement is silent on the recalculation option: across models any element that is not held
                # after the discard (a discarded dependent or another one) may be computed at once or not - if it
                # is held it has the value of the definitions and its formula ran once
                rec["mode"] = "recalc"
                rec["lenient"] = True
                rec["optional"] = sim.would_recompute(("c", k) for k in range(net.n) if ("c", k) not in sim.val)
            elif op == "A" and recalc and D:
                opt = sim.recompute(D)
                rec["mode"] = "recalc"
                rec["optional"] = [(sim.label(e), sim.val[("I", e[1])], 100 + e[1]) for e in opt
                                   if ("I", e[1]) in sim.val]
            rec["state"] = sim.expected()
            rec["log"] = sim.log[s0:]
        tags = base + ["op:" + kind] + struct_tags(D) + none_tags() + xstate
        if net.cross and op != "X":
            tags += sim.cross_tags(roots, D)
        if D or had_inputs or op == "A":
            nontrivial = True
        if not run(rec, tags):
            return fails, nontrivial, recs
        if op == "X":
            bench.xval = v
            sim.resync(bench.last_obs)      # what is still held is validated by the evaluations that follow
        elif rec["mode"] == "recalc" and rec["optional"]:
            held = bench.last_obs["held"]
            for lab, val, entry in rec["optional"]:
                if lab in held:
                    sim.ev(entry if net.cross else entry - 100, set())
        if eval_after is not None:
            tg = list(range(net.n)) if eval_after == "all" else [eval_after]
            if not do_eval(tg, tags + ["evaluation-after-edit"]):
                return fails, nontrivial, recs
    do_eval(list(range(net.n)), base + ["final-evaluation"] + (["after-op:" + last] if last else []))
    return fails, nontrivial, recs


def replay(net, recs):
    """Re-run recorded steps on a fresh model; the problems of the first failing step (or [])."""
    bench = Bench(net)
    for idx, rec in enumerate(recs):
        bad = bench.step(rec)
        if bad:
            return idx, bad
    return None, []


SCRIPT = '''# C06 replay: exit 1 iff some step's observable state / returned value / formula execution log differs from
# what the statement requires (expectations are literals computed by the driver's independent evaluator).
import sys, warnings
warnings.filterwarnings("ignore")
import modelx as mx
mx.use_formula_error(False)
BUILD = %(build)r
RECALC = %(recalc)r
STEPS = %(steps)r

%(check)s

m = mx.new_model("M"); env = {"m": m, "mx": mx}
for ln in BUILD:
    exec(ln, env)
MODELS = [m] + ([env["mb"]] if "mb" in env else [])
mx.set_recalc(RECALC)
LOG = m.LOG
code = 0
try:
    for rec in STEPS:
        n0 = len(LOG); value = None
        try:
            if rec["k"] == "edit":
                exec(rec["ln"], env)
            else:
                value = eval(rec["ln"], env)
        except Exception as e:
            print(rec["ln"], "raised", type(e).__name__, e); code = 1; break
        bad = check(rec, observe(*MODELS), LOG[n0:], value)
        print(rec["ln"], "->", value if rec["k"] == "eval" else "", "formulas run:", LOG[n0:])
        if bad:
            print("VIOLATION:", bad); code = 1; break
finally:
    mx.set_recalc(False)
sys.exit(code)
'''


def make_script(net, recalc, recs):
    return SCRIPT % {"build": net.build_lines(), "recalc": bool(recalc), "steps": recs, "check": CHECK_SRC}


# ------------------------------------------------------------------------------------------------ enumeration
def sequences(net, maxlen, evals):
    """All op sequences of length 1..maxlen; evals: per step choice of evaluation after the edit."""
    ops = net.ops()
    for k in range(1, maxlen + 1):
        for seq in itertools.product(ops, repeat=k):
            for ev in itertools.product(evals, repeat=k - 1):
                yield tuple((op, i, (ev[s] if s < k - 1 else None)) for s, (op, i) in enumerate(seq))


def inits(net, level):
    if level == 0:
        return ["all"]
    return ["all"] + list(range(net.n)) + (["none"] if level >= 2 else [])


def plan(tier):
    """[(n, variants, max sequence length, between-evaluations, init level per sequence length, sample per net)]"""
    if tier == "quick":
        return [
            (1, ("one", "args", "I"), 3, (None, "all"), (2, 2, 2), None),
            (2, ("one", "two", "args", "args2", "U", "I"), 2, (None, "all"), (2, 2), None),
            (3, ("one", "two", "args", "args2", "U", "I"), 2, (None,), (2, 0), None),
            # nets that span two models (before the sampled rows: a run cut by the budget loses those first)
            (2, ("xmc", "xms", "xma", "xmU"), 2, (None, "all"), (2, 2), None),
            (3, ("xmc", "xms", "xma"), 2, (None,), (2, 0), None),
            (3, ("xmc", "xma", "xmU"), 3, (None, "all"), (2, 2, 2), 30),
            (3, ("one", "args", "I"), 3, (None, "all"), (1, 1, 1), 40),
            (4, ("one",), 1, (None,), (1,), None),
            (4, ("one", "two", "args", "U", "I", "UU"), 2, (None, "all"), (1, 1), 8),
            (5, ("one", "I", "U"), 2, (None, "all"), (1, 1), 2),
            # held value None (allow_none; kinds N; the edit "assign None")
            (1, ("none:cells",), 3, (None, "all"), (2, 2, 2), None),
            (1, ("none",), 2, (None, "all"), (2, 2), None),
            (2, ("none1",), 2, (None, "all"), (2, 2), None),
            (3, ("none1",), 1, (None,), (1,), None),
            (3, ("none1",), 3, (None, "all"), (1, 1, 1), 30),
        ]
    return [
        (1, ("one", "args", "I"), 3, (None, "all"), (2, 2, 2), None),
        (2, ("one", "two", "args", "args2", "U", "I"), 3, (None, "all"), (2, 2, 1), None),
        (3, ("one", "two", "args", "args2", "U", "I", "UU"), 2, (None, "all"), (2, 2), None),
        (3, ("one", "two", "args", "U", "I"), 3, (None,), (2, 2, 0), None),
        # nets that span two models
        (2, ("xmc", "xms", "xma", "xmU"), 3, (None, "all"), (2, 2, 1), None),
        (3, ("xmc", "xms", "xma", "xmU"), 2, (None, "all"), (2, 0), None),
        (3, ("xmc", "xms", "xma", "xmU"), 3, (None, "all"), (2, 2, 2), 150),
        (4, ("xmc", "xma"), 3, (None, "all"), (1, 1, 1), 6),
        (4, ("one", "two", "args", "U", "I", "UU"), 1, (None,), (2,), None),
        (4, ("one", "args"), 2, (None,), (2, 1), None),
        (4, ("I", "U"), 2, (None,), (2, 0), None),
        (4, ("one", "two", "args", "args2", "U", "I", "UU"), 3, (None, "all"), (1, 1, 1), 100),
        (5, ("one",), 1, (None,), (1,), None),
        (5, ("one", "two", "args", "U", "I", "UU"), 3, (None, "all"), (1, 1, 1), 25),
        # held value None (allow_none; kinds N; the edit "assign None")
        (1, ("none",), 3, (None, "all"), (2, 2, 2), None),
        (2, ("none",), 2, (None, "all"), (2, 2), None),
        (2, ("none1",), 3, (None,), (2, 2, 1), None),
        (3, ("none1",), 2, (None,), (2, 0), None),
        (3, ("none",), 3, (None, "all"), (1, 1, 1), 60),
        (4, ("none1",), 3, (None, "all"), (1, 1, 1), 6),
    ]


def work(task):
    """One task = one chunk of nets of one plan row."""
    row, nets, tier, seed, deadline = task
    n, variants, maxlen, evals, ilevel, sample = row
    cases = []
    fails = {}
    expired = False
    build_errors = []
    for preds, kinds, layout, none, models in nets:
        net = Net(preds, kinds, layout, none, models)
        rng = random.Random("%s/%s/%s" % (seed, net.key, maxlen))
        try:
            bench = Bench(net)
        except Exception as e:      # the net cannot be built on this tree: nothing to check
            build_errors.append("%s: %s: %s" % (net.key, type(e).__name__, str(e)[:150]))
            continue

        # (an uncached cells runs again on every call: what a recalculation across models executes is not fixed)
        recalcs = (False,) if (net.cross and "U" in net.kinds) else (False, True)

        def gen():
            if sample is None:
                for steps in sequences(net, maxlen, evals):
                    for init in inits(net, ilevel[len(steps) - 1]):
                        for recalc in recalcs:
                            yield (recalc, init, steps)
            else:
                ops = net.ops()
                ini = inits(net, ilevel[0])
                for _ in range(sample):
                    k = rng.randint(2, maxlen) if maxlen >= 2 else 1
                    steps = tuple((op, i, rng.choice(evals) if s < k - 1 else None)
                                  for s, (op, i) in enumerate(rng.choice(ops) for _ in range(k)))
                    yield (rng.random() < 0.5 and len(recalcs) > 1, rng.choice(ini), steps)

        for case in gen():
            if time.time() > deadline:
                expired = True
                break
            reused = bool(bench.history)
            fl, nontrivial, recs = run_case(bench, case)
            if fl and reused:
                # the model was reused: confirm on a fresh one, if necessary with the cases that preceded
                idx, bad = replay(net, recs)
                if bad:
                    fl = [(f[0], f[1], recs[:idx + 1]) for f in fl]
                else:
                    for back in (1, 2, 3):
                        allrecs = [r for h in bench.history[-back:] for r in h] + recs
                        idx, bad = replay(net, allrecs)
                        if bad or back == 3:
                            extra = ["needs-the-preceding-cases"] if bad else ["not-reproduced-on-a-fresh-model"]
                            fl = [(f[0] + extra, f[1], allrecs[:idx + 1] if bad else allrecs) for f in fl]
                            break
            if fl or bench.dirty:
                bench = Bench(net)
            else:
                bench.history = (bench.history + [recs])[-3:]
            key = "%s|%d|%s|%s" % (net.key, case[0], case[1],
                                   ";".join("%s%s%s" % (o, "" if i is None else i, "" if e is None else "e")
                                            for o, i, e in case[2]))
            cases.append((key, nontrivial))
            for tags, what, recs in fl:
                tags = tuple(sorted(set(tags)))
                ent = fails.setdefault(tags, [0, []])
                ent[0] += 1
                if len(ent[1]) < 2:
                    ent[1].append((what[:600], make_script(net, case[0], recs) if recs else None, key))
        if expired:
            break
    return cases, fails, expired, build_errors


def run(res, tier, seed):
    res.bound = ("all dependency DAGs on <= 3 elements (quick: value-edit sequences <= 2 exhaustive, <= 3 sampled; "
                 "thorough: <= 3 exhaustive), on 4 elements (quick: 1 edit exhaustive for scalar cells, 2 sampled; "
                 "thorough: <= 2 exhaustive, 3 sampled) and on 5 elements (thorough: 1 edit exhaustive for scalar cells, "
                 "<= 3 sampled); realisations: scalar cells in one space / in two spaces (calls by attribute path) / "
                 "elements of one cells with one or two arguments / one or two uncached cells / one ItemSpace node / "
                 "the nodes split over two models, read across through a reference to the cells or to the space "
                 "(all DAGs on 2-3 elements with a dependency across the boundary: quick <= 2 edits, 3 sampled; "
                 "thorough <= 3 edits on 2 elements, <= 2 on 3, 3 sampled, 4 elements sampled); every edited "
                 "element x {assign, clear_at, clear(), clear_all(), delete ItemSpace, reference change} x recalc on/off "
                 "x initial evaluation {all, one target, none}; + the DAGs on <= 3 elements (4 sampled, thorough) with "
                 "allow_none on the cells / the space / the model, <= 1 element computing None (alone or next to an uncached "
                 "cells) and the additional edit 'assign None' (quick: sequences <= 3 on 1 element, <= 2 on 2, 1 on 3, "
                 "3 sampled; thorough: <= 3 on 1-2 elements, <= 2 on 3, 3 sampled)")
    res.rule = ("a case = (DAG realisation, recalc flag, initial evaluation, sequence of edits with optional full "
                "evaluation in between, final full evaluation); after every step dict(cells), is_input, the existing "
                "ItemSpaces and the formula execution log are compared with an independent memoising evaluator; "
                "non-trivial = some edit hit an element with held dependents, or an assigned value existed, or an "
                "assignment was made; distinct = distinct case description")
    deadline = res.t0 + res.budget_s * (0.8 if tier == "quick" else 0.85)
    tasks = []
    for row in plan(tier):
        n, variants = row[0], row[1]
        nets = [(nt.preds, nt.kinds, nt.layout, nt.none, nt.models) for nt in nets_of(n, variants)]
        if row[5] is not None and n == 5:           # sampled rows on 5 elements: a seeded subset of the nets
            r = random.Random("%s/nets5/%s" % (seed, row[2]))
            r.shuffle(nets)
            nets = nets[:600 if tier == "thorough" else 120]
        chunk = max(1, len(nets) // 48)
        for c in range(0, len(nets), chunk):
            tasks.append((row, nets[c:c + chunk], tier, seed, deadline))
    nproc = max(1, min(12, (os.cpu_count() or 2) - 2))
    if os.environ.get("VERIF_DRIVER_PROCS"):           # shared machine: cap the worker processes
        nproc = max(1, int(os.environ["VERIF_DRIVER_PROCS"]))
    ctx = multiprocessing.get_context("fork")
    exhaustive = True
    with ctx.Pool(nproc) as pool:
        for cases, fails, expired, build_errors in pool.imap(work, tasks, chunksize=1):
            if build_errors:
                exhaustive = False
                if len(res.notes) < 5:
                    res.notes.append("nets that could not be built: %s" % build_errors[:2])
            for key, nontrivial in cases:
                res.count(key, nontrivial)
            if cases:
                res.sample(cases[0][0])
            for tags, (count, examples) in sorted(fails.items()):
                for what, script, key in examples:
                    res.fail(tags, what, script=script, case=key)
                res.failure_counts[tags] = res.failure_counts.get(tags, 0) + count - len(examples)
            if expired:
                exhaustive = False
    res.exhaustive = exhaustive
    res.notes.append("%d tasks on %d worker processes" % (len(tasks), nproc))


if __name__ == "__main__":
    main("C06", run)
