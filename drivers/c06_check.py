def observe(m, *more):
    """Public view of everything held: {cells element: value}, the assigned ones, the existing ItemSpaces
    (of the model m and of the further models of a net that spans several models; their space names are distinct)."""
    held, inputs, items = {}, [], []

    def visit(sp, label):
        for cname, c in sp.cells.items():
            for key in list(c):
                lab = "%s.%s|%r" % (label, cname, key)
                held[lab] = c[key]
                if c.is_input(*(key if isinstance(key, tuple) else (key,))):
                    inputs.append(lab)
        for arg, item in sp.itemspaces.items():
            items.append("%s[%r]" % (label, arg))
            visit(item, "%s[%r]" % (label, arg))
        for cname, child in sp.named_spaces.items():
            visit(child, label + "." + cname)

    for mdl in (m,) + more:
        for sname, sp in mdl.spaces.items():
            visit(sp, sname)
    return {"held": held, "inputs": sorted(inputs), "items": sorted(items)}


def check(rec, obs, logdelta, value=None):
    """Compare what the model shows after one step with the step's expectation -> [(kind, detail)]."""
    bad = []
    mode = rec["mode"]
    logdelta = list(logdelta)
    if rec["k"] == "eval" and value != rec["value"]:
        return [("wrong-value", "%s returned %r, the definitions and assigned values give %r"
                 % (rec["ln"], value, rec["value"]))]
    if mode == "reset":             # Model.clear_all(): nothing is held any more
        if obs["held"] or obs["items"] or obs["inputs"]:
            bad.append(("clear-all-leaves-values", "Model.clear_all() left %r" % (obs,)))
        return bad
    if mode == "xchange":           # a reference change: assigned values stay, values computed from it are gone
        for lab, val in rec["inputs"].items():
            if lab not in obs["held"] or obs["held"][lab] != val:
                bad.append(("input-lost", lab))
            elif lab not in obs["inputs"]:
                bad.append(("input-flag", lab))
        for lab in rec["gone"]:        # computed from the changed reference, directly or transitively
            if lab in obs["held"] or lab in obs["items"]:
                bad.append(("stale-kept", lab))
        if logdelta:
            bad.append(("formula-ran-during-edit", logdelta))
        return bad
    exp = rec["state"]
    explog = list(rec["log"])
    eh, oh = dict(exp["held"]), obs["held"]
    for lab, val, entry in rec.get("optional", ()):
        if lab in oh:               # a value nothing asked for was recomputed as well: allowed
            eh[lab] = val
            explog.append(entry)
    for lab in eh:
        if lab not in oh:
            bad.append(("input-lost" if lab in exp["inputs"] else "over-discarded", lab))
        elif oh[lab] != eh[lab]:
            bad.append(("wrong-value-held", lab))
    for lab in oh:
        if lab not in eh:
            bad.append(("stale-kept", lab))
    for lab in set(obs["inputs"]) ^ set(exp["inputs"]):
        if lab in oh and lab in eh:
            bad.append(("input-flag", lab))
    for it in set(obs["items"]) ^ set(exp["items"]):
        bad.append(("itemspace-stale-kept" if it in obs["items"] else "itemspace-over-discarded", it))
    if mode == "recalc":
        if not rec.get("lenient"):      # (lenient: nothing has to be computed again at once, see the driver)
            bad = [("not-recomputed" if k in ("over-discarded", "itemspace-over-discarded") else k, lab)
                   for k, lab in bad]
        if not bad and sorted(logdelta) != sorted(explog):
            bad.append(("recalc-execution-log", "formulas executed %r, expected (in any order) %r"
                        % (sorted(logdelta), sorted(explog))))
    elif rec["k"] == "edit":
        if logdelta:
            bad.append(("formula-ran-during-edit", logdelta))
    elif not bad and logdelta != explog:
        extra = [x for x in logdelta if logdelta.count(x) > explog.count(x)]
        bad.append(("formula-ran-again" if extra else "formula-not-run",
                    "formulas executed %r, expected %r" % (logdelta, explog)))
    return bad
